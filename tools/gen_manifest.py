#!/venv/bin/python
"""Regenerates /verif/MANIFEST.json from the table below (kept in one place so
that the manifest is always schema-valid and in step with sa/props/)."""
import json
import os

HERE = os.path.dirname(os.path.dirname(os.path.abspath(__file__)))

NOTES = {
    'C01': 'Trusted: ast grammar docs, T1/T2 tables in sa/pyref.py, frozen helper summaries (re-validated each run). Depth-1 '
           'templates (opaque children create no regions; continuity rule covers region-creating children; a child is refined to a real node only where the extractor asks what it is). The lookups themselves are interpreted on the region graph of every construct rebuilt from supp\'s own Flow objects (356 lookups). Not decided: '
           'value-level lookup for arbitrary programs, star-import resolution, builtins, anything depending on Project. API-level glue (which table is consulted, what is marked, copied, sorted, caught) is decided by bounded abstract execution on stub collaborators (sa/api_model.py): exact for the enumerated scenarios, not a proof for all inputs.',
    'C02': 'Trusted: reference CFG templates T3 (C02 domain). R5 (continuity) covers statement blocks and, since round 13, the expression children of statements (the iterable of a for, a with item). The lookups are interpreted on the region graph of every construct rebuilt from supp\'s own Flow objects, in the state the extractor leaves them in. Not decided: position cut of names_at for arbitrary layouts, '
           'inter-scope reads, evaluation in declarations() beyond the alternatives list. API-level glue (which table is consulted, what is marked, copied, sorted, caught) is decided by bounded abstract execution on stub collaborators (sa/api_model.py): exact for the enumerated scenarios, not a proof for all inputs.',
    'C03': 'Trusted: reference CFG templates T3 (exceptions that no handler catches are outside the domain). get_expr_end is interpreted on every '
           'expression class and on 47 concrete layouts (five of them hanging indents: a node visited later on an earlier line at a larger column). Not decided: how a repaired extractor treats dead regions after return/raise in every join '
           '(C03-R4 only requires that return/raise differ observably from a plain statement; today they do not: recorded findings).',
    'C04': 'Trusted: typed call graph from the repository\'s # type: comments. Cycles through EvalCtx.evaluate are listed, not '
           'armed. A memo keyed by the extents in progress is accepted on its supporting fact (the guard registers itself where the key is taken from); order independence is decided by interpreting the lookups on the loop region graphs (for / async for / while; compound, simple and nested-loop body statements; every pair of read positions). Not decided: equality of answers under concrete query orders beyond those shapes. API-level glue (which table is consulted, what is marked, copied, sorted, caught) is decided by bounded abstract execution on stub collaborators (sa/api_model.py): exact for the enumerated scenarios, not a proof for all inputs.',
    'C05': 'Trusted: T1 table. Not decided: agreement with symtable on real files; free-variable resolution through several '
           'levels beyond the modelled chain.',
    'C06': 'Not decided: that evaluation reaches the right class for an arbitrary expression, import forms, descriptors beyond '
           'the two recognised decorator kinds. API-level glue (which table is consulted, what is marked, copied, sorted, caught) is decided by bounded abstract execution on stub collaborators (sa/api_model.py): exact for the enumerated scenarios, not a proof for all inputs.',
    'C07': 'Not decided: agreement with importlib on concrete trees beyond the modelled file systems (get_module: every exists() probe forks; list_packages: one modelled tree with importlib\'s suffix table and non-identifier file names). API-level glue (which table is consulted, what is marked, copied, sorted, caught) is decided by bounded abstract execution on stub collaborators (sa/api_model.py): exact for the enumerated scenarios, not a proof for all inputs.',
    'C08': 'Trusted: frozen table of raising stdlib calls. Not decided: exceptions raised by stdlib calls outside the table, '
           'stack depth. The field-coverage part of R3 decides that every child field is handed on by the visit method, not that what receives it traverses it. API-level glue (which table is consulted, what is marked, copied, sorted, caught) is decided by bounded abstract execution on stub collaborators (sa/api_model.py): exact for the enumerated scenarios, not a proof for all inputs.',
    'C09': 'Not decided: equality of complete answers after a concrete edit history (the module cache itself is explored over all histories up to length 3/5); mtime granularity; deletion/shadowing. API-level glue (which table is consulted, what is marked, copied, sorted, caught) is decided by bounded abstract execution on stub collaborators (sa/api_model.py): exact for the enumerated scenarios, not a proof for all inputs.',
    'C10': 'Interpretation: "parameter of a method" = parameter of a def or lambda whose enclosing scope is a class body. Not '
           'decided: whether `used` is set for the right bindings (C02), the "never read in the file" premise. API-level glue (which table is consulted, what is marked, copied, sorted, caught) is decided by bounded abstract execution on stub collaborators (sa/api_model.py): exact for the enumerated scenarios, not a proof for all inputs.',
    'C11': 'Trusted: CPython node positions (byte columns; the tree supp analyses must have character columns: column-unit model on non-ASCII texts). Import aliases, def and class names are positioned by text search: supp\'s search helper (found structurally: a method of SourceScope or Source handing its first parameter to str.find) is interpreted with the call shapes of E1 on a corpus of 39 layouts, CRLF texts among them; positions computed from parser positions and identifier lengths are evaluated on the same corpus (exact for those layouts, not for all texts). API-level glue (which table is consulted, what is marked, copied, sorted, caught) is decided by bounded abstract execution on stub collaborators (sa/api_model.py): exact for the enumerated scenarios, not a proof for all inputs.',
    'C12': 'Not decided: mark transparency (a relation between two analyses of every file and position). API-level glue (which table is consulted, what is marked, copied, sorted, caught) is decided by bounded abstract execution on stub collaborators (sa/api_model.py): exact for the enumerated scenarios, not a proof for all inputs.',
    'C13': 'Trusted: token-start order is layout invariant. Not decided: equality of diagnostics between concrete layouts. API-level glue (which table is consulted, what is marked, copied, sorted, caught) is decided by bounded abstract execution on stub collaborators (sa/api_model.py): exact for the enumerated scenarios, not a proof for all inputs.',
    'C14': 'Trusted: struct format semantics (CPython), the transcription of the spec table in sa/msgpack_spec.py. Not decided: '
           'float bit-exactness, UTF-8 content, nesting beyond depth 1 (nested values are cut; list keys are checked to depth 3), '
           'values between the sampled points of an interval (ends, their neighbours, the middle).',
    'C15': 'Trusted: multiprocessing.connection message framing. Not decided: equality of remote and in-process results, '
           'ordering under concurrent callers, multi-MiB payloads (C14 covers the length formats). API-level glue (which table is consulted, what is marked, copied, sorted, caught) is decided by bounded abstract execution on stub collaborators (sa/api_model.py): exact for the enumerated scenarios, not a proof for all inputs.',
    'C16': 'Trusted: threading.Lock/Thread.join semantics; an own write between two reads re-establishes the value. Not '
           'decided: deadlock freedom with real processes, OS-level Listener/Client behaviour, launch time-outs; R7 decides only that interpreter exit waits for the starter (it is not a daemon thread), not what the operating system does with the child. API-level glue (which table is consulted, what is marked, copied, sorted, caught) is decided by bounded abstract execution on stub collaborators (sa/api_model.py): exact for the enumerated scenarios, not a proof for all inputs.',
    'C17': 'Trusted: lists built by ast visitors / position-ordered insertion are deterministic; the MultiName order model includes joins made of unions only (round 13); '
           'Not decided: equality of the outputs of two concrete processes. API-level glue (which table is consulted, what is marked, copied, sorted, caught) is decided by bounded abstract execution on stub collaborators (sa/api_model.py): exact for the enumerated scenarios, not a proof for all inputs.',
}

NOT_YET = {}


def main():
    props = [json.loads(l) for l in open(os.path.join(HERE, 'properties.jsonl'))]
    checks = []
    na = []
    for p in props:
        pid = p['id']
        modpath = os.path.join(HERE, 'sa', 'props', pid.lower() + '.py')
        if os.path.exists(modpath):
            import importlib, sys
            sys.path.insert(0, HERE)
            mod = importlib.import_module('sa.props.' + pid.lower())
            tech, text, note, ref = mod.TECHNIQUE, mod.EXPLANATION, NOTES[pid], 'DESIGN.md §4 ' + pid
            checks.append({
                'property_id': pid,
                'quick_cmd': './check %s --tier quick' % pid,
                'thorough_cmd': './check %s --tier thorough' % pid,
                'evidence_file': 'evidence/%s.json' % pid,
                'replay_cmd_template': './check %s --replay {path}' % pid,
                'engine': 'sa',
                'level_claimed': {'category': 'other', 'text': text, 'design_ref': ref},
                'level_note': note,
                'technique': tech,
            })
        else:
            na.append({'property_id': pid,
                       'reason': NOT_YET.get(pid, 'static checker not built yet in this session '
                                                  '(design in DESIGN.md §4); not claimed until it is')})
    man = {
        'version': 1,
        'setup_cmd': '/venv/bin/python -c "import ast,sys; assert sys.version_info[:2]==(3,12); '
                     'assert ast.FunctionDef.__doc__"',
        'hooks': {
            'guard': 'SUPP_VERIF',
            'enable': 'none needed: the checks read source only (no hooks or instrumentation in /repo)',
            'baseline_off_cmd': 'cd /repo && /venv/bin/python -m pytest -ra -q -p no:cacheprovider '
                                '--timeout=900 --continue-on-collection-errors',
            'source_commits': [],
            'add_only': True,
        },
        'engines': [
            {'name': 'sa', 'path': 'sa/', 'serves_properties': [c['property_id'] for c in checks],
             'kind_free_text': 'purpose-built static analysers over ast: table extraction, abstract '
                               'interpretation of the extractor, region-template dataflow, call-graph '
                               'and memo/taint rules; never imports or runs supp'},
        ],
        'checks': checks,
        'not_applicable': na,
        'notes': 'Technique family: static analysis only. Exit 2 + ANALYSIS-ERROR = the checker could not '
                 'interpret the source (never a silent pass). Known findings: known_findings.json.',
    }
    with open(os.path.join(HERE, 'MANIFEST.json'), 'w') as f:
        json.dump(man, f, indent=1)
        f.write('\n')
    print('claimed:', [c['property_id'] for c in checks])
    print('not applicable:', [n['property_id'] for n in na])


if __name__ == '__main__':
    main()
