#!/venv/bin/python
"""Regenerates /verif/MANIFEST.json from the table below (kept in one place so
that the manifest is always schema-valid and in step with sa/props/)."""
import json
import os

HERE = os.path.dirname(os.path.dirname(os.path.abspath(__file__)))

CLAIMS = {
    # id: (technique, level text, level note, design ref)
    'C14': ('AST table extraction + constant folding + comparison with the MessagePack spec table',
            'Static table agreement: writer rows (exact integer partition by breakpoint decomposition), '
            'reader rows for all 256 first bytes and the dispatch table are compared with the '
            'specification table; exhaustive over the finite tables. Decides the format-boundary and '
            'truncation-discipline clauses of the round-trip property, not value equality.',
            'Trusted: struct format semantics (CPython), the transcription of the spec table in '
            'sa/msgpack_spec.py. Not decided: float bit-exactness, UTF-8 handling, nesting depth, map key '
            'conversion, reserved (negative) ext types.',
            'DESIGN.md §4 C14'),
    'C15': ('AST signature/arity agreement + handler containment + must-pass-through path rules',
            'Static protocol skeleton: stub/handler/API parameter wiring by position, exception '
            'containment in Server.process, exactly one reply attempt per request with non-escaping '
            'handlers, send/receive pairing in the client. Necessary conditions of transparency and '
            'fault isolation; payload equality is not decided.',
            'Trusted: multiprocessing.connection message framing. Not decided: equality of remote and '
            'in-process results, ordering under concurrent callers, multi-MiB payloads (C14 covers the '
            'length formats).',
            'DESIGN.md §4 C15'),
    'C16': ('static lock-set (Eraser-style) + check-then-act + dominator/who-may-call rules + resolved '
            'call-arity check',
            'Static lock-set over Environment fields per thread context, check-then-act rule on racy '
            'fields, single-launch dominator rule (Popen only in _run, every route locked and guarded), '
            'repository-wide call arity, close typestate and server-loop exit rules. Necessary '
            'conditions for "exactly one server" and "close ends it"; real-process behaviour is not '
            'decided.',
            'Trusted: threading.Lock/Thread.join semantics. The check-then-act rule treats an own write '
            'between two reads as re-establishing the value. Not decided: deadlock freedom with real '
            'processes, OS-level Listener/Client behaviour, launch time-outs.',
            'DESIGN.md §4 C16'),
}

NOT_YET = {}


def main():
    props = [json.loads(l) for l in open(os.path.join(HERE, 'properties.jsonl'))]
    checks = []
    na = []
    for p in props:
        pid = p['id']
        if pid in CLAIMS and os.path.exists(os.path.join(HERE, 'sa', 'props', pid.lower() + '.py')):
            tech, text, note, ref = CLAIMS[pid]
            checks.append({
                'property_id': pid,
                'quick_cmd': './check %s --tier quick' % pid,
                'thorough_cmd': './check %s --tier thorough' % pid,
                'evidence_file': 'evidence/%s.json' % pid,
                'replay_cmd_template': './check %s --replay {path}' % pid,
                'engine': 'sa',
                'level_claimed': {'category': 'other', 'text': text, 'design_ref': ref},
                'level_note': note,
                'technique': tech,
            })
        else:
            na.append({'property_id': pid,
                       'reason': NOT_YET.get(pid, 'static checker not built yet in this session '
                                                  '(design in DESIGN.md §4); not claimed until it is')})
    man = {
        'version': 1,
        'setup_cmd': '/venv/bin/python -c "import ast,sys; assert sys.version_info[:2]==(3,12); '
                     'assert ast.FunctionDef.__doc__"',
        'hooks': {
            'guard': 'SUPP_VERIF',
            'enable': 'none needed: the checks read source only (no hooks or instrumentation in /repo)',
            'baseline_off_cmd': 'cd /repo && /venv/bin/python -m pytest -ra -q -p no:cacheprovider '
                                '--timeout=900 --continue-on-collection-errors',
            'source_commits': [],
            'add_only': True,
        },
        'engines': [
            {'name': 'sa', 'path': 'sa/', 'serves_properties': [c['property_id'] for c in checks],
             'kind_free_text': 'purpose-built static analysers over ast: table extraction, abstract '
                               'interpretation of the extractor, region-template dataflow, call-graph '
                               'and memo/taint rules; never imports or runs supp'},
        ],
        'checks': checks,
        'not_applicable': na,
        'notes': 'Technique family: static analysis only. Exit 2 + ANALYSIS-ERROR = the checker could not '
                 'interpret the source (never a silent pass). Known findings: known_findings.json.',
    }
    with open(os.path.join(HERE, 'MANIFEST.json'), 'w') as f:
        json.dump(man, f, indent=1)
        f.write('\n')
    print('claimed:', [c['property_id'] for c in checks])
    print('not applicable:', [n['property_id'] for n in na])


if __name__ == '__main__':
    main()
