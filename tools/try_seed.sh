#!/bin/bash
# try_seed.sh <dir with patch.diff> [props...] : apply a seeded change to /repo, run the checks, undo it.
d=$1; shift
props=${@:-C01 C02 C03 C04 C05 C06 C07 C08 C09 C10 C11 C12 C13 C14 C15 C16 C17}
git -C /repo apply "$d" || { echo "patch does not apply"; exit 9; }
trap 'git -C /repo checkout -- . ' EXIT
for p in $props; do
  out=$(SA_EVIDENCE_DIR=/tmp/seed-ev SA_OUT_DIR=/tmp/seed-out /verif/check $p 2>&1); rc=$?
  if [ $rc -ne 0 ]; then echo "== $p rc=$rc"; echo "$out" | grep -E '^  |ANALYSIS' | cut -c1-260 | head -4; fi
done
echo "(done)"
