#!/venv/bin/python
"""kf.py add PROP RULE 'KEY' 'WHAT' 'WITNESS'   -- append one known finding (manual triage tool;
the checks never write this file)."""
import json, sys, os
P = os.path.join(os.path.dirname(os.path.dirname(os.path.abspath(__file__))), 'known_findings.json')
d = json.load(open(P))
if sys.argv[1] == 'add':
    prop, rule, key, what, witness = sys.argv[2:7]
    d['findings'] = [e for e in d['findings'] if (e['property'], e['rule'], e['key']) != (prop, rule, key)]
    d['findings'].append({'property': prop, 'rule': rule, 'key': key, 'what': what, 'witness': witness})
elif sys.argv[1] == 'fixed':
    d['fixed'].append(sys.argv[2])
d['findings'].sort(key=lambda e: (e['property'], e['rule'], e['key']))
json.dump(d, open(P, 'w'), indent=1)
