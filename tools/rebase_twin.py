#!/venv/bin/python
"""rebase_twin.py <name>: re-apply twins/<name>/patch.diff on /repo HEAD with `patch --fuzz=3` in a scratch worktree; store the
refreshed diff when it applies completely and the 175 tests pass."""
import sys, os, subprocess, shutil
name = sys.argv[1]
D = '/verif/twins/%s' % name
wt = '/tmp/rebase_wt/%s' % name
def sh(cmd, **kw):
    return subprocess.run(cmd, shell=True, capture_output=True, text=True, **kw)
shutil.rmtree(wt, ignore_errors=True); os.makedirs(os.path.dirname(wt), exist_ok=True)
sh('git -C /repo worktree prune')
r = sh('git -C /repo worktree add -q --detach %s HEAD' % wt); assert r.returncode == 0, r.stderr
try:
    r = sh('patch -p1 --fuzz=3 --no-backup-if-mismatch -r /tmp/rej.%s < %s/patch.diff' % (name, D), cwd=wt)
    if r.returncode != 0:
        print(name, 'does not apply:', ' | '.join(l for l in r.stdout.splitlines() if 'FAILED' in l)); sys.exit(1)
    tests = sh('PYTHONPATH=%s /venv/bin/python -m pytest -q -p no:cacheprovider 2>&1 | tail -1' % wt, cwd=wt).stdout.strip()
    print(name, tests)
    if '175 passed' in tests:
        open(D + '/patch.diff', 'w').write(sh('git diff -- supp supp-lint supp-find', cwd=wt).stdout); print('  stored')
finally:
    sh('git -C /repo worktree remove --force %s' % wt); sh('git -C /repo worktree prune')
