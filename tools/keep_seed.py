#!/venv/bin/python
"""keep_seed.py Cxx N slug "needs" "caught_by" : store a confirmed seeded change under /verif/seeded/<slug>/"""
import json, os, shutil, sys, subprocess
P, N, slug, needs, caught = sys.argv[1:6]
src = os.environ.get('SEEDROOT', '/tmp/seed2') + '/%s/_seed' % P
dst = '/verif/seeded/%s' % slug
os.makedirs(dst, exist_ok=True)
shutil.copy('%s/patch%s.diff' % (src, N), dst + '/patch.diff')
shutil.copy('%s/demo%s.py' % (src, N), dst + '/demo.py')
note = '%s/note%s.md' % (src, N)
if os.path.exists(note):
    shutil.copy(note, dst + '/note.md')
base = subprocess.run(['git', '-C', '/repo', 'log', '--format=%h', '-1'], capture_output=True, text=True).stdout.strip()
meta = {
    'property': P, 'origin': 'independent sub-agent given only the property text and a scratch worktree',
    'needs_to_manifest': needs,
    'confirmed': 'tools/confirm_seed.sh %s %s: demo exits 0 on the clean worktree, 1 with the patch; test suite 175 passed with the patch' % (P, N),
    'checks_run': 'tools/try_seed.sh seeded/%s/patch.diff (git -C /repo apply, all 17 quick checks, git checkout -- .)' % slug,
    'caught_by': caught, 'repo_head_when_confirmed': base,
}
json.dump(meta, open(dst + '/meta.json', 'w'), indent=1)
print('kept', dst)
