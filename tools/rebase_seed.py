#!/venv/bin/python
"""rebase_seed.py <slug> [note]: re-apply seeded/<slug>/patch.diff on /repo HEAD with `patch --fuzz=3` in a scratch worktree placed
where the demo expects it, re-confirm (demo 0 clean / 1 patched, 175 tests pass) and store the refreshed diff."""
import sys, os, re, subprocess, shutil, json
slug = sys.argv[1]
note = sys.argv[2] if len(sys.argv) > 2 else ''
D = '/verif/seeded/%s' % slug
def sh(cmd, **kw):
    return subprocess.run(cmd, shell=True, capture_output=True, text=True, **kw)
demo = open(D + '/demo.py').read()
m = re.search(r"^(?:WORKTREE|ROOT|REPO|WT)\s*=\s*['\"](/tmp/[^'\"]+)['\"]", demo, re.M)
wt = m.group(1) if m else '/tmp/rebase_wt/%s' % slug
shutil.rmtree(wt, ignore_errors=True)
os.makedirs(os.path.dirname(wt), exist_ok=True)
sh('git -C /repo worktree prune')
r = sh('git -C /repo worktree add -q --detach %s HEAD' % wt); assert r.returncode == 0, r.stderr
try:
    os.makedirs(wt + '/_seed', exist_ok=True)
    shutil.copy(D + '/demo.py', wt + '/_seed/demo.py')
    clean = sh('timeout 300 /venv/bin/python _seed/demo.py', cwd=wt).returncode
    r = sh('patch -p1 --fuzz=3 --no-backup-if-mismatch -r /tmp/rej.%s < %s/patch.diff' % (slug, D), cwd=wt)
    if r.returncode != 0:
        print(slug, 'patch does not apply even with fuzz:\n', r.stdout[-600:]); sys.exit(1)
    tests = sh('PYTHONPATH=%s /venv/bin/python -m pytest -q -p no:cacheprovider 2>&1 | tail -1' % wt, cwd=wt).stdout.strip()
    patched = sh('timeout 300 /venv/bin/python _seed/demo.py', cwd=wt).returncode
    diff = sh('git diff -- supp supp-lint supp-find', cwd=wt).stdout
    print(slug, 'clean=%d patched=%d' % (clean, patched), tests)
    if clean == 0 and patched == 1 and '175 passed' in tests:
        open(D + '/patch.diff', 'w').write(diff)
        d = json.load(open(D + '/meta.json')); head = sh('git -C /repo log --format=%h -1').stdout.strip()
        d['rebased'] = ((d.get('rebased') + '; ') if d.get('rebased') else '') + 'rebased on %s%s, demo re-confirmed 0/1, 175 tests pass' % (head, (' (%s)' % note) if note else '')
        d['repo_head_when_confirmed'] = head
        json.dump(d, open(D + '/meta.json', 'w'), indent=1)
        print('  stored')
finally:
    sh('git -C /repo worktree remove --force %s' % wt)
    sh('git -C /repo worktree prune')
