#!/bin/bash
# try_twin.sh <diff>: apply a behaviour-preserving refactoring to /repo, run all quick checks, undo.
git -C /repo apply "$1" || { echo "patch does not apply"; exit 9; }
trap 'git -C /repo checkout -- . ' EXIT
(cd /repo && /venv/bin/python -m pytest -q -p no:cacheprovider 2>&1 | tail -1)
for p in C01 C02 C03 C04 C05 C06 C07 C08 C09 C10 C11 C12 C13 C14 C15 C16 C17; do
  out=$(SA_EVIDENCE_DIR=/tmp/twin-ev SA_OUT_DIR=/tmp/twin-out /verif/check $p 2>&1); rc=$?
  if [ $rc -ne 0 ]; then echo "== $p rc=$rc"; echo "$out" | grep -E '^  |ANALYSIS' | cut -c1-300 | head -3; fi
done
echo "(done)"
