#!/bin/bash
# confirm_seed_par.sh <Cxx> <N>: like confirm_seed.sh, but the checks read the patched scratch worktree (SA_REPO) instead of
# a patched /repo, all 17 in parallel - so that several seeds can be confirmed at the same time.
P=$1; N=$2; W=${SEEDROOT:-/tmp/seed2}/$P; S=$W/_seed; O=$W/_seed/out; mkdir -p $O
[ -f $S/patch$N.diff ] || { echo "no patch"; exit 9; }
export PYTHONPATH=$W
git -C $W checkout -q -- supp supp-lint supp-find
echo "--- demo on clean tree:"; (cd $W && timeout 120 /venv/bin/python $S/demo$N.py >$O/demo.out 2>&1; echo "exit=$?"; tail -2 $O/demo.out | cut -c1-200)
git -C $W apply $S/patch$N.diff || { echo "patch does not apply to worktree"; exit 9; }
echo "--- test suite with patch:"; (cd $W && timeout 600 /venv/bin/python -m pytest -q -p no:cacheprovider 2>&1 | tail -1)
echo "--- demo with patch:"; (cd $W && timeout 120 /venv/bin/python $S/demo$N.py >$O/demo.out 2>&1; echo "exit=$?"; tail -2 $O/demo.out | cut -c1-200)
echo "--- patch:"; grep -E '^[+-]' $S/patch$N.diff | grep -vE '^(\+\+\+|---)' | cut -c1-160 | head -20
echo "--- checks on the patched worktree:"
unset PYTHONPATH
for p in C01 C02 C03 C04 C05 C06 C07 C08 C09 C10 C11 C12 C13 C14 C15 C16 C17; do
  ( out=$(SA_REPO=$W SA_EVIDENCE_DIR=$O/ev SA_OUT_DIR=$O/out /verif/check $p 2>&1); rc=$?
    if [ $rc -ne 0 ]; then echo "== $p rc=$rc"; echo "$out" | grep -E '^  |ANALYSIS' | cut -c1-260 | head -3; fi ) &
done; wait
git -C $W checkout -q -- supp supp-lint supp-find
echo "(done)"
