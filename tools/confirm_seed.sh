#!/bin/bash
# confirm_seed.sh <Cxx> <N>: confirm a sub-agent's seeded change in its scratch worktree, then try the checks on it.
P=$1; N=$2; W=${SEEDROOT:-/tmp/seed2}/$P; S=$W/_seed
[ -f $S/patch$N.diff ] || { echo "no patch"; exit 9; }
git -C $W checkout -q -- supp supp-lint supp-find
echo "--- demo on clean tree:"; (cd $W && timeout 120 /venv/bin/python $S/demo$N.py >/tmp/seed2/demo.out 2>&1; echo "exit=$?"; tail -2 /tmp/seed2/demo.out | cut -c1-200)
git -C $W apply $S/patch$N.diff || { echo "patch does not apply to worktree"; exit 9; }
echo "--- test suite with patch:"; (cd $W && PYTHONPATH=$W timeout 600 /venv/bin/python -m pytest -q -p no:cacheprovider 2>&1 | tail -1)
echo "--- demo with patch:"; (cd $W && timeout 120 /venv/bin/python $S/demo$N.py >/tmp/seed2/demo.out 2>&1; echo "exit=$?"; tail -2 /tmp/seed2/demo.out | cut -c1-200)
git -C $W checkout -q -- supp supp-lint supp-find
echo "--- patch:"; grep -E '^[+-]' $S/patch$N.diff | grep -vE '^(\+\+\+|---)' | cut -c1-160 | head -20
echo "--- checks on /repo with patch:"; /verif/tools/try_seed.sh $S/patch$N.diff ${@:3}
