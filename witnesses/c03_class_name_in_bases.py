"""C03/C02: `class A(A if c else object)` - the conditional expression in the base list creates regions that hang off the region
the class statement is in; the class name was registered in that same region, so those regions saw the class being defined: the
read of A resolved to the new class (a phantom definition), the earlier A was reported unused.  Same root as the three known
findings 'visit_ClassDef ... exit dropped' (walrus inside a comprehension in a base / decorator / keyword lost afterwards)."""
import sys
sys.path.insert(0, sys.argv[1] if len(sys.argv) > 1 else '/repo')
from supp.project import Project
from supp.linter import lint
from supp.assistant import location
P = Project(['/tmp/nonexist'])
src = "def f(c):\n    class A(object):\n        pass\n    class A(A if c else object):\n        pass\n    return A\n"
compile(src, 'w', 'exec')
r = [t[:4] for t in lint(P, src, '/tmp/x.py')]
loc = [e['loc'] for e in location(P, src, (4, 13), '/tmp/x.py')]
src2 = "def g(xs):\n    class B(*[y := x for x in xs]):\n        pass\n    return y, B\n"
compile(src2, 'w', 'exec')
r2 = [t[:4] for t in lint(P, src2, '/tmp/x.py')]
print(r, loc, r2)
sys.exit(0 if not r and loc == [(2, 10)] and not r2 else 1)
