"""C11: a form feed (ASCII 0x0c, common in the standard library as a page separator) is white space for the parser but a line
boundary for str.splitlines(): every text-searched position after it was one line too low."""
import sys
sys.path.insert(0, sys.argv[1] if len(sys.argv) > 1 else '/repo')
from supp.util import Source
from supp.nast import extract_scope
from supp.project import Project
from supp.assistant import assist
src = "x = 1\n\x0c\nimport os as operating\ndef func(): pass\n"
lines = src.split('\n')
scope = extract_scope(Source(src, '/tmp/x.py'), Project(['/tmp/nonexist']))
bad = 0
for _, n in scope.all_names:
    ln, col = n.declared_at
    text = lines[ln - 1][col:col + len(n.name)] if ln <= len(lines) else None
    print(n.name, n.declared_at, repr(text))
    bad += text != n.name
pre, props = assist(Project(['/tmp/nonexist']), src + "operat", (5, 6), '/tmp/x.py')
print('assist prefix', repr(pre), 'operating' in props)
bad += pre != 'operat'
sys.exit(1 if bad else 0)
