"""Witness (not a check): the table of a loop-head region depends on which
position is queried first (Flow.names / Flow.parent_names are memoised while a
LoopFlow back edge is unresolved)."""
import sys
sys.path.insert(0, sys.argv[1] if len(sys.argv) > 1 else '/repo')
from supp.util import Source, get_name_usages, np
from supp.nast import extract_scope
from supp.project import Project

SRC = "def f(xs):\n    y = None\n    for x in xs:\n        if x:\n            print(y)\n        y = x\n"

def alternatives(order):
    scope = extract_scope(Source(SRC, 't.py'), Project(['/nonexistent']))
    reads = {n.id + str(np(n)): n for n in get_name_usages(scope.source.tree)}
    out = {}
    for k in order:
        n = reads[k]
        e = n.flow.names_at(np(n)).get(n.id)
        out[k] = sorted(str(getattr(a, 'declared_at', a)) for a in getattr(e, 'alt_names', [e]))
    return out

a = alternatives(['y(5, 18)', 'x(4, 11)'])
b = alternatives(['x(4, 11)', 'y(5, 18)'])
print('y read first :', a['y(5, 18)'])
print('x read first :', b['y(5, 18)'])
print('ORDER-DEPENDENT' if a['y(5, 18)'] != b['y(5, 18)'] else 'same')
