"""Witness (not a check): instances of the loop-memo defect C04-R1 per loop shape.  In a `for` and in a `while` loop whose body
holds a compound statement, the answer for a read inside the loop depends on which read was resolved before it; with simple body
statements it does not.  Prints one line per shape; exit 1 when a shape with simple statements is order dependent (not the case on
the reference tree)."""
import sys, itertools
sys.path.insert(0, sys.argv[1] if len(sys.argv) > 1 else '/repo')
from supp.util import Source, get_name_usages, np
from supp.nast import extract_scope
from supp.project import Project

SHAPES = {
    'for, compound': "def f(xs, c):\n    y = None\n    for x in xs:\n        if c:\n            print(y)\n        print(y)\n        y = x\n",
    'while, compound': "def f(xs, c):\n    y = None\n    while xs:\n        if c:\n            print(y)\n        print(y)\n        y = xs.pop()\n",
    'for, simple': "def f(xs, c):\n    y = None\n    for x in xs:\n        print(y)\n        print(c, y)\n        y = x\n",
    'while, simple': "def f(xs, c):\n    y = None\n    while xs:\n        print(y)\n        print(c, y)\n        y = xs.pop()\n",
}


def answers(src, order):
    scope = extract_scope(Source(src, 't.py'), Project(['/nonexistent']))
    reads = sorted(get_name_usages(scope.source.tree), key=np)
    out = {}
    for i in order:
        n = reads[i]
        e = n.flow.names_at(np(n)).get(n.id)
        out[i] = tuple(sorted(str(getattr(a, 'declared_at', a)) for a in getattr(e, 'alt_names', [e])))
    return out

bad_simple = 0
for label, src in SHAPES.items():
    compile(src, 'w', 'exec')
    n = len(list(get_name_usages(extract_scope(Source(src, 't.py'), Project(['/nonexistent'])).source.tree)))
    seen = {}
    dep = set()
    for order in itertools.permutations(range(n), 2):
        a = answers(src, order)
        alone = answers(src, [order[1]])
        if a[order[1]] != alone[order[1]]:
            dep.add(order[1])
    print('%-16s %s' % (label, 'ORDER-DEPENDENT at reads %s' % sorted(dep) if dep else 'same answer in every order'))
    if dep and 'simple' in label:
        bad_simple += 1
sys.exit(1 if bad_simple else 0)
