import sys
sys.path.insert(0, sys.argv[1])
from supp.project import Project
from supp.linter import lint
P = Project(['/tmp/nonexist'])
cases = {
 'assign_ifexp': "def f(c):\n    x = 0\n    x = x + 1 if c else x\n    return x\n",
 'annassign_ifexp': "def f(c):\n    x = 0\n    x: int = x + 1 if c else x\n    return x\n",
 'walrus_ifexp': "def f(c):\n    x = 0\n    y = (x := x + 1 if c else x)\n    return x, y\n",
 'with_ifexp': "def f(c, g):\n    x = 0\n    with g(x if c else x) as x:\n        pass\n    return x\n",
 'assign_listcomp': "def f(c):\n    x = [c]\n    x = [i for i in x]\n    return x\n",
 'assign_lambda_default': "def f(c):\n    x = 1\n    x = [x for _ in c]\n    return x\n",
}
bad = 0
for k, src in cases.items():
    compile(src, k, 'exec')
    r = [t[:4] for t in lint(P, src, '/tmp/x.py')]
    print(k, r)
    bad += bool(r)
sys.exit(1 if bad else 0)
