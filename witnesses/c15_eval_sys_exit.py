"""C15: an eval request whose code calls sys.exit() ended the server (Server.process caught Exception only): the caller got EOFError
instead of an error reply, every later request failed.  Real server subprocess."""
import sys
sys.path.insert(0, sys.argv[1] if len(sys.argv) > 1 else '/repo')
from supp.remote import Environment
env = Environment()
bad = 0
try:
    env.eval('import sys\nsys.exit(3)')
    print('no exception reported')
    bad += 1
except EOFError as e:
    print('the server went away:', repr(e))
    bad += 1
except Exception as e:
    print('reported to the caller:', e)
try:
    print('next request ->', env.eval('return 40 + 2'))
except Exception as e:
    print('next request failed:', repr(e))
    bad += 1
try:
    env.close()
except Exception:
    pass
sys.exit(1 if bad else 0)
