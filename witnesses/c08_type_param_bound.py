"""Witness for the repaired defect C08-R3 [visit_FunctionDef passes type_params on] (fix a878a00).
Run from a checkout of supp:  python c08_type_param_bound.py
Before the repair assist/location raised AttributeError('Name' object has no attribute 'flow')."""
import sys
sys.path.insert(0, '.')
from supp.assistant import assist, location
from supp.linter import lint
from supp.project import Project

p = Project(['/nonexistent'])
bad = 0
for src, pos in [('def f[T: int](x): pass\n', (1, 11)), ('class K[T: int]: pass\n', (1, 12)),
                 ('async def g[T: (int, str)](x): pass\n', (1, 20))]:
    try:
        assist(p, src, pos)
        location(p, src, pos)
    except SyntaxError:
        pass
    except Exception as e:
        bad += 1
        print('RAISES', repr(src), type(e).__name__, e)
    if any(d[0] == 'E42' for d in lint(p, src)):
        bad += 1
        print('E42', repr(src))
sys.exit(1 if bad else 0)
