"""Witness inputs (not a check): run against a checkout of supp given as argv[1]
(default /repo) and print what lint/assist/location do.  Used once to confirm
that each reported construct is a genuine defect, and again after each fix."""
import sys, traceback
root = sys.argv[1] if len(sys.argv) > 1 else '/repo'
sys.path.insert(0, root)
from supp.linter import lint
from supp.project import Project
from supp.assistant import assist, location

P = Project(['/nonexistent'])
CASES = {
 'kw_defaults': "a = 1\ndef f(*, k=a):\n    return k\nf()\n",
 'class_keywords': "m = type\nclass A(metaclass=m):\n    pass\nA()\n",
 'posonly': "def f(a, /, b):\n    return a + b\nf(1, 2)\n",
 'posonly_annotation': "T = int\ndef f(a: T, /):\n    return a\nf(1)\n",
 'nonlocal': "def f():\n    x = 1\n    def g():\n        nonlocal x\n        print(x)\n        x = 2\n    g()\n    return x\nf()\n",
 'while_test': "x = 0\nwhile x < 2 and (x == 0 or y):\n    y = 1\n    x += 1\n",
 'except_type': "def g(): raise KeyError\ntry:\n    E = KeyError\n    g()\nexcept E:\n    pass\n",
 'with_items': "import io\nwith io.StringIO() as b, b as c:\n    print(c)\n",
 'finally_regions': "def f(c):\n    z = 0\n    try:\n        pass\n    finally:\n        if c:\n            z = 1\n        else:\n            z = 2\n    return z\n",
 'loop_memo': "def f(xs):\n    y = None\n    for x in xs:\n        if x:\n            print(y)\n        y = x\n",
 'for_attr_target': "class A: pass\na = A()\nfor a.x in [1]:\n    pass\n",
 'comp_attr_target': "class A: pass\na = A()\n[0 for a.x in [1]]\n",
 'with_attr_target': "import io\nclass A: pass\na = A()\nwith io.StringIO() as a.x:\n    pass\n",
 'for_subscript_target': "a = [0]\ni = 0\nfor a[i] in [1]:\n    pass\n",
 'return_module': "return 1\n",
 'locals_two_branches': "import sys\nif sys.argv:\n    locals = 1\nelse:\n    locals = 2\nprint(locals)\n",
 'star_import_outside_pkg': "from .x import *\n",
 'ifexp_walrus': "def f(g):\n    return (x if (x := g()) else 0)\n",
 'class_deco_walrus_comp': "def d(v): return lambda c: c\n@d([(w := i) for i in [1]])\nclass A: pass\nprint(w)\n",
 'nested_comp_walrus': "y = [[1]]\n[[(w := j) for j in i] for i in y]\nprint(w)\n",
 'for_target_comp_walrus': "a = [0]\nfor a[[(w := i) for i in [0]][0]] in [1]:\n    pass\nprint(w)\n",
 'class_base_comp_walrus': "class A([(w := object) for _ in [1]][0]): pass\nprint(w)\n",
 'class_kw_comp_walrus': "class A(metaclass=[(w := type) for _ in [1]][0]): pass\nprint(w)\n",
 'comp_ifs_comp_walrus': "[1 for i in [1] if [(w := j) for j in [1]]]\nprint(w)\n",
 'comp_iter_comp_walrus': "[1 for i in [(w := j) for j in [1]]]\nprint(w)\n",
 'comp_target_comp_walrus': "a = [0]\n[1 for a[[(w := j) for j in [0]][0]] in [1]]\nprint(w)\n",
 'dictcomp_key_comp_walrus': "{[(w := j) for j in [1]][0]: 1 for i in [1]}\nprint(w)\n",
 'dictcomp_value_comp_walrus': "{1: [(w := j) for j in [1]] for i in [1]}\nprint(w)\n",
 'while_test_test': "x = 0\nwhile (x and z and False) or ((z := 1) and x < 2):\n    x += 1\n",
 'except_type_comp_walrus': "try:\n    pass\nexcept tuple([(w := KeyError) for _ in [1]]):\n    pass\nprint(w)\n",
}
for k, src in CASES.items():
    try:
        r = [x[:4] for x in lint(P, src, '/nonexistent/t.py')]
    except BaseException as e:
        r = 'RAISED %s: %s' % (type(e).__name__, e)
    print('%-26s %s' % (k, r))
# function-level variants (C02: the missed definition is also reported as unused, W01)
FN_CASES = {
 'while_body_test_fn': "def f(x):\n    while x < 2 and (x == 0 or y):\n        y = 1\n        x += 1\n",
 'while_test_test_fn': "def f(x):\n    while (x and z and False) or ((z := 1) and x < 2):\n        x += 1\n",
 'except_type_fn': "def f(g):\n    try:\n        E = KeyError\n        g()\n    except E:\n        pass\n",
}
for k, src in FN_CASES.items():
    print('%-26s %s' % (k, [x[:4] for x in lint(P, src, '/nonexistent/t.py')]))
print('%-26s %s' % ('except_type_walrus_next_handler', [x[:4] for x in lint(P, "def f(g):\n    try:\n        g()\n    except (E := KeyError):\n        pass\n    except ValueError:\n        print(E)\n", '/nonexistent/t.py')]))
print('%-26s %s' % ('except_type_walrus_next_type', [x[:4] for x in lint(P, "def f(g):\n    try:\n        g()\n    except (E := KeyError):\n        pass\n    except (E, ValueError):\n        pass\n", '/nonexistent/t.py')]))
