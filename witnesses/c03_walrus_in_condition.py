"""C03: `if a and (x := f(a)) and x > 1: return x` - in the body x is always bound (the chain held, so every operand was evaluated).
With short-circuit regions but without a separate "taken" branch the body saw x as possibly undefined."""
import sys
sys.path.insert(0, sys.argv[1] if len(sys.argv) > 1 else '/repo')
from supp.nast import extract_scope
from supp.project import Project
from supp.name import MultiName, UndefinedName
from supp.util import Source, get_name_usages, np
SRC = 'def pick(a, f):\n    if a and (x := f(a)) and x > 1:\n        return x\n    return None\n'
src = Source(SRC, 'x.py'); extract_scope(src, Project(['/nonexistent']))
bad = 0
for node in get_name_usages(src.tree):
    if node.id != 'x':
        continue
    n = node.flow.names_at(np(node))[node.id]
    alts = n.alt_names if isinstance(n, MultiName) else [n]
    und = any(type(a) is UndefinedName for a in alts)
    print(np(node), 'possibly undefined' if und else 'bound')
    bad += und
sys.exit(1 if bad else 0)
