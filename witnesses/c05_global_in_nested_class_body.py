"""C05: a class nested in a function declares `global x` in its body while the enclosing function has a local x: a read of x in
the class body is a LOAD_GLOBAL and must resolve to the module-level binding; the class's methods are not affected by the
declaration (for them x is a free variable of the enclosing function)."""
import sys
sys.path.insert(0, sys.argv[1] if len(sys.argv) > 1 else '/repo')
from supp.project import Project
from supp.assistant import location
src = ("x = 'module'\ndef outer():\n    x = 'local'\n    class C:\n        global x\n        y = x\n        def m(self):\n"
       "            return x\n    return C\n")
compile(src, 'w', 'exec')
P = Project(['/tmp/nonexist'])
body = [e['loc'] for e in location(P, src, (6, 13), '/tmp/x.py')]
meth = [e['loc'] for e in location(P, src, (8, 20), '/tmp/x.py')]
print(body, meth)
sys.exit(0 if body == [(1, 0)] and meth == [(3, 4)] else 1)
