"""Witness (not a check): go-to-definition of a four-way definition in six fresh
processes (different hash seeds / allocation)."""
import subprocess, sys
root = sys.argv[1] if len(sys.argv) > 1 else '/repo'
prog = r'''
import sys
sys.path.insert(0, %r)
pad = [object() for _ in range(int(sys.argv[1]))]
from supp.assistant import location
from supp.project import Project
src = "def f(c):\n    if c == 1:\n        x = 1\n    elif c == 2:\n        x = 2\n    elif c == 3:\n        x = 3\n    else:\n        x = 4\n    return x\n"
r = location(Project(['/nonexistent']), src, (10, 12), '/nonexistent/t.py')
print([d['loc'] for d in r[0]])
''' % root
outs = set()
for i in range(6):
    o = subprocess.run([sys.executable, '-c', prog, str(i * 1000)], capture_output=True, text=True,
                       env={'PYTHONHASHSEED': str(i)}, timeout=60).stdout.strip()
    outs.add(o)
    print(o)
print('%d distinct orders' % len(outs))
