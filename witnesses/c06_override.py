"""Witness (not a check): go-to-definition of an overridden method through an instance."""
import sys
sys.path.insert(0, sys.argv[1] if len(sys.argv) > 1 else '/repo')
from supp.assistant import location
from supp.project import Project
src = "class A:\n    def m(self):\n        pass\nclass B(A):\n    def m(self):\n        pass\nB().m\n"
print('B().m ->', location(Project(['/nonexistent']), src, (7, 5), '/nonexistent/t.py'), '(B.m is at line 5, A.m at line 2)')
src2 = "class A:\n    m = 0\nclass C:\n    def __init__(self):\n        self.m = 1\nclass D(A, C):\n    pass\nD().m\n"
print('D().m ->', location(Project(['/nonexistent']), src2, (8, 5), '/nonexistent/t.py'), '(instance assignment at line 5, class attribute at line 2)')
