"""C01: names that become visible "at the start of the block" (parameters, for targets, except names) were made visible at the
position the parser gives the first statement - for a decorated def / async def / class that is the keyword, after the
decorators: a read of the name in the decorator got E02 (and the binding W01).  get_first_body_node_loc knew about def and class,
not async def; for targets and except names used np(body[0])."""
import sys
sys.path.insert(0, sys.argv[1] if len(sys.argv) > 1 else '/repo')
from supp.project import Project
from supp.linter import lint
P = Project(['/tmp/nonexist'])
srcs = [
    "def outer(deco):\n    @deco\n    async def inner():\n        pass\n    return inner\n",
    "def outer(f):\n    try:\n        pass\n    except Exception as e:\n        @f(e)\n        def g(): pass\n        return g\n",
    "def outer(fs, reg):\n    for f in fs:\n        @reg(f)\n        class K(object): pass\n        print(K)\n",
]
bad = 0
for src in srcs:
    compile(src, 'w', 'exec')
    r = [t[:4] for t in lint(P, src, '/tmp/x.py')]
    print(r)
    bad += bool(r)
sys.exit(1 if bad else 0)
