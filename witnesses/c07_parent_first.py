"""C07: importlib binds the parent package first (the first root that has it) and looks for a submodule only in that package.
supp joined every root with the whole dotted path: with r1/a (package without y) and r2/a/y.py it analysed r2/a/y.py although
`import a.y` fails; with r1/m.py and r2/m/child.py it analysed r2/m/child.py although m is a module."""
import os, shutil, sys, tempfile
sys.path.insert(0, sys.argv[1] if len(sys.argv) > 1 else '/repo')
from importlib.machinery import PathFinder
from supp.project import Project
def ref(name, path):
    spec = None
    for part in name.split('.'):
        if path is None:
            return None
        spec = PathFinder.find_spec(part if spec is None else spec.name + '.' + part, path)
        if spec is None:
            return None
        path = spec.submodule_search_locations
    return spec.origin
def mk(base, rel):
    p = os.path.join(base, rel); os.makedirs(os.path.dirname(p), exist_ok=True); open(p, 'w').close()
d = tempfile.mkdtemp(); bad = 0
try:
    r1, r2 = os.path.join(d, 'r1'), os.path.join(d, 'r2')
    mk(r1, 'a/__init__.py'); mk(r1, 'a/x.py'); mk(r2, 'a/__init__.py'); mk(r2, 'a/y.py')
    mk(r1, 'm.py'); mk(r2, 'm/__init__.py'); mk(r2, 'm/child.py')
    p = Project([r1, r2])
    for name in ['a.x', 'a.y', 'm.child', 'm']:
        try:
            got = getattr(p.get_module(name), 'filename', '<live module>')
        except ImportError as e:
            got = None
        want = ref(name, [r1, r2] + sys.path)
        print(name, '| supp:', str(got).replace(d, ''), '| importlib:', str(want).replace(d, ''))
        bad += got != want
finally:
    shutil.rmtree(d)
sys.exit(1 if bad else 0)
