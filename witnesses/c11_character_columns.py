# -*- coding: utf-8 -*-
"""C11 / C12: the parser counts columns in UTF-8 bytes, the API (cursor position, reported positions) and the text search count
characters.  With non-ASCII text earlier on the line a binding became visible at the wrong column (completion missed it), go-to-
definition and lint reported a column that does not hold the identifier."""
import sys
sys.path.insert(0, sys.argv[1] if len(sys.argv) > 1 else '/repo')
from supp.project import Project
from supp.assistant import assist, location
from supp.linter import lint
P = Project(['/tmp/nonexist'])
src = u"def f():\n    x = 'äöüäöü'; yy = 1; y"
line = src.splitlines()[1]
props = assist(P, src, (2, len(line)), '/tmp/x.py')[1]
src2 = u"def f():\n    x = 'äöüäöü'; yy = 1; return yy\n"
loc = [e['loc'] for e in location(P, src2, (2, len(src2.splitlines()[1]) - 1), '/tmp/x.py')]
src3 = u"def f():\n    s = 'äöüäöüäöü'; unused_name = 1\n"
w = [(t[2], t[3]) for t in lint(P, src3, '/tmp/x.py') if 'unused_name' in t[1]]
want = (2, src3.splitlines()[1].index('unused_name'))
print('yy' in props, loc, w, want)
sys.exit(0 if 'yy' in props and loc == [(2, src2.splitlines()[1].index('yy'))] and w == [want] else 1)
