"""Witness (not a check): Environment.close() on a connected client.
Pinned tree: TypeError (dumps takes 1 positional argument) -> server never told to stop."""
import sys, time
sys.path.insert(0, '/repo')
from supp.remote import Environment
e = Environment()
e.configure({'sources': ['.']})
p = e.proc
try:
    e.close()
    print('close ok')
except TypeError as ex:
    print('close raised TypeError:', ex)
time.sleep(1.5)
print('server exit status:', p.poll())
if p.poll() is None:
    p.kill()
