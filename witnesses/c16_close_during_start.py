"""C16: (1) close() while the background start (prepare()) was still in flight returned without doing anything - the server came up
afterwards and was never told to stop; (2) close() after the server had died raised BrokenPipeError and kept the dead connection,
so the client could not be used again.  Real server subprocesses."""
import sys, time, os, signal
sys.path.insert(0, sys.argv[1] if len(sys.argv) > 1 else '/repo')
from supp.remote import Environment

bad = 0
env = Environment()
env.prepare()
env.close()                       # overlaps the start
t = env.prepare_thread
if t:
    t.join()
time.sleep(0.5)
proc = getattr(env, 'proc', None)
alive = proc is not None and proc.poll() is None
if alive:
    # give the server the time a close request needs
    for _ in range(20):
        if proc.poll() is not None:
            break
        time.sleep(0.1)
    alive = proc.poll() is None
print('after prepare(); close(): server process', 'still running' if alive else 'gone', '- conn kept:', hasattr(env, 'conn'))
if alive or hasattr(env, 'conn'):
    bad += 1
    try:
        proc.kill()
    except Exception:
        pass

env2 = Environment()
print('eval ->', env2.eval('1 + 1'))
env2.proc.kill()
env2.proc.wait()
try:
    env2.close()
    print('close() after the server died: returned; conn kept:', hasattr(env2, 'conn'))
    if hasattr(env2, 'conn'):
        bad += 1
except Exception as e:
    print('close() after the server died raised', repr(e))
    bad += 1
try:
    print('next call ->', env2.eval('2 + 2'))
    env2.close()
except Exception as e:
    print('the client cannot be used again:', repr(e))
    bad += 1
sys.exit(1 if bad else 0)
