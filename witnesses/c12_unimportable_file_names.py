"""C12: proposals are identifiers. list_packages turned every file name with a module suffix into a proposal: the standard
library's `_sysconfigdata__linux_x86_64-linux-gnu.py`, or a project's `notes.txt.py` / `my-script.py`, were offered after
`import ` although no import statement can spell them."""
import os, sys, tempfile, shutil
sys.path.insert(0, sys.argv[1] if len(sys.argv) > 1 else '/repo')
d = tempfile.mkdtemp()
try:
    for n in ('notes.txt.py', 'my-script.py', '3rd.py', 'fine_mod.py'):
        open(os.path.join(d, n), 'w').write('x = 1\n')
    from supp.project import Project
    from supp.assistant import assist
    p = Project([d])
    pre, props = assist(p, 'import ', (1, 7), os.path.join(d, 'main.py'))
    bad = [x for x in props if not x.isidentifier()]
    print(pre, len(props), bad)
    sys.exit(1 if bad or 'fine_mod' not in props else 0)
finally:
    shutil.rmtree(d)
