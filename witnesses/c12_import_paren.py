"""C12: `from os.path import(jo|` - `import` directly followed by a parenthesis is valid Python; the prefix must be `jo`.
Before the repair the textual from-branch of assist() (which looks for ' import ' with a blank on both sides) took the line for a
half-typed module name and returned the prefix 'import(jo'."""
import sys
sys.path.insert(0, sys.argv[1] if len(sys.argv) > 1 else '/repo')
from supp.project import Project
from supp.assistant import assist
bad = 0
for line in ('from os.path import(jo', 'from os.path import (jo', 'from os.path import\tjo'):
    src = line + ')\n' if '(' in line else line + '\n'
    prefix, props = assist(Project(['/tmp/nonexist']), src, (1, len(line)), '/tmp/x.py')
    print(repr(line), '->', repr(prefix), props[:3])
    bad += prefix != 'jo'
sys.exit(1 if bad else 0)
