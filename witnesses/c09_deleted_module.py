"""C08 / C09: a project module deleted after it was cached.  Every later request made under check_changes (as the server does)
raised FileNotFoundError from SourceModule.changed instead of answering like a new project (ImportError inside, handled by the API)."""
import os, sys, tempfile
sys.path.insert(0, sys.argv[1] if len(sys.argv) > 1 else '/repo')
from supp.assistant import assist
from supp.project import Project
d = tempfile.mkdtemp()
open(os.path.join(d, 'gone.py'), 'w').write('value = 1\n')
p = Project([d])
src = 'import gone\ngone.'
with p.check_changes():
    print('before:', assist(p, src, (2, 5), os.path.join(d, 'e.py')))
os.remove(os.path.join(d, 'gone.py'))
try:
    with p.check_changes():
        print('after :', assist(p, src, (2, 5), os.path.join(d, 'e.py')))
except Exception as e:
    print('after : raises', type(e).__name__, e); sys.exit(1)
