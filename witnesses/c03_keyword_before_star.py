"""C03: `x = f(k=1, *x)` - the keyword value is the last node *visited* in the call, the starred argument is the textually last
one: the binding of x becomes visible before the read of x in its own right-hand side (a phantom definition; the earlier x looks
unused)."""
import sys
sys.path.insert(0, sys.argv[1] if len(sys.argv) > 1 else '/repo')
from supp.project import Project
from supp.linter import lint
src = "def g(f):\n    x = [1]\n    x = f(k=1, *x)\n    return x\n"
compile(src, 'w', 'exec')
r = [t[:4] for t in lint(Project(['/tmp/nonexist']), src, '/tmp/x.py')]
print(r)
src2 = "def g(f):\n    x = [1]\n    x = f(*x, k=1)\n    return x\n"
r2 = [t[:4] for t in lint(Project(['/tmp/nonexist']), src2, '/tmp/x.py')]
print(r2)
sys.exit(1 if r or r2 else 0)
