"""Witness (not a check): cyclic inputs that must terminate."""
import os, sys, tempfile, shutil
sys.path.insert(0, sys.argv[1] if len(sys.argv) > 1 else '/repo')
sys.setrecursionlimit(400)
from supp.assistant import assist, location
from supp.linter import lint
from supp.project import Project
d = tempfile.mkdtemp()
def w(n, t): open(os.path.join(d, n), 'w').write(t)
def run(label, fn, *a):
    try:
        r = fn(*a)
        print('%-34s ok %s' % (label, str(r)[:60]))
    except BaseException as e:
        print('%-34s RAISED %s' % (label, type(e).__name__))
try:
    w('sa.py', 'from sb import *\n'); w('sb.py', 'from sa import *\n')
    run('mutual star imports (lint)', lint, Project([d]), 'import sa\n', os.path.join(d, 'm.py'))
    run('mutual star imports (lint *)', lint, Project([d]), 'from sa import *\n', os.path.join(d, 'm.py'))
    run('inheritance cycle in loop', assist, Project([d]), 'B = object\nfor i in [1, 2]:\n    class A(B): pass\n    class B(A): pass\nA().x', (5, 5), os.path.join(d, 'm.py'))
    run('inheritance cycle (assist)', assist, Project([d]), 'class A(B): pass\nclass B(A): pass\nA().x', (3, 5), os.path.join(d, 'm.py'))
    w('ia.py', 'from ib import x\n'); w('ib.py', 'from ia import x\n')
    run('import cycle (location)', location, Project([d]), 'from ia import x\nx\n', (2, 1), os.path.join(d, 'm.py'))
    run('import cycle (assist)', assist, Project([d]), 'from ia import x\nx.', (2, 2), os.path.join(d, 'm.py'))
    run('location on len', location, Project([d]), 'len\n', (1, 2), os.path.join(d, 'm.py'))
    run('location on sys', location, Project([d]), 'import sys\nsys\n', (2, 2), os.path.join(d, 'm.py'))
    run('assist half-typed from', assist, Project([d]), 'from nonexist import a', (1, 22), os.path.join(d, 'm.py'))
    run('location unknown module', location, Project([d]), 'import nonexist\n', (1, 10), os.path.join(d, 'm.py'))
    run('assist from . outside package', assist, Project([d]), 'from .', (1, 6), '/nonexistent/m.py')
    run('two-branch base class (assist)', assist, Project([d]), 'class P: pass\nclass Q: pass\nif 1:\n    B = P\nelse:\n    B = Q\nclass C(B): pass\nC().x', (8, 5), os.path.join(d, 'm.py'))
    run('super() (assist)', assist, Project([d]), 'class A:\n    def f(self):\n        s = super()\n        s.x\n', (4, 10), os.path.join(d, 'm.py'))
finally:
    shutil.rmtree(d)
# (the "mutual star imports (lint *)" case above is the recorded known finding C08-R4)

# ---- second batch (reported by an independent agent on the unmodified tree)
d = tempfile.mkdtemp()
try:
    w('xa.py', 'from xb import B\nclass A(B):\n    pass\n'); w('xb.py', 'from xa import A\nclass B(A):\n    pass\n')
    run('cross-module inheritance cycle', assist, Project([d]), 'from xa import A\nA().x', (2, 5), os.path.join(d, 'm.py'))
    run('self.a = self.b; self.b = self.a', assist, Project([d]),
        'class C:\n    def f(self):\n        self.a = self.b\n        self.b = self.a\n        self.a.x', (5, 15), os.path.join(d, 'm.py'))
    run('starred tuple target', lint, Project([d]), 'x = [(1, 2), 3]\n*(a, b), c = x\nprint(a, b, c)\n', os.path.join(d, 'm.py'))
finally:
    shutil.rmtree(d)
