"""C14 (recorded, not repaired): spec-valid maps that a Python dict cannot represent are refused - keys that are equal as Python
values although distinct MessagePack values (1 / 1.0 / true) raise DuplicateKeyException, a map used as a key raises
UnhashableKeyException.  An ext used as a key was refused too (Ext defined __eq__ without __hash__): repaired."""
import struct, sys
sys.path.insert(0, sys.argv[1] if len(sys.argv) > 1 else '/repo')
from supp import umsgpack as u
cases = {
    'keys 1 and 1.0': b'\x82\x01\xc0\xcb' + struct.pack('>d', 1.0) + b'\xc0',
    'keys 1 and true': b'\x82\x01\xc0\xc3\xc0',
    'a map as key': b'\x81\x80\xc0',
    'an ext as key': b'\x81\xd4\x05\x00\xc0',
}
refused = []
for label, data in cases.items():
    try:
        print(label, '->', u.loads(data))
    except Exception as e:
        print(label, '-> refused with', type(e).__name__)
        refused.append(label)
sys.exit(0 if refused == ['keys 1 and 1.0', 'keys 1 and true', 'a map as key'] else 1)
