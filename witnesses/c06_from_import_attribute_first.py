"""C06: `from pkg import config` where pkg/__init__.py does `from .config import config` (an instance) and pkg/config.py exists.
CPython: the name is the instance (the attribute of the package); supp resolved the submodule first and proposed the module's names."""
import os, shutil, sys, tempfile
sys.path.insert(0, sys.argv[1] if len(sys.argv) > 1 else '/repo')
from supp.assistant import assist
from supp.project import Project
d = tempfile.mkdtemp()
try:
    os.makedirs(os.path.join(d, 'pkg'))
    open(os.path.join(d, 'pkg', '__init__.py'), 'w').write('from .config import config\n')
    open(os.path.join(d, 'pkg', 'config.py'), 'w').write('class Config(object):\n    def __init__(self):\n        self.debug = False\n    def load(self): pass\n\nconfig = Config()\n')
    src = 'from pkg import config\nconfig.'
    got = assist(Project([d]), src, (2, 7), os.path.join(d, 'main.py'))[1]
    print(got)
    ok = 'load' in got and 'debug' in got and 'Config' not in got
finally:
    shutil.rmtree(d)
sys.exit(0 if ok else 1)
