"""C01/C05: `nonlocal n` followed by a rebinding: the rebinding belongs to the enclosing function. Before the repair it created a
local of the inner function: reads before it got E02, the owner's binding W01, go-to-definition stayed inside the inner function."""
import sys
sys.path.insert(0, sys.argv[1] if len(sys.argv) > 1 else '/repo')
from supp.project import Project
from supp.linter import lint
from supp.assistant import location
src = ("def counter():\n    n = 0\n    def inc():\n        nonlocal n\n        print(n)\n        n = n + 1\n        return n\n"
       "    return inc\n")
compile(src, 'w', 'exec')
P = Project(['/tmp/nonexist'])
r = [t[:4] for t in lint(P, src, '/tmp/x.py')]
loc = location(P, src, (5, 15), '/tmp/x.py')
print(r, loc)
sys.exit(0 if not r and [e['loc'] for e in loc] == [(2, 4)] else 1)
