"""C08 / C05: a `global` statement at module level is legal and has no effect. Since 644b4ef / 179d596 (names declared global are
re-routed to the module's table) the module scope re-routed to *itself*: lint, assist and location raised RecursionError."""
import sys
sys.path.insert(0, sys.argv[1] if len(sys.argv) > 1 else '/repo')
from supp.linter import lint
from supp.assistant import assist
from supp.project import Project
src = 'global x\nx = 1\nprint(x)\n'
try:
    print(lint(Project(['/nonexistent']), src))
    print(assist(Project(['/nonexistent']), src + 'x', (4, 1)))
except RecursionError as e:
    print('RecursionError'); sys.exit(1)
