"""C12: a line that starts with `from ` was completed as an import line from its text alone - also the continuation line of
`raise ... from err` and of a parenthesised `yield from gen`: packages were proposed instead of the visible names."""
import sys
sys.path.insert(0, sys.argv[1] if len(sys.argv) > 1 else '/repo')
from supp.project import Project
from supp.assistant import assist
P = Project(['/tmp/nonexist'])
src = "def f(error_value):\n    raise ValueError(1) \\\n        from error_v\n"
r = assist(P, src, (3, 20), '/tmp/x.py')
src2 = "def g(generator_a):\n    x = (yield\n        from generator_\n    )\n"
r2 = assist(P, src2, (3, 23), '/tmp/x.py')
r3 = assist(P, "from os.pa", (1, 10), '/tmp/x.py')
print(r[0], 'error_value' in r[1], r2[0], 'generator_a' in r2[1], r3)
sys.exit(0 if 'error_value' in r[1] and 'generator_a' in r2[1] and r3 == ('pa', sorted(r3[1])) and 'path' in r3[1] else 1)
