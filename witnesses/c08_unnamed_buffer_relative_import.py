"""C08: a relative import in an unnamed buffer (filename=None).
(a) assist / location hand the raw None to Project.norm_package -> os.path.dirname(None) -> TypeError escapes the API;
(b) with a file name relative to a current directory that is a package, norm_package climbs with dirname('') == '' for ever
    (run in a child process with a time-out)."""
import os, subprocess, sys, tempfile
root = sys.argv[1] if len(sys.argv) > 1 else '/repo'
sys.path.insert(0, root)
from supp.assistant import assist, location
from supp.project import Project
bad = 0
for label, fn in (('assist', lambda: assist(Project(), 'from .', (1, 6))),
                  ('location', lambda: location(Project(), 'from . import x', (1, 15)))):
    try:
        print(label, '->', fn())
    except Exception as e:
        print(label, 'raises', type(e).__name__, e); bad += 1
d = tempfile.mkdtemp()
open(os.path.join(d, '__init__.py'), 'w').close()
code = ("import sys; sys.path.insert(0, %r)\nfrom supp.project import Project\n"
        "try:\n    print(Project().norm_package('.x', 'buffer.py'))\nexcept ImportError as e:\n    print('ImportError', e)\n" % root)
try:
    out = subprocess.run([sys.executable, '-c', code], cwd=d, capture_output=True, text=True, timeout=10)
    print('norm_package in a package directory ->', out.stdout.strip() or out.stderr.strip()[-200:])
except subprocess.TimeoutExpired:
    print('norm_package(".x", "buffer.py") with the current directory a package: no answer within 10 s'); bad += 1
sys.exit(1 if bad else 0)
