"""Witness (not a check): alternatives supp associates with a read, for the
walrus-in-expression cases reported by C03-R1.  Prints the declared_at of each
alternative ('UNDEF' for the undefined marker)."""
import sys
sys.path.insert(0, sys.argv[1] if len(sys.argv) > 1 else '/repo')
from supp.util import Source, get_name_usages, np
from supp.nast import extract_scope
from supp.project import Project

def alts(src, name, line):
    scope = extract_scope(Source(src, 't.py'), Project(['/nonexistent']))
    for n in get_name_usages(scope.source.tree):
        if n.id == name and n.lineno == line:
            e = n.flow.names_at(np(n)).get(n.id)
            return sorted(('UNDEF' if type(a).__name__ == 'UndefinedName' else str(a.declared_at))
                          for a in getattr(e, 'alt_names', [e]))

CASES = [
 ('boolop_after_undef', "def f(a):\n    a and (x := 1)\n    return x\n", 'x', 3, "Python: possibly undefined (a falsy); expected an UNDEF alternative"),
 ('ifexp_body_after_undef', "def f(a):\n    (x := 1) if a else 0\n    return x\n", 'x', 3, "possibly undefined"),
 ('ifexp_orelse_after_undef', "def f(a):\n    0 if a else (x := 1)\n    return x\n", 'x', 3, "possibly undefined"),
 ('ifexp_body_test_phantom', "def f():\n    x = 0\n    return (x := 1) if x else 2\n", 'x', 3, "read in the test can only see x = 0 at (2, 4)"),
 ('ifexp_body_orelse_phantom', "def f(a):\n    x = 0\n    return (x := 1) if a else x\n", 'x', 3, "read in orelse can only see x = 0 at (2, 4)"),
 ('try_type_body_phantom', "def f():\n    E = 0\n    try:\n        print(E)\n    except (E := KeyError):\n        pass\n", 'E', 4, "read in the try body can only see E = 0 at (2, 4)"),
 ('try_type_orelse_phantom', "def f():\n    E = 0\n    try:\n        pass\n    except (E := KeyError):\n        pass\n    else:\n        print(E)\n", 'E', 8, "else runs only when no exception: only E = 0"),
 ('try_type_otherbody_phantom', "def f():\n    E = 0\n    try:\n        pass\n    except KeyError:\n        print(E)\n    except (E := ValueError):\n        pass\n", 'E', 6, "first handler body: second handler's type was never evaluated: only E = 0"),
 ('try_type_after_undef', "def f():\n    try:\n        pass\n    except (E := KeyError):\n        pass\n    return E\n", 'E', 6, "possibly undefined (no exception raised)"),
 ('try_type_finally_undef', "def f():\n    try:\n        pass\n    except (E := KeyError):\n        pass\n    finally:\n        print(E)\n", 'E', 7, "possibly undefined"),
 ('return_does_not_end_region', "def f(c):\n    if c:\n        x = 1\n        return 0\n    else:\n        x = 2\n    return x\n", 'x', 7, "the if-branch returns: only x = 2 at (6, 8) can reach the last read"),
 ('raise_does_not_end_region', "def f(c):\n    if c:\n        x = 1\n        raise ValueError\n    else:\n        x = 2\n    return x\n", 'x', 7, "the if-branch raises: only x = 2 at (6, 8)"),
]
for k, src, name, line, expect in CASES:
    print('%-28s %-34s %s' % (k, alts(src, name, line), expect))
