"""C06: (1) `with cm as self.fd` and `for self.i in xs` assign through self but were not recorded: fd / i were missing from the
attribute proposals of the instance; (2) a bare annotation `self.x: int` was recorded as an assignment; (3) the first parameter of a
@staticmethod was taken for the instance: `target.x = 1` inside it became an instance attribute and won over the class attribute."""
import sys
sys.path.insert(0, sys.argv[1] if len(sys.argv) > 1 else '/repo')
from supp.project import Project
from supp.assistant import location, assist
P = Project(['/tmp/nonexist'])
src = ("class W(object):\n    def run(self, cm, items):\n        with cm as self.fd:\n            pass\n        for self.i in items:\n"
       "            pass\nw = W()\nw.")
props = [x for x in assist(P, src, (8, 2), '/tmp/x.py')[1] if not x.startswith('_')]
src2 = ("class A(object):\n    x = 0\n    @staticmethod\n    def mk(target):\n        target.x = 1\n        target.only_static = 2\n"
        "a = A()\na.x\n")
loc = [e['loc'] for e in location(P, src2, (8, 3), '/tmp/x.py')]
props2 = [x for x in assist(P, src2 + 'a.', (9, 2), '/tmp/x.py')[1] if not x.startswith('_')]
src3 = "class B(object):\n    y = 0\n    def m(self):\n        self.y: int\nb = B()\nb.y\n"
loc3 = [e['loc'] for e in location(P, src3, (6, 3), '/tmp/x.py')]
print(props, loc, props2, loc3)
sys.exit(0 if props == ['fd', 'i', 'run'] and loc == [(2, 4)] and props2 == ['mk', 'x'] and loc3 == [(2, 4)] else 1)
