"""Witness (not a check): run() tests prepare_thread and then dereferences it
while the starter clears it without the lock.  The preemption is forced with a
property that flips to None between the two reads (same effect as the starter's
`finally: self.prepare_thread = None` running between lines 86 and 87)."""
import sys
sys.path.insert(0, '/repo')
from supp.remote import Environment

class T(object):
    def join(self): pass

class E(Environment):
    _reads = 0
    @property
    def prepare_thread(self):
        E._reads += 1
        return T() if E._reads == 1 else None   # starter finished between the reads
    @prepare_thread.setter
    def prepare_thread(self, v): pass
    def _run(self): self.conn = object()

e = E()
try:
    e.run()
    print('run ok')
except AttributeError as ex:
    print('run raised AttributeError:', ex)
