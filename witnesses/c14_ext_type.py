"""C14: every spec-valid encoding must be accepted.  fixext 1 with type byte 0xff (type -1, the timestamp extension of the
specification) raised TypeError("ext type out of range") - not even an UnpackException - before the repair."""
import sys
sys.path.insert(0, sys.argv[1] if len(sys.argv) > 1 else '/repo')
from supp import umsgpack
bad = 0
for data in (b'\xd4\xff\x00', b'\xc7\x01\x80\x00', b'\xd6\xff\x00\x00\x00\x00'):
    try:
        v = umsgpack.loads(data)
        print(data, '->', v.type, v.data, 'round trip', umsgpack.loads(umsgpack.dumps(v)) == v)
    except Exception as e:
        print(data, '->', type(e).__name__, e)
        bad += 1
sys.exit(1 if bad else 0)
