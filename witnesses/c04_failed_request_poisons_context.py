"""Witness for the repaired defect C04-R2 [EvalCtx.evaluate resets nodes] (fix ce877e0).
Run from a checkout of supp:  python c04_failed_request_poisons_context.py
Three identical assist requests on one Project: before the repair the first raised IndentationError and the
following ones answered ('', ['y']) - without error and without the inherited names."""
import os
import shutil
import sys
import tempfile
sys.path.insert(0, '.')
from supp.assistant import assist
from supp.project import Project

d = tempfile.mkdtemp()
try:
    open(os.path.join(d, 'broken.py'), 'w').write('class Base:\n  x = 1\n   z = 2\n')
    open(os.path.join(d, 'm.py'), 'w').write('from broken import Base\nclass C(Base):\n    y = 1\n')
    p = Project([d])
    src = 'import m\nm.C.'
    answers = []
    for i in range(3):
        try:
            with p.check_changes():
                answers.append(repr(assist(p, src, (2, 4), os.path.join(d, 't.py'))))
        except SyntaxError as e:
            answers.append('ERROR ' + type(e).__name__)
    print(answers)
    sys.exit(0 if len(set(answers)) == 1 else 1)
finally:
    shutil.rmtree(d)
