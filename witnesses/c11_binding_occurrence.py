"""C11: the position of an import binding is that of the identifier that introduces it.
The text search started at the statement and took the first stand-alone occurrence (`from b import b` -> the module name), and it
looked at 51 lines only (names further down a long parenthesised import were reported at the statement start)."""
import sys
sys.path.insert(0, sys.argv[1] if len(sys.argv) > 1 else '/repo')
from supp.linter import lint
from supp.project import Project
L = lambda src: [tuple(r[2:4]) for r in lint(Project(['/nonexistent']), src)]
names = ['n%d' % i for i in range(60)]
long_import = 'from m import (\n' + ''.join('    %s,\n' % n for n in names) + ')\n'
cases = [('from b import b\n', [(1, 14)]), ('import a.b as a\n', [(1, 14)]), ('from os import path as os\n', [(1, 23)]),
         (long_import, [(i + 2, 4) for i in range(60)])]
bad = 0
for src, want in cases:
    got = L(src)
    print(src.splitlines()[0], '->', got[:3], '...' if len(got) > 3 else '', 'OK' if got == want else 'expected %s' % want[:3])
    bad += got != want
sys.exit(1 if bad else 0)
