"""Witness (not a check): assist prefix / marker."""
import sys
sys.path.insert(0, sys.argv[1] if len(sys.argv) > 1 else '/repo')
from supp.assistant import assist
from supp.project import Project
P = Project(['/nonexistent'])
def run(label, src, pos):
    try:
        pre, props = assist(P, src, pos, '/nonexistent/t.py')
        print('%-22s prefix=%r marker_in_proposals=%s' % (label, pre, [p for p in props if 'supp_mark' in p]))
    except Exception as e:
        print('%-22s RAISED %s %s' % (label, type(e).__name__, e))
run('x=fo|', "foo = 1\nx=fo\n", (2, 4))
run('f(a,fo|', "foo = 1\nprint(1,fo)\n", (2, 10))
run('import os.pa|th', "import os.path\n", (1, 12))
run('from os import pa|th', "from os import path\n", (1, 17))
run('self.ba|r = 1', "class A:\n    def f(self):\n        self.bar = 1\n        self.x\n", (3, 15))
