"""Witness (run once by hand, not by any check): a walrus inside a comprehension inside a subscript loop target is lost -
lint reports the binding unused (false W01) although `return n` reads it. Same root cause as C01-R5 [visit_For target exit dropped].
PYTHONPATH=/repo /venv/bin/python witnesses/c02_for_target_comp_walrus.py
-> [('E02', 'Undefined name: n', 4, 11, ...), ('W01', 'Unused name: n', 2, 12, ...)]"""
from supp.linter import lint
from supp.project import Project
src = '''def f(a, xs):
    for a[[(n := y) for y in xs][0]] in xs:
        pass
    return n
'''
print(lint(Project(['/tmp/nonexist']), src))
