"""C05: a nested function that declares `global x` while the enclosing function has a local x: the read of x is a LOAD_GLOBAL, so it
must resolve to the module-level binding, never to the enclosing function's local."""
import sys
sys.path.insert(0, sys.argv[1] if len(sys.argv) > 1 else '/repo')
from supp.project import Project
from supp.assistant import location
src = "x = 'module'\ndef outer():\n    x = 'local'\n    def inner():\n        global x\n        return x\n    return inner\n"
compile(src, 'w', 'exec')
r = location(Project(['/tmp/nonexist']), src, (6, 16), '/tmp/x.py')
print(r)
sys.exit(0 if [e['loc'] for e in r] == [(1, 0)] else 1)
