"""C12: proposals are identifiers.  `self.| = 1` (cursor directly after the dot of an attribute assignment target) records an
attribute whose name is the bare cursor marker; un-marking it leaves the empty string, which was proposed."""
import sys
sys.path.insert(0, sys.argv[1] if len(sys.argv) > 1 else '/repo')
from supp.project import Project
from supp.assistant import assist
src = "class A:\n    def __init__(self):\n        self.alpha = 1\n        self. = 2\n"
prefix, props = assist(Project(['/tmp/nonexist']), src, (4, 13), '/tmp/x.py')
print(repr(prefix), props)
sys.exit(1 if '' in props or any(not p.isidentifier() for p in props) else 0)
