"""Witness (not a check): a long-lived Project serves stale star-imported names
and stale attributes after an edit two imports away."""
import os, sys, tempfile, time, shutil
sys.path.insert(0, sys.argv[1] if len(sys.argv) > 1 else '/repo')
from supp.assistant import assist
from supp.project import Project
d = tempfile.mkdtemp()
try:
    def write(name, text, t):
        p = os.path.join(d, name)
        open(p, 'w').write(text)
        os.utime(p, (t, t))
    write('b.py', 'foo = 1\n', 1000)
    write('a.py', 'from b import *\nimport b\n', 1000)
    P = Project([d])
    src = 'import a\na.'
    def ask(proj):
        with proj.check_changes():
            return [n for n in assist(proj, src, (2, 2), os.path.join(d, 'main.py'))[1] if not n.startswith('_')]
    print('before edit          :', ask(P))
    write('b.py', 'bar = 2\n', 2000)
    print('long-lived after edit:', ask(P))
    print('fresh after edit     :', ask(Project([d])))
finally:
    shutil.rmtree(d)
