"""C13 / C01 finding: a decorated def/class whose decorator expression starts on a later line than its `@`.

get_first_body_node_loc places the block at (first decorator's line, def column); the `@` token is on an earlier line, so the
names bound by the enclosing header (parameters, loop targets) are not yet visible at reads inside that decorator: a false E02
that disappears when the same tree is laid out on one line."""
import ast, sys
sys.path.insert(0, sys.argv[1] if len(sys.argv) > 1 else '/repo')
from supp.linter import lint
from supp.project import Project
P = Project(['/nonexistent'])
A = "def f(a):\n    @(\n  a)\n    def g(): pass\n    return g\n"
B = "def f(a):\n    @a\n    def g(): pass\n    return g\n"
assert ast.dump(ast.parse(A)) == ast.dump(ast.parse(B))
ra, rb = [r[:2] for r in lint(P, A)], [r[:2] for r in lint(P, B)]
print(ra, rb)
sys.exit(1 if ra != rb else 0)
