"""C08: completion on an instance of a runtime (dynamic / compiled) class without __dict__ whose property raises: the attribute
table was built with getattr(obj, k, None), which only absorbs AttributeError - assist died with the property's exception."""
import os, sys, tempfile, shutil
sys.path.insert(0, sys.argv[1] if len(sys.argv) > 1 else '/repo')
d = tempfile.mkdtemp()
try:
    open(os.path.join(d, 'c08slotmod.py'), 'w').write(
        "class S(object):\n    __slots__ = ()\n    @property\n    def boom(self):\n        raise ValueError('optional backend missing')\n"
        "    def fine(self):\n        return 1\n")
    sys.path.insert(0, d)
    from supp.project import Project
    from supp.assistant import assist
    p = Project(['/tmp/nonexist'], dyn_modules=['c08slotmod'])
    src = 'import c08slotmod\nc08slotmod.S().'
    try:
        r = assist(p, src, (2, 15), '/tmp/x.py')
        print(r[0], [x for x in r[1] if not x.startswith('_')])
        sys.exit(0 if 'fine' in r[1] and 'boom' in r[1] else 1)
    except ValueError as e:
        print('assist raised', repr(e))
        sys.exit(1)
finally:
    shutil.rmtree(d)
