"""C01: (1) a name bound only under `global` inside a function was invisible to reads at module level (E02 on `print(CONF)` after
`init()`); (2) a star import skipped every underscore name, also those the module lists in __all__, and took a live module's
non-__all__ names for bound."""
import os, sys, tempfile, shutil
sys.path.insert(0, sys.argv[1] if len(sys.argv) > 1 else '/repo')
from supp.project import Project
from supp.linter import lint
d = tempfile.mkdtemp()
try:
    src = "def init():\n    global CONF\n    CONF = 1\ninit()\nprint(CONF)\ndef g():\n    return CONF\n"
    compile(src, 'w', 'exec')
    r0 = [t[:4] for t in lint(Project([d]), src, os.path.join(d, 'm0.py'))]
    open(os.path.join(d, 'lib.py'), 'w').write("__all__ = ['pub', '_listed']\npub = 1\n_listed = 2\n_hidden = 3\nother = 4\n")
    r1 = [t[:4] for t in lint(Project([d]), "from lib import *\nprint(pub, _listed, other)\nprint(_hidden)\n", os.path.join(d, 'main.py'))]
    r2 = [t[:4] for t in lint(Project([d], dyn_modules=['string']), "from string import *\nprint(ascii_letters)\nprint(_re)\n",
                              os.path.join(d, 'm2.py'))]
    print(r0, r1, r2)
    ok = r0 == [] and r1 == [('E02', 'Undefined name: _hidden', 3, 6)] and r2 == [('E02', 'Undefined name: _re', 3, 6)]
    sys.exit(0 if ok else 1)
finally:
    shutil.rmtree(d)
