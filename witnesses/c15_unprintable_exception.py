import sys
sys.path.insert(0, sys.argv[1] if len(sys.argv) > 1 else '/repo')
from supp.server import Server
class E(Exception):
    def __str__(self):
        raise RuntimeError('x')
class S(Server):
    def boom(self):
        raise E()
s = S(None)
try:
    print('reply:', s.process('boom', (), {}))
except BaseException as e:
    print('process() itself raised', type(e).__name__, '- Server.run dies with it')
    sys.exit(1)
