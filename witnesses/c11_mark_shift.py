import sys
sys.path.insert(0, '/repo')
from supp.project import Project
from supp.assistant import location
src = "def f(x):\n    for i in x: print(ab); ab = 2\n"
line = src.splitlines()[1]
col = line.index('ab') + 2
print(location(Project(['/tmp/nonexist']), src, (2, col), '/tmp/x.py'))
print('binding really at', (2, line.rindex('ab')))
from supp.linter import lint
print(lint(Project(['/tmp/nonexist']), "def f(x):\n    for i in x: print(1); ab = 2\n", '/tmp/x.py'))
