"""C11: text-searched positions. `def\\tname` / `class\\tName` (a tab after the keyword), `async def d` (a name that is a prefix of
`def`), and an imported name directly followed by a comment (`import os#c`) were positioned at the keyword / the statement
start: the search string was ' ' + name (so only a blank could precede it, and ' d' matched ' def'), and '#' / '\\\\' were not
accepted after an imported name."""
import sys
sys.path.insert(0, sys.argv[1] if len(sys.argv) > 1 else '/repo')
from supp.project import Project
from supp.linter import lint
P = Project(['/tmp/nonexist'])
cases = [
    ("def outer():\n    def\ttabbed(): pass\n", (2, 8)),
    ("def outer():\n    class\tTabbed: pass\n", None),
    ("def outer():\n    async def d(): pass\n", (2, 14)),
    ("def outer():\n    async def de(): pass\n", (2, 14)),
    ("def outer():\n    import os#c\n", (2, 11)),
    ("def outer():\n    from os import sep#, altsep\n", (2, 19)),
]
bad = 0
for src, want in cases:
    compile(src, 'w', 'exec')
    r = [t[:4] for t in lint(P, src, '/tmp/x.py')]
    got = [(t[2], t[3]) for t in r]
    print(repr(src.splitlines()[1]), r)
    if want is not None and got != [want]:
        bad += 1
sys.exit(1 if bad else 0)
