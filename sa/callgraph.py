"""Typed call graph of supp (part of E0).

Receivers are typed from the repository's own `# type:` comments (function
signatures, attribute declarations, annotated assignments), propagated through
assignment, iteration, subscripting and calls inside one function.  A call or a
property read `recv.attr` resolves to the methods named `attr` of the receiver's
classes and their subclasses (class-hierarchy analysis); when the receiver has
no supp type the edge falls back to name-based resolution over all supp classes
and is marked untyped.
"""
import ast
import re

from .core import unparse, enclosing_class
from .facts import get_facts, FuncInfo, ClassInfo


class Ty(object):
    __slots__ = ('classes', 'elem')

    def __init__(self, classes=(), elem=None):
        self.classes = frozenset(classes)
        self.elem = elem       # Ty of elements / mapping values

    def __or__(self, other):
        if other is None:
            return self
        elem = self.elem
        if other.elem is not None:
            elem = other.elem if elem is None else (elem | other.elem)
        return Ty(self.classes | other.classes, elem)

    def __bool__(self):
        return bool(self.classes) or self.elem is not None

    def __repr__(self):
        return 'Ty(%s%s)' % ('|'.join(sorted(self.classes)), ', elem=%r' % self.elem if self.elem else '')


EMPTY = Ty()
_PROTOCOLS = {}
SEQ_WORDS = ('list', 'List', 'Sequence', 'MutableSequence', 'Iterable', 'Iterator', 'set', 'Set', 'frozenset')
MAP_WORDS = ('dict', 'Dict', 'Mapping', 'MutableMapping')


def parse_type(text, known):
    """Parse a type-comment fragment into a Ty (only supp classes are kept)."""
    if not text:
        return EMPTY
    text = text.strip().strip('\'"')
    try:
        node = ast.parse(text, mode='eval').body
    except SyntaxError:
        return EMPTY
    return _ty(node, known)


def _ty(node, known):
    if isinstance(node, ast.Constant) and isinstance(node.value, str):
        return parse_type(node.value, known)
    if isinstance(node, ast.Name):
        if node.id in _PROTOCOLS:
            return Ty(_PROTOCOLS[node.id])
        return Ty([node.id]) if node.id in known else EMPTY
    if isinstance(node, ast.Attribute):
        if unparse(node.value) in ('ast', 't', 'typing'):
            return EMPTY
        return Ty([node.attr]) if node.attr in known else EMPTY
    if isinstance(node, ast.BinOp) and isinstance(node.op, ast.BitOr):
        return _ty(node.left, known) | _ty(node.right, known)
    if isinstance(node, ast.Subscript):
        head = unparse(node.value).split('.')[-1]
        args = node.slice.elts if isinstance(node.slice, ast.Tuple) else [node.slice]
        if head in ('Optional',):
            return _ty(args[0], known)
        if head in ('Union',):
            out = EMPTY
            for a in args:
                out = out | _ty(a, known)
            return out
        if head in SEQ_WORDS:
            e = EMPTY
            for a in args:
                e = e | _ty(a, known)
            return Ty((), e)
        if head in MAP_WORDS and len(args) == 2:
            return Ty((), _ty(args[1], known))
        if head in ('type', 'Type'):
            return EMPTY
    return EMPTY


_SIG = re.compile(r'^\s*\((.*)\)\s*->\s*(.*)$', re.S)


def split_top(s):
    out, depth, cur = [], 0, ''
    for ch in s:
        if ch == ',' and depth == 0:
            out.append(cur)
            cur = ''
            continue
        depth += ch in '([{'
        depth -= ch in ')]}'
        cur += ch
    if cur.strip():
        out.append(cur)
    return out


def _type_only(node):
    """Class declared under `if False:` (typing protocol, not a runtime class)."""
    p = getattr(node, '_parent', None)
    while p is not None:
        if isinstance(p, ast.If) and isinstance(p.test, ast.Constant) and p.test.value is False:
            return True
        p = getattr(p, '_parent', None)
    return False


class CallGraph(object):
    def __init__(self, repo):
        self.repo = repo
        self.facts = get_facts(repo)
        self.known = set(n for n, c in self.facts.classes.items() if not _type_only(c.node))
        # typing.Protocol classes declared for the type checker only: a receiver typed with one may be any runtime
        # class that provides all of the protocol's members (structural typing)
        self.protocols = {}
        for n, c in self.facts.classes.items():
            if _type_only(c.node) and any('Protocol' in b for b in c.base_names):
                members = [m for m in c.methods]
                if members:
                    impl = [k for k in self.known if all(self.facts.classes[k].provides(m) for m in members)]
                    self.protocols[n] = impl
        global _PROTOCOLS
        _PROTOCOLS = self.protocols
        self.sig = {}        # FuncInfo.key -> (param name -> Ty, return Ty)
        self.attr_ty = {}    # class name -> {attr: Ty}
        self.edges = {}      # key -> list of (callee key, typed: bool, node)
        self.unresolved = []
        self._signatures()
        self._attributes()
        self._edges()

    # ---- signatures -----------------------------------------------------
    def _signatures(self):
        for fi in self.facts.funcs.values():
            params, ret = {}, EMPTY
            tc = getattr(fi.node, 'type_comment', None)
            names = [a.arg for a in fi.node.args.posonlyargs + fi.node.args.args]
            if tc:
                m = _SIG.match(tc)
                if m:
                    parts = split_top(m.group(1))
                    pn = names[1:] if names and names[0] in ('self', 'cls') and len(parts) == len(names) - 1 else names
                    for n, p in zip(pn, parts):
                        params[n] = parse_type(p.lstrip('*'), self.known)
                    ret = parse_type(m.group(2), self.known)
            for a in fi.node.args.posonlyargs + fi.node.args.args + fi.node.args.kwonlyargs:
                if a.annotation is not None:
                    params[a.arg] = _ty(a.annotation, self.known)
            if fi.node.returns is not None:
                ret = _ty(fi.node.returns, self.known)
            if fi.cls is not None and names and names[0] == 'self':
                params['self'] = Ty([fi.cls.name])
            self.sig[fi.key] = (params, ret)

    def _attributes(self):
        for ci in self.facts.classes.values():
            at = self.attr_ty.setdefault(ci.name, {})
            # declarations in `if False:` blocks and plain class-level assignments with type comments
            for st in ast.walk(ci.node):
                if isinstance(st, ast.Assign) and st.type_comment and enclosing_class(st) is ci.node:
                    for t in st.targets:
                        if isinstance(t, ast.Name):
                            at[t.id] = at.get(t.id, EMPTY) | parse_type(st.type_comment, self.known)
            for m in ci.methods.values():
                params, _ = self.sig.get(m.key, ({}, EMPTY))
                for st in ast.walk(m.node):
                    if isinstance(st, ast.Assign):
                        for t in st.targets:
                            if isinstance(t, ast.Attribute) and isinstance(t.value, ast.Name) and t.value.id == 'self':
                                ty = EMPTY
                                if st.type_comment:
                                    ty = parse_type(st.type_comment, self.known)
                                elif isinstance(st.value, ast.Name) and st.value.id in params:
                                    ty = params[st.value.id]
                                elif isinstance(st.value, ast.Call) and isinstance(st.value.func, ast.Name) \
                                        and st.value.func.id in self.known:
                                    ty = Ty([st.value.func.id])
                                elif isinstance(st.value, ast.BoolOp):
                                    for v in st.value.values:
                                        if isinstance(v, ast.Name) and v.id in params:
                                            ty = ty | params[v.id]
                                if ty:
                                    at[t.attr] = at.get(t.attr, EMPTY) | ty

    def attr_type(self, cname, attr):
        ci = self.facts.classes.get(cname)
        if ci is None:
            return EMPTY
        out = EMPTY
        for c in ci.mro() + ci.all_subclasses():
            t = self.attr_ty.get(c.name, {}).get(attr)
            if t:
                out = out | t
            m = c.methods.get(attr)
            if m is not None and (m.is_property or m.is_context_property):
                out = out | self.sig.get(m.key, ({}, EMPTY))[1]
        return out

    def method_targets(self, cname, attr):
        ci = self.facts.classes.get(cname)
        if ci is None:
            return []
        out, seen = [], set()
        for c in [ci] + ci.all_subclasses():
            m = c.lookup(attr)
            if m is not None and m.key not in seen:
                seen.add(m.key)
                out.append(m)
        return out

    # ---- expression typing -------------------------------------------------
    def typeof(self, e, env, fi):
        if isinstance(e, ast.Name):
            if e.id in env:
                return env[e.id]
            for t in self.facts.resolve_name(fi.rel, e.id):
                if isinstance(t, ClassInfo):
                    return EMPTY
            return EMPTY
        if isinstance(e, ast.Attribute):
            base = self.typeof(e.value, env, fi)
            out = EMPTY
            for c in base.classes:
                out = out | self.attr_type(c, e.attr)
            return out
        if isinstance(e, ast.Subscript):
            base = self.typeof(e.value, env, fi)
            if isinstance(e.slice, ast.Slice):
                return base
            return base.elem or EMPTY
        if isinstance(e, ast.Call):
            out = EMPTY
            for callee, typed in self.resolve_call(e, env, fi):
                if isinstance(callee, ClassInfo):
                    out = out | Ty([callee.name])
                else:
                    out = out | self.sig.get(callee.key, ({}, EMPTY))[1]
            f = e.func
            if isinstance(f, ast.Name) and f.id in ('list', 'set', 'tuple', 'sorted', 'reversed', 'filter') and e.args:
                return self.typeof(e.args[0], env, fi)
            if isinstance(f, ast.Attribute) and f.attr in ('get', 'pop', 'setdefault') and not out:
                base = self.typeof(f.value, env, fi)
                return base.elem or EMPTY
            if isinstance(f, ast.Attribute) and f.attr in ('values', 'itervalues', 'copy') and not out:
                return self.typeof(f.value, env, fi)
            if isinstance(f, ast.Name) and f.id in ('itervalues',) and e.args:
                return self.typeof(e.args[0], env, fi)
            return out
        if isinstance(e, ast.BoolOp):
            out = EMPTY
            for v in e.values:
                out = out | self.typeof(v, env, fi)
            return out
        if isinstance(e, ast.IfExp):
            return self.typeof(e.body, env, fi) | self.typeof(e.orelse, env, fi)
        if isinstance(e, (ast.ListComp, ast.GeneratorExp, ast.SetComp)):
            env2 = dict(env)
            for g in e.generators:
                self.bind_target(g.target, (self.typeof(g.iter, env2, fi).elem or EMPTY), env2)
            return Ty((), self.typeof(e.elt, env2, fi))
        if isinstance(e, (ast.List, ast.Tuple, ast.Set)):
            out = EMPTY
            for x in e.elts:
                out = out | self.typeof(x, env, fi)
            return Ty((), out)
        return EMPTY

    def bind_target(self, t, ty, env):
        if isinstance(t, ast.Name):
            env[t.id] = env.get(t.id, EMPTY) | ty if ty else env.get(t.id, EMPTY)
        elif isinstance(t, (ast.Tuple, ast.List)):
            for x in t.elts:
                self.bind_target(x, ty.elem or EMPTY if ty else EMPTY, env)

    def local_env(self, fi):
        params, _ = self.sig.get(fi.key, ({}, EMPTY))
        env = dict(params)
        # two passes so that later assignments see earlier ones regardless of walk order
        for _ in range(2):
            for st in ast.walk(fi.node):
                if isinstance(st, ast.Assign):
                    ty = parse_type(st.type_comment, self.known) if st.type_comment else EMPTY
                    if not ty:
                        ty = self.typeof(st.value, env, fi)
                    for t in st.targets:
                        self.bind_target(t, ty, env)
                elif isinstance(st, (ast.For, ast.comprehension)):
                    it = self.typeof(st.iter, env, fi)
                    self.bind_target(st.target, it.elem or EMPTY, env)
                elif isinstance(st, ast.withitem) and st.optional_vars is not None:
                    self.bind_target(st.optional_vars, self.typeof(st.context_expr, env, fi), env)
        return env

    # ---- call resolution -----------------------------------------------------
    def resolve_call(self, call, env, fi):
        """-> list of (FuncInfo | ClassInfo, typed)"""
        f = call.func
        out = []
        if isinstance(f, ast.Name):
            if f.id in env and env[f.id]:
                return []
            for t in self.facts.resolve_name(fi.rel, f.id):
                out.append((t, True))
            return out
        if isinstance(f, ast.Attribute):
            return self.resolve_attr(f, env, fi)
        return out

    def resolve_attr(self, attr_node, env, fi):
        out = []
        v = attr_node.value
        if isinstance(v, ast.Name) and v.id not in env:
            for t in self.facts.resolve_module_attr(fi.rel, v.id, attr_node.attr):
                out.append((t, True))
            k = self.facts.classes.get(v.id)
            if k is not None and not out:
                m = k.lookup(attr_node.attr)
                if m is not None:
                    out.append((m, True))
            if out:
                return out
        base = self.typeof(v, env, fi)
        if base.classes:
            seen = set()
            for c in base.classes:
                for m in self.method_targets(c, attr_node.attr):
                    if m.key not in seen:
                        seen.add(m.key)
                        out.append((m, True))
            return out
        # untyped receiver: name-based over all supp classes
        seen = set()
        for ci in self.facts.classes.values():
            m = ci.methods.get(attr_node.attr)
            if m is not None and m.key not in seen:
                seen.add(m.key)
                out.append((m, False))
        return out

    def _edges(self):
        for fi in list(self.facts.funcs.values()):
            env = self.local_env(fi)
            es = []
            called = set()
            for n in ast.walk(fi.node):
                if isinstance(n, ast.Call):
                    called.add(id(n.func))
                    for t, typed in self.resolve_call(n, env, fi):
                        if isinstance(t, ClassInfo):
                            init = t.lookup('__init__')
                            if init is not None:
                                es.append((init.key, typed, n))
                        else:
                            es.append((t.key, typed, n))
            for n in ast.walk(fi.node):
                if isinstance(n, ast.Attribute) and isinstance(n.ctx, ast.Load) and id(n) not in called:
                    # property / cached_property / context_property reads are calls of the getter
                    for t, typed in self.resolve_attr(n, env, fi):
                        if isinstance(t, FuncInfo) and t.is_property:
                            es.append((t.key, typed, n))
                elif isinstance(n, ast.Attribute) and id(n) in called:
                    # calling the result of a property (e.g. self.resolve(ctx) with context_property)
                    pass
            self.edges[fi.key] = es

    def callees(self, key, typed_only=False):
        return [(k, t, n) for k, t, n in self.edges.get(key, []) if t or not typed_only]

    def reach(self, start, typed_only=False, stop=()):
        seen, work = set(), [start]
        while work:
            k = work.pop()
            for c, t, _ in self.callees(k, typed_only):
                if c not in seen and c not in stop:
                    seen.add(c)
                    work.append(c)
        return seen

    def path(self, a, b, typed_only=False):
        """Shortest call path a -> b as a list of keys (or None)."""
        prev = {a: None}
        work = [a]
        if a == b:
            # cycle query: shortest path from a back to a
            best = None
            for c, t, _ in self.callees(a, typed_only):
                if c == a:
                    return [a, a]
                p = self.path(c, a, typed_only)
                if p and (best is None or len(p) < len(best)):
                    best = p
            return [a] + best if best else None
        while work:
            nxt = []
            for k in work:
                for c, t, _ in self.callees(k, typed_only):
                    if c not in prev:
                        prev[c] = k
                        if c == b:
                            out = [c]
                            while prev[out[-1]] is not None:
                                out.append(prev[out[-1]])
                            return out[::-1]
                        nxt.append(c)
            work = nxt
        return None


def get_callgraph(repo):
    return repo.memo('callgraph', lambda: CallGraph(repo))
