"""Abstract interpretation of supp's API functions (linter.lint, assistant.assist,
assistant.location, EvalCtx.declarations/_evaluate) on stub analysis results.

The functions are interpreted from supp's source by sa.absint; what they call to
*obtain* an analysis (parsing, extract_scope, the cursor-mark finders) is replaced by
stubs that hand back small hand-built objects, so that the part under analysis is
exactly the glue the properties talk about: which table is consulted, which entries
are marked, which bindings are reported with which fields, how results are formatted.
Because the functions are interpreted rather than pattern-matched, refactorings
(helper extraction, guard clauses, renamed locals) do not affect the verdicts.
"""
from .core import AnalysisError
from .facts import get_facts
from .absint import (Interp, Obj, Native, NativeModule, Unknown, InterpRaise, Uninterpretable, FuncVal)

LINTER = 'supp/linter.py'
ASSIST = 'supp/assistant.py'
UTIL = 'supp/util.py'


def both_orders(build):
    """Run a model under both set-iteration-order policies of the interpreter: a result that depends on the unspecified
    iteration order of a set (or on object addresses) differs from the expected one under at least one of them."""
    out = []
    seen = {}
    for order in ('fwd', 'rev'):
        for tag, key, ok, msg, sample in build(order):
            if (tag, key) in seen:
                if ok or not out[seen[tag, key]][2]:
                    continue
                out[seen[tag, key]] = (tag, key, ok, msg + ' [with sets iterated in the opposite order: the result depends on the '
                                       'unspecified iteration order of a set]', sample)
            else:
                seen[tag, key] = len(out)
                out.append((tag, key, ok, msg, sample))
    return out


class Stubs(object):
    def __init__(self, repo, order='fwd'):
        self.repo = repo
        self.facts = get_facts(repo)
        self.it = Interp(repo, self.facts)
        self.it.set_order = order
        self.it.memoise_cached = True
        self.it.reset_path([])
        self.blank = self.facts.classes.get('Unresolved') or self.facts.classes['Callable']
        self.syntax_error = None
        self.scope = None
        self.usages = []
        self.calls = []
        util = self.it.module_env(UTIL)
        util['parse'] = Native('parse', self.n_parse)
        for rel in (LINTER, ASSIST, 'supp/nast.py'):
            env = self.it.module_env(rel)
            if 'extract_scope' in env or rel == 'supp/nast.py':
                env['extract_scope'] = Native('extract_scope', lambda it, a, k: self.n_extract_scope(a))
        for rel in (LINTER, UTIL):
            self.it.module_env(rel)['get_name_usages'] = Native('get_name_usages', lambda it, a, k: list(self.usages))

    def cls(self, name):
        c = self.facts.classes.get(name)
        if c is None:
            raise AnalysisError('class %s vanished' % name)
        return c

    def obj(self, cname, label=None, **attrs):
        return Obj(self.cls(cname) if cname else self.blank, dict(attrs), label)

    def n_parse(self, it, args, kwargs):
        if self.syntax_error:
            raise InterpRaise('SyntaxError', self.syntax_error['msg'], None, dict(self.syntax_error))
        if args and isinstance(args[0], str) and any(l.lstrip().startswith('from ') and ' import' not in l for l in args[0].splitlines()):
            # a line that starts with `from` and has no `import`: whether the (marked) text parses is decided by the real parser - a
            # continuation line of `raise ... from` / `yield from` does, a half-typed import does not; the tree itself stays opaque
            import ast as _ast
            try:
                _ast.parse(args[0])
            except SyntaxError as e:
                raise InterpRaise('SyntaxError', e.msg, None, {'msg': e.msg, 'lineno': e.lineno, 'offset': e.offset})
            except ValueError as e:
                raise InterpRaise('ValueError', str(e))
        return Unknown('tree')

    def n_extract_scope(self, args):
        self.calls.append(('extract_scope',))
        return self.scope

    def call(self, rel, fname, *args):
        self.it.steps = 0
        return self.it.call(self.it.lookup_global(rel, fname), list(args), {})

    # ---- building blocks ------------------------------------------------------------------------
    def scope_chain(self, kind, parent_kind=None):
        top = self.obj('SourceScope', 'module', source=self.obj(None, 'source', filename='/p/this.py'))
        top.attrs['top'] = top
        if kind == 'module':
            return top
        parent = top
        if parent_kind == 'class':
            parent = self.obj('ClassScope', 'outer class', parent=top, top=top)
        elif parent_kind == 'function':
            parent = self.obj('FuncScope', 'outer function', parent=top, top=top)
        cname = {'class': 'ClassScope', 'function': 'FuncScope'}[kind]
        return self.obj(cname, kind, parent=parent, top=top)

    def read(self, ident, line, col, table=None, no_flow=False):
        """A stub ast.Name read; `table` is what its region returns from names_at."""
        node = self.obj(None, 'read %s' % ident, id=ident, lineno=line, col_offset=col)
        if not no_flow:
            def names_at(it, a, k, _node=node, _table=table):
                self.calls.append(('names_at', _node, a[0]))
                return dict(_table or {})
            node.attrs['flow'] = self.obj('Flow', 'region of %s' % ident, names_at=Native('names_at', names_at),
                                          scope=self.scope_chain('function'))
        return node


def get_stubs(repo):
    return Stubs(repo)


# ---------------------------------------------------------------------------
# lint
# ---------------------------------------------------------------------------

ATOMS = ['USED', 'UNDERSCORE', 'IS_STAR', 'MODCLASS', 'IS_IMPORT', 'FUTURE', 'QUALIFIED', 'IS_PARAM', 'PARENT_CLASS']


def lint_candidate(st, v, scope_kind):
    """Build the stub scope holding one candidate binding described by valuation v; returns (name obj, text)."""
    text = '_cand' if v['UNDERSCORE'] else 'cand'
    if v['MODCLASS']:
        sc = st.scope_chain(scope_kind, 'class' if v['PARENT_CLASS'] else None)
    else:
        sc = st.scope_chain('function', 'class' if v['PARENT_CLASS'] else 'function')
    flow = st.obj('Flow', 'region', scope=sc)
    if v['IS_IMPORT']:
        name = st.obj('ImportedName', 'candidate', name=text, location=(5, 9), declared_at=(5, 7),
                      module='__future__' if v['FUTURE'] else 'pkg', mname=None, is_star=bool(v['IS_STAR']), qualified=False)
    elif v['IS_PARAM']:
        name = st.obj('ArgumentName', 'candidate', name=text, location=(6, 4), declared_at=(5, 7), idx=[0])
    else:
        name = st.obj('AssignedName', 'candidate', name=text, location=(5, 9), declared_at=(5, 7), value_node=None)
    name.attrs['scope'] = sc
    if v['USED']:
        name.attrs['used'] = True
    st.scope = st.obj('SourceScope', 'analysed scope', all_names=[(flow, name)])
    st.usages = []
    if v['QUALIFIED']:
        other = st.obj('ImportedName', 'dotted import read elsewhere', name=text, location=(2, 0), declared_at=(2, 7),
                       module=text, mname=None, is_star=False, qualified=True)
        other.attrs['scope'] = st.scope_chain('module')
        st.usages = [st.read(text, 9, 0, {text: other})]
    return name, text


def run_lint(st, text='x = 1\n'):
    st.calls = []
    return st.call(LINTER, 'lint', Unknown('project'), text, '/p/this.py')


def consistent(v):
    if (v['IS_STAR'] or v['FUTURE'] or v['QUALIFIED']) and not v['IS_IMPORT']:
        return False
    if v['IS_PARAM'] and (v['IS_IMPORT'] or v['MODCLASS']):
        return False          # parameters live in the function's own region
    if (v['IS_STAR'] or v['FUTURE']) and not v['MODCLASS']:
        return False          # import * / from __future__ are module-level only
    return True


def reference(v):
    """From the property statement (C10)."""
    if v['USED']:
        return None
    if not v['MODCLASS']:
        if v['UNDERSCORE']:
            return None
        if v['IS_PARAM'] and v['PARENT_CLASS']:
            return None       # parameter of a method
        return 'W01'
    if v['IS_IMPORT'] and not v['UNDERSCORE'] and not v['FUTURE'] and not v['IS_STAR'] and not v['QUALIFIED']:
        return 'W02'
    return None


DECL = (571, 233)
LOC = (571, 239)


def _mk(st, cname, text, scope, decl=DECL, loc=LOC, **kw):
    base = dict(name=text, location=loc, declared_at=decl, scope=scope)
    if cname == 'ImportedName':
        base.update(module='pkg', mname=None, is_star=False, qualified=False)
    if cname == 'AssignedName':
        base.update(value_node=None)
    if cname == 'ArgumentName':
        base.update(idx=[0])
    base.update(kw)
    return st.obj(cname, '%s %s' % (cname, text), **base)


def _safe_lint(st):
    """-> (result list, None) or (None, description of the exception lint raised)"""
    try:
        r = run_lint(st)
    except InterpRaise as e:
        return None, '%s: %s' % (e.exc_name, e.msg)
    if not isinstance(r, list):
        raise AnalysisError('lint model: result is not a concrete list: %r' % (r,))
    return r, None


def lint_model(repo):
    """Interpret linter.lint on stub analyses.  -> list of records
    (tag, key, ok, message, sample); tags: table, fields, once, producers, lookup, marks, locals, message."""
    cached = getattr(repo, '_lint_model', None)
    if cached is not None:
        return cached
    import itertools
    st = get_stubs(repo)
    out = []

    def rec(tag, key, ok, msg, sample=None):
        out.append((tag, key, bool(ok), msg, sample))

    # --- decision table --------------------------------------------------------------------------
    rows = 0
    for bits in itertools.product([False, True], repeat=len(ATOMS)):
        v = dict(zip(ATOMS, bits))
        if not consistent(v):
            continue
        for kind in (['module', 'class'] if v['MODCLASS'] else ['function']):
            rows += 1
            name, text = lint_candidate(st, v, kind)
            name.attrs['declared_at'] = DECL
            name.attrs['location'] = LOC
            res, exc = _safe_lint(st)
            on = [a for a in ATOMS if v[a]]
            key = 'row %s in %s scope' % ('+'.join(on) or 'none', kind)
            want = reference(v)
            if exc:
                rec('table', key, False, 'lint raises %s for a binding with atoms {%s}' % (exc, ', '.join(on)))
                continue
            mine = [r for r in res if isinstance(r, tuple) and len(r) >= 4 and isinstance(r[0], str) and r[0].startswith('W')]
            got = mine[0][0] if mine else None
            rec('table', key, got == want and len(mine) <= 1,
                'exemption rules differ from the statement for a binding with atoms {%s} in a %s scope: lint reports %s, the '
                'statement requires %s' % (', '.join(on) or 'none', kind, [m[0] for m in mine] or None, want),
                '%s -> %s' % ('+'.join(on) or '(plain unused binding)', want))
            if mine and got == want:
                r = mine[0]
                rec('fields', key, (r[2], r[3]) == DECL,
                    'the %s report of a binding declared at %s (identifier text ends at %s) carries position %s'
                    % (got, DECL, LOC, (r[2], r[3])), '%s report position = declared_at' % got)
                msg = r[1]
                okm = isinstance(msg, str) and text in msg and not any(str(d) in msg for d in DECL + LOC)
                rec('message', key, okm, 'the %s message %r must name the binding %r and carry no position' % (got, msg, text))
    rec('rows', 'decision rows', rows >= 150, 'only %d consistent rows enumerated' % rows)

    fn_scope = st.scope_chain('function', 'function')
    flow = st.obj('Flow', 'region', scope=fn_scope)

    # --- two unused bindings: each reported once with its own fields -----------------------------
    a = _mk(st, 'AssignedName', 'alpha', fn_scope, (31, 4), (31, 9))
    b = _mk(st, 'AssignedName', 'beta', fn_scope, (47, 8), (47, 12))
    st.scope = st.obj('SourceScope', 'analysed scope', all_names=[(flow, a), (flow, b)])
    st.usages = []
    res, exc = _safe_lint(st)
    got = sorted((r[0], r[2], r[3], 'alpha' in r[1], 'beta' in r[1]) for r in res) if res is not None else exc
    rec('once', 'two unused locals', got == [('W01', 31, 4, True, False), ('W01', 47, 8, False, True)],
        'two unused locals alpha@(31,4), beta@(47,8) must give exactly one report each with its own name and position; got %s'
        % (res if res is not None else exc,), 'each binding reported once with its own name/declared_at')

    # --- producers ---------------------------------------------------------------------------------
    st.scope = st.obj('SourceScope', 'analysed scope', all_names=[])
    st.syntax_error = {'msg': 'invalid syntax', 'lineno': 613, 'offset': 17}
    res, exc = _safe_lint(st)
    st.syntax_error = None
    ok = res is not None and len(res) == 1 and tuple(res[0][:4]) == ('E01', 'invalid syntax', 613, 17)
    rec('producers', 'E01 on a syntax error', ok, 'a file that does not parse must give exactly one E01 with the parser\'s message, '
        'line and offset; got %s' % (res if res is not None else exc,), 'SyntaxError -> [E01 msg line offset]')

    st.usages = [st.read('ghost', 88, 21, no_flow=True)]
    res, exc = _safe_lint(st)
    ok = res is not None and len(res) == 1 and res[0][0] == 'E42' and (res[0][2], res[0][3]) == (88, 21) and 'ghost' in res[0][1]
    rec('producers', 'E42 for a read without region', ok, 'a read that no visitor gave a region must give exactly one E42 at its '
        'own position; got %s' % (res if res is not None else exc,), 'read without .flow -> E42 at np(read)')

    other = _mk(st, 'AssignedName', 'other', fn_scope)
    other.attrs['used'] = True
    st.usages = [st.read('ghost', 88, 21, {'other': other})]
    res, exc = _safe_lint(st)
    ok = res is not None and len(res) == 1 and res[0][0] == 'E02' and (res[0][2], res[0][3]) == (88, 21) and 'ghost' in res[0][1] \
        and not any(str(d) in res[0][1] for d in (88, 21))
    rec('producers', 'E02 for a name absent from the table', ok, 'a read whose name is absent from names_at(position) must give '
        'exactly one E02 at its own position; got %s' % (res if res is not None else exc,), 'name not in table -> E02 at np(read)')
    asked = [c for c in st.calls if c[0] == 'names_at']
    ok = bool(asked) and all(tuple(c[2]) == (88, 21) for c in asked if isinstance(c[2], tuple)) and all(isinstance(c[2], tuple) for c in asked)
    rec('lookup', 'table is names_at(position of the read)', ok, 'lint must consult names_at of the read\'s own region at the '
        'read\'s own position (88, 21); asked: %s' % ([c[2] for c in asked],), 'lint: read.flow.names_at(np(read))[read.id]')

    # two reads on one line of one region: each consults the table at its own position
    late = _mk(st, 'AssignedName', 'late', fn_scope, (88, 10), (88, 14))
    late.attrs['used'] = True
    r1 = st.read('other', 88, 4)
    r2 = st.read('late', 88, 30)
    shared = r1.attrs['flow']
    r2.attrs['flow'] = shared

    def names_at(it, a_, k):
        st.calls.append(('names_at', None, a_[0]))
        return {'other': other, 'late': late} if tuple(a_[0]) >= (88, 14) else {'other': other}
    shared.attrs['names_at'] = Native('names_at', names_at)
    st.usages = [r1, r2]
    res, exc = _safe_lint(st)
    rec('lookup', 'two reads on one line consult the table at their own columns', res == [],
        '`late` is bound between two reads of the same line and region; the second read (88, 30) must be looked up in the '
        'table at its own position, not one computed for the first read (88, 4); got %s' % (res if res is not None else exc,),
        'same line, same region: one names_at(position) per read')

    # a name rebound between two reads of one line: each read is looked up at its own position and marks its own binding
    oldb = _mk(st, 'AssignedName', 'value', fn_scope, (87, 4), (87, 9))
    newb = _mk(st, 'AssignedName', 'value', fn_scope, (88, 0), (88, 20))
    r1 = st.read('value', 88, 8)
    r2 = st.read('value', 88, 35)
    shared2 = r1.attrs['flow']
    r2.attrs['flow'] = shared2
    shared2.attrs['names_at'] = Native('names_at', lambda it, a_, k: {'value': newb} if tuple(a_[0]) >= (88, 20) else {'value': oldb})
    st.scope = st.obj('SourceScope', 'analysed scope', all_names=[(shared2, oldb), (shared2, newb)])
    st.usages = [r1, r2]
    res, exc = _safe_lint(st)
    rec('lookup', 'a name rebound between two reads of one line: both bindings are used', res == [],
        '`value = value.strip(); return value.lower()` on one line: the first read refers to the earlier binding, the second to the '
        'new one; a table kept per line serves the second read the stale entry and the new binding is reported unused; got %s'
        % (res if res is not None else exc,), 'same line, rebinding between the reads: per-read lookup')
    st.scope = st.obj('SourceScope', 'analysed scope', all_names=[])

    found = _mk(st, 'AssignedName', 'ghost', fn_scope)
    st.scope = st.obj('SourceScope', 'analysed scope', all_names=[(flow, found)])
    st.usages = [st.read('ghost', 88, 21, {'ghost': found, 'other': other})]
    res, exc = _safe_lint(st)
    rec('producers', 'no diagnostic for a found name', res == [], 'a read found in the table, whose binding is thereby used, must '
        'give no diagnostic; got %s' % (res if res is not None else exc,), 'name in table -> no E02, binding marked used')

    # --- every alternative is marked ------------------------------------------------------------------
    alts = [_mk(st, 'AssignedName', 'multi', fn_scope, (10 + i, 4), (10 + i, 9)) for i in range(3)]
    mn = st.it.call(st.it.lookup_global('supp/name.py', 'MultiName'), [list(alts)], {})
    st.scope = st.obj('SourceScope', 'analysed scope', all_names=[(flow, x) for x in alts])
    st.usages = [st.read('multi', 88, 21, {'multi': mn})]
    res, exc = _safe_lint(st)
    unmarked = [x.attrs['declared_at'] for x in alts if not x.attrs.get('used')]
    rec('marks', 'every alternative of a union is marked used', res == [] and not unmarked,
        'a read resolving to three alternative bindings must mark all three as used; unmarked: %s, diagnostics: %s'
        % (unmarked, res if res is not None else exc), 'union of 3 alternatives: all marked')

    imp = _mk(st, 'ImportedName', 'pkg', fn_scope, qualified=True, module='pkg.sub')
    st.scope = st.obj('SourceScope', 'analysed scope', all_names=[(flow, imp)])
    st.usages = [st.read('pkg', 88, 21, {'pkg': imp})]
    res, exc = _safe_lint(st)
    rec('marks', 'a read dotted import is marked used', res == [] and imp.attrs.get('used'),
        'a function-level `import pkg.sub` that is read must be marked used; diagnostics: %s' % (res if res is not None else exc,))

    # --- locals() ----------------------------------------------------------------------------------------
    outer = st.scope_chain('function', 'function')
    rd = st.read('locals', 88, 21)
    own = rd.attrs['flow'].attrs['scope']
    mine1 = _mk(st, 'AssignedName', 'mine', own, (80, 4), (80, 8))
    theirs = _mk(st, 'AssignedName', 'theirs', outer, (70, 4), (70, 10))
    builtin = st.obj('RuntimeName', 'builtin locals', name='locals', location=(0, 0))
    br = [_mk(st, 'AssignedName', 'branchy', outer, (72 + i, 8), (72 + i, 15)) for i in range(2)]
    brm = st.it.call(st.it.lookup_global('supp/name.py', 'MultiName'), [list(br)], {})
    table = {'locals': builtin, 'mine': mine1, 'theirs': theirs, 'branchy': brm}
    rd.attrs['flow'].attrs['names_at'] = Native('names_at', lambda it, a_, k: dict(table))
    f2 = st.obj('Flow', 'outer region', scope=outer)
    st.scope = st.obj('SourceScope', 'analysed scope', all_names=[(rd.attrs['flow'], mine1), (f2, theirs)] + [(f2, x) for x in br])
    st.usages = [rd]
    res, exc = _safe_lint(st)
    got = sorted((r[0], r[2], r[3]) for r in res) if res is not None else exc
    rec('locals', 'locals() marks the bindings of its own scope only', got == [('W01', 70, 4), ('W01', 72, 8), ('W01', 73, 8)],
        'a call of the builtin locals() must mark as used exactly the bindings of the scope it is made in: expected the '
        'enclosing function\'s `theirs`@(70,4) and both alternatives of its `branchy`@(72,8),(73,8) to be reported and the own '
        '`mine` not, got %s' % (got,),
        'locals(): marks n for n in names_at(read) if n.scope is the scope of the call')
    shadow = _mk(st, 'AssignedName', 'locals', own, (60, 4), (60, 10))
    table2 = {'locals': shadow, 'mine': mine1}
    mine1.attrs.pop('used', None)
    rd.attrs['flow'].attrs['names_at'] = Native('names_at', lambda it, a_, k: dict(table2))
    st.scope = st.obj('SourceScope', 'analysed scope', all_names=[(rd.attrs['flow'], mine1), (rd.attrs['flow'], shadow)])
    res, exc = _safe_lint(st)
    got = [(r[0], r[2], r[3]) for r in res] if res is not None else exc
    rec('locals', 'a user binding named locals is an ordinary name', got == [('W01', 80, 4)],
        'reading a user-defined `locals` marks only that binding: expected `mine`@(80,4) reported, got %s' % (got,))
    repo._lint_model = out
    return out


def apply(res, records, mapping, rel, line):
    """mapping: tag -> rule id.  Emit the records of the mapped tags as obligations of `res`."""
    n = 0
    for tag, key, ok, msg, sample in records:
        rule = mapping.get(tag)
        if rule is None:
            continue
        n += 1
        res.check(rule, key, ok, rel, line, msg, sample=sample)
    return n


def all_names_model(repo):
    """SourceScope.all_names on a scope built through supp's own constructors: three regions (one empty), three
    bindings; the enumeration must yield each stored binding object exactly once, paired with its own region."""
    from . import resolve_model as RM
    m = RM.get_model(repo)
    out = []
    try:
        top = m.scope('SourceScope', Obj(m.cls('BaseScope'), {'names': {}}, 'builtins'))
        f0 = m.get(top, 'flow')
        f1 = m.it.call(m.it.getattr(top, 'add_flow'), [m.flow('one', top, [f0])], {})
        f2 = m.it.call(m.it.getattr(top, 'add_flow'), [m.flow('two', top, [f1])], {})
        a, b, c = m.name('a', (1, 0)), m.name('b', (2, 0)), m.name('c', (3, 0))
        m.add(f0, a)
        m.add(f2, c)
        m.add(f2, b)
        got = list(m.it.iterate(m.get(top, 'all_names')))
        pairs = sorted((x[0].oid, x[1].oid) for x in got)
        want = sorted([(f0.oid, a.oid), (f2.oid, b.oid), (f2.oid, c.oid)])
        out.append(('all_names', 'all_names yields every stored binding once with its region', pairs == want,
                    'SourceScope.all_names must enumerate each stored binding object exactly once, paired with the region it '
                    'was added to (3 bindings in 2 of 3 regions): got %d pairs %s' % (len(got), got),
                    'all_names: each (region, binding) once'))
    except InterpRaise as e:
        out.append(('all_names', 'all_names yields every stored binding once with its region', False,
                    'SourceScope.all_names raises %s' % e, None))
    return out


# ---------------------------------------------------------------------------
# assist
# ---------------------------------------------------------------------------

import string as _string

IDENT_CHARS = set(_string.ascii_letters + _string.digits + '_')


def ident_run(text):
    i = len(text)
    while i > 0 and text[i - 1] in IDENT_CHARS:
        i -= 1
    return text[i:]


class AssistStubs(Stubs):
    """Stubs for assistant.assist / assistant.location: the cursor finders, the analysis and the evaluator are
    replaced; Source, the prefix computation, package-name arithmetic and the result formatting are interpreted."""
    def __init__(self, repo, order='fwd'):
        Stubs.__init__(self, repo, order)
        env = self.it.module_env(ASSIST)
        self.mark = self.it.lookup_global(UTIL, 'SOURCE_MARK')
        if not isinstance(self.mark, str) or not self.mark:
            raise AnalysisError('util.SOURCE_MARK is not a string constant')
        self.marked_import = None
        self.marked_name = None
        self.marked_attr = None
        self.value = None
        self.decls = []
        for fname, attr in (('get_marked_import', 'marked_import'), ('get_marked_name', 'marked_name'),
                            ('get_marked_atribute', 'marked_attr'), ('get_marked_attribute', 'marked_attr')):
            if fname in env or fname != 'get_marked_attribute':
                env[fname] = Native(fname, lambda it, a, k, _f=fname, _a=attr: self._finder(_f, _a))
        env['EvalCtx'] = Native('EvalCtx', lambda it, a, k: self.ctx)
        self.ctx = self.obj(None, 'ctx', evaluate=Native('evaluate', self._evaluate),
                            declarations=Native('declarations', self._declarations))
        self.project = self.obj(None, 'project', norm_package=Native('norm_package', self._norm_package),
                                list_packages=Native('list_packages', self._list_packages),
                                get_nmodule=Native('get_nmodule', self._get_nmodule))
        self.packages = {}
        self.modules = {}
        self.scope = self.marked_scope()

    def marked_scope(self):
        top = self.obj('SourceScope', 'scope of the marked source', source=self.obj(None, 'source', filename='/p/this.py'))
        top.attrs['top'] = top
        return top

    def _finder(self, fname, attr):
        self.calls.append((fname,))
        return getattr(self, attr)

    def _evaluate(self, it, a, k):
        self.calls.append(('evaluate', a[0]))
        return self.value

    def _declarations(self, it, a, k):
        self.calls.append(('declarations', a[0]))
        return list(self.decls)

    def _norm_package(self, it, a, k):
        self.calls.append(('norm_package', a[0], a[1] if len(a) > 1 else None))
        if a[0] == 'unresolvable':
            raise InterpRaise('ImportError', 'no such package')
        return a[0]

    def _list_packages(self, it, a, k):
        self.calls.append(('list_packages', a[0]))
        return set(self.packages.get(a[0], ()))

    def _get_nmodule(self, it, a, k):
        self.calls.append(('get_nmodule', a[0]))
        if a[0] not in self.modules:
            raise InterpRaise('ImportError', 'no module %s' % a[0])
        return self.modules[a[0]]

    def reset(self):
        self.scope = self.marked_scope()
        self.marked_import = self.marked_name = self.marked_attr = self.value = None
        self.calls = []
        self.decls = []

    def assist(self, text, pos):
        self.calls = []
        try:
            r = self.call(ASSIST, 'assist', self.project, text, pos, '/p/this.py')
        except InterpRaise as e:
            return None, '%s: %s' % (e.exc_name, e.msg)
        return r, None

    def name_node(self, ident, table, asked=None):
        def names_at(it, a, k):
            if asked is not None:
                asked.append(a[0])
            return table
        flow = self.obj('Flow', 'region of the cursor', names_at=Native('names_at', names_at))
        n = self.obj(None, 'marked name', id=ident, lineno=2, col_offset=4, flow=flow)
        n.astcls = 'Name'
        return n


def assist_model(repo):
    """-> records (tag, key, ok, msg, sample); tags: prefix, sorted, unique, clean, source, shape, pkg."""
    return repo.memo('assist-model', lambda: both_orders(lambda order: _assist_model(repo, order)))


def _assist_model(repo, order='fwd'):
    st = AssistStubs(repo, order)
    M = st.mark
    out = []

    def rec(tag, key, ok, msg, sample=None):
        out.append((tag, key, bool(ok), msg, sample))

    def pair(r):
        return isinstance(r, tuple) and len(r) == 2 and isinstance(r[0], str) and isinstance(r[1], list)

    # --- prefix: one probe per ASCII character, cursor in the middle line of three ----------------------------------
    table = {'zeta': 1, 'alpha': 2}
    probes = [chr(c) for c in range(32, 127)]
    bad_shape = None
    for c in probes:
        if c in '\\':
            left = 'xy = a' + c + 'bcd'
        else:
            left = 'xy = a' + c + 'bcd'
        text = 'first_line = 1\n' + left + 'efg + tail\nthird_line = 3\n'
        st.reset()
        st.marked_name = st.name_node('bcd' + M + 'efg', table)
        r, exc = st.assist(text, (2, len(left)))
        want = ident_run(left)
        if exc or not pair(r):
            bad_shape = (c, exc or r)
            rec('prefix', 'prefix after %r' % c, False, 'assist(%r, cursor after `bcd`) %s' % (left, exc or 'returns %r' % (r,)))
            continue
        rec('prefix', 'prefix after %r' % c, r[0] == want,
            'with %r left of the cursor (and `efg` right of it) the prefix must be the trailing identifier run %r, got %r'
            % (left, want, r[0]), 'prefix(%r) = %r' % (left, want))
    for left in ('bcd', '', '    ', 'x = (', 'if a.b', 'x = "str bc', '# comment bc', 'x = 1;bc', '\tbc'):
        st.reset()
        st.marked_name = st.name_node('q' + M, table)
        r, exc = st.assist('a = 1\n' + left + 'RIGHT\n', (2, len(left)))
        want = ident_run(left)
        rec('prefix', 'prefix of %r' % left, not exc and pair(r) and r[0] == want,
            'with %r left of the cursor the prefix must be %r, got %s' % (left, want, exc or (r[0] if pair(r) else r)),
            'prefix(%r) = %r' % (left, want))
    def level_rest(p):
        """how Project.norm_package reads a package argument: number of leading dots, dotted rest"""
        return len(p) - len(p.lstrip('.')), p.strip('.')
    # the cursor line is selected the way the parser numbers lines: a form feed is white space, \r\n is one line end
    for text, pos, want in (('a = 1\n\x0c\nxy = abc', (3, 8), 'abc'), ('a = 1\r\nxy = abc\r\n', (2, 8), 'abc'),
                            ('a = 1\n\nxy = abc\n', (3, 8), 'abc')):
        st.reset()
        st.marked_name = st.name_node('abc' + M, table)
        r, exc = st.assist(text, pos)
        rec('prefix', 'prefix on line %d of %r' % (pos[0], text), not exc and pair(r) and r[0] == want,
            'with the source %r and the cursor at %s the prefix must be %r (lines are numbered as the parser numbers them); got %s'
            % (text, pos, want, exc or (r[0] if pair(r) else r)), 'cursor line selected by parser line numbers')
    for left, want_pkg in (('from pkg.su', (0, 'pkg')), ('from pkg su', None), ('from .rel', (1, '')), ('from ', (0, '')),
                           ('from ..rel.x', (2, 'rel')), ('    from pkg.sub.m', (0, 'pkg.sub')), ('from .', (1, '')), ('from ..', (2, '')),
                           ('from ...al', (3, '')), ('from ....', (4, '')), ('from ...pk.mo', (3, 'pk')), ('from .a.b.c', (1, 'a.b'))):
        st.reset()
        st.packages = {}
        r, exc = st.assist(left, (1, len(left)))
        want = ident_run(left)
        rec('prefix', 'prefix of import line %r' % left, not exc and pair(r) and r[0] == want,
            'on the import line %r the prefix must be %r, got %s' % (left, want, exc or (r[0] if pair(r) else r)),
            'prefix(%r) = %r' % (left, want))
        if want_pkg is not None and not exc and pair(r):
            asked = [c[1] for c in st.calls if c[0] == 'norm_package']
            rec('pkg', 'package whose children are proposed on %r' % left, [level_rest(a) for a in asked] == [want_pkg],
                'on the import line %r the children of the package at relative level %d, path %r must be proposed; norm_package was '
                'asked for %s' % (left, want_pkg[0], want_pkg[1], asked), '%r -> level %d, package %r' % (left, want_pkg[0], want_pkg[1]))
    # `import` directly followed by a parenthesis is valid Python: the prefix is still the identifier run
    for left in ('from os.path import(jo', 'from os.path import (jo', 'from os.path import a, jo', 'from os import path as pa'):
        st.reset()
        st.marked_import = ('os.path', 'jo')
        st.packages = {'os.path': []}
        r, exc = st.assist(left, (1, len(left)))
        want = ident_run(left)
        rec('prefix', 'prefix of import line %r' % left, not exc and pair(r) and r[0] == want,
            'on the import line %r the prefix must be %r, got %s' % (left, want, exc or (r[0] if pair(r) else r)),
            'prefix(%r) = %r' % (left, want))
    # a line that starts with `from` need not be an import: the continuation line of `raise ... from` / `yield from`
    asked_c = []
    for text, pos in (('def f(err):\n    raise ValueError(1) \\\n        from er\n', (3, 15)),
                      ('def g(gen_a):\n    x = (yield\n        from gen_\n    )\n', (3, 17))):
        st.reset()
        st.packages = {'': ['pkg_x'], 'er': ['sub'], 'gen_': ['sub']}
        ident = text.splitlines()[pos[0] - 1][:pos[1]].split()[-1]
        st.marked_name = st.name_node(ident + M, {'err': 1, 'gen_a': 2, 'other': 3}, asked_c)
        r, exc = st.assist(text, pos)
        rec('branch', 'a continuation line starting with `from` is not an import line (%r)' % text.splitlines()[pos[0] - 1].strip(),
            not exc and pair(r) and r[0] == ident and set(r[1]) == {'err', 'gen_a', 'other'},
            'with the cursor at the end of the last line of %r (the statement parses: it is `raise ... from` / `yield from`, not an import) the '
            'visible names must be proposed with the prefix %r; got %s' % (text, ident, exc or (r,)), 'raise/yield ... from <name>')
    st.reset()
    st.packages = {'pkg': ['zz', 'aa', 'zz2']}
    r, exc = st.assist('from pkg.z', (1, 10))
    rec('pkg', 'packages proposed on an import line are sorted', not exc and pair(r) and r[1] == ['aa', 'zz', 'zz2'],
        '`from pkg.z|` must propose the sorted children of pkg; got %s' % (exc or (r,)))

    # --- name branch: proposals are the keys of names_at(cursor) of the marked read's region ---------------------------
    asked = []
    table = {'zeta': 1, 'mid' + M + 'dle': 2, 'alpha': 3, 'middle': 4, 'beta': 5, 'Beta': 6, 'ALPHA': 7, M: 8}
    st.reset()
    st.marked_name = st.name_node('mi' + M, table, asked)
    left = 'x = mi'
    r, exc = st.assist('a = 1\n' + left + '\n', (2, len(left)))
    want = ['ALPHA', 'Beta', 'alpha', 'beta', 'middle', 'zeta']
    if exc or not pair(r):
        rec('shape', 'name branch returns (prefix, list)', False, 'assist on a bare name %s' % (exc or 'returns %r' % (r,)))
    else:
        got = r[1]
        rec('source', 'name branch proposes the visible names at the cursor', set(unm(x, M) for x in got) - {''} == set(want)
            and [tuple(a) for a in asked] == [(2, len(left))],
            'for a cursor at the end of a bare name the proposals must be the keys of names_at(cursor position) of the '
            'marked read\'s own region: asked names_at%s, proposed %s' % (asked, got), 'assist: marked.flow.names_at(position)')
        rec('sorted', 'name branch sorted', got == sorted(got), 'proposals %s are not sorted' % got, 'sorted proposals')
        rec('unique', 'name branch duplicate-free', len(got) == len(set(got)), 'proposals %s contain duplicates (a binding whose '
            'identifier contains the cursor collapses with its plain form)' % got)
        rec('clean', 'name branch carries no cursor marker', not any(M in x for x in got),
            'proposals %s contain the internal cursor marker' % got, 'no marker in proposals')
        rec('ident', 'name branch proposes identifiers only', all(isinstance(x, str) and x.isidentifier() for x in got),
            'every proposal must be an identifier; a binding whose whole identifier is the cursor (the name being typed) leaves an '
            'empty string after un-marking: %s' % got, 'proposals are identifiers')

    # --- attribute branch -----------------------------------------------------------------------------------------------
    for label, container in (('list with duplicates', ['beta', 'alpha', 'beta', 'x' + M + 'y', 'xy', 'Alpha', M]),
                             ('dict', {'beta': 1, 'alpha': 2, 'x' + M + 'y': 3, 'Beta': 4, M: 5}),
                             ('set', {'beta', 'alpha', 'x' + M + 'y', 'Alpha', 'BETA', M})):
        st.reset()
        vnode = st.obj(None, 'expr')
        vnode.astcls = 'Name'
        anode = st.obj(None, 'marked attribute', value=vnode, attr='al' + M)
        anode.astcls = 'Attribute'
        st.marked_attr = anode
        got_ctx = []
        st.value = st.obj(None, 'value of expr',
                          attr_list=Native('attr_list', lambda it, a, k, _c=container: (got_ctx.append(a), _c)[1]))
        left = 'x = expr.al'
        r, exc = st.assist(left + '\n', (1, len(left)))
        if exc or not pair(r):
            rec('shape', 'attribute branch returns (prefix, list) [%s]' % label, False,
                'assist after `expr.` %s' % (exc or 'returns %r' % (r,)))
            continue
        got = r[1]
        ev = [c[1] for c in st.calls if c[0] == 'evaluate']
        rec('source', 'attribute branch proposes attr_list of the evaluated expression [%s]' % label,
            set(unm(x, M) for x in got) | {''} == set(unm(x, M) for x in container) | {''} and ev == [vnode],
            'for a cursor after `expr.` the proposals must be the attributes of evaluate(expr): evaluated %s, proposed %s' % (ev, got),
            'assist: evaluate(attr.value).attr_list(ctx)')
        rec('sorted', 'attribute branch sorted [%s]' % label, got == sorted(got), 'proposals %s are not sorted' % got)
        rec('unique' if label != 'list with duplicates' else 'unique-sink', 'attribute branch duplicate-free [%s]' % label,
            len(got) == len(set(got)), 'proposals %s contain duplicates' % got)
        rec('clean', 'attribute branch carries no cursor marker [%s]' % label, not any(M in x for x in got),
            'proposals %s contain the internal cursor marker' % got)
        rec('ident', 'attribute branch proposes identifiers only [%s]' % label, all(isinstance(x, str) and x.isidentifier() for x in got),
            'every proposal must be an identifier; `self.| = 1` records an attribute named by the bare cursor marker, which un-marks '
            'to the empty string: %s' % got)
    st.reset()
    vnode = st.obj(None, 'expr')
    anode = st.obj(None, 'marked attribute', value=vnode, attr=M)
    anode.astcls = 'Attribute'
    st.marked_attr = anode
    st.value = None
    r, exc = st.assist('x = expr.\n', (1, 9))
    rec('shape', 'attribute of an unknown value', not exc and r == ('', []), 'assist after `expr.` where expr evaluates to nothing must '
        'return ("", []); got %s' % (exc or (r,)))
    st.reset()
    r, exc = st.assist('x = 1 + \n', (1, 8))
    rec('shape', 'no name at the cursor', not exc and r == ('', []), 'assist where no name is marked must return ("", []); got %s'
        % (exc or (r,)))

    # --- import branches ----------------------------------------------------------------------------------------------------
    st.reset()
    st.packages = {'pkg': ['zz', 'aa']}
    st.marked_import = ('pkg.a', None)
    r, exc = st.assist('import pkg.a\n', (1, 12))
    rec('pkg', 'import pkg.a| proposes the packages of pkg', not exc and r == ('a', ['aa', 'zz']),
        '`import pkg.a|` must give ("a", sorted sub-packages of pkg); got %s' % (exc or (r,)))
    # several modules on one import statement, with and without white space after the comma, aliases in between
    for left in ('import os,pkg.a', 'import os, pkg.a', 'import os,\tpkg.a', 'import pkg.alpha as al,pkg.a', 'import os;import sys,pkg.a',
                 '    import os,pkg.a'):
        st.reset()
        st.packages = {'pkg': ['zz', 'aa'], 'os': ['path']}
        st.marked_import = ('pkg.a', None)
        r, exc = st.assist(left + '\n', (1, len(left)))
        rec('pkg', '%r proposes the packages of pkg' % left, not exc and r == ('a', ['aa', 'zz']),
            'with the cursor at the end of %r the sub-packages of pkg must be proposed with the prefix "a" (the module under the cursor '
            'is pkg.a, whatever precedes it on the line); got %s' % (left, exc or (r,)), '%r -> children of pkg' % left)
    st.reset()
    st.packages = {'pkg': ['zz', 'aa']}
    st.marked_import = ('pkg.abcd', None)
    r, exc = st.assist('import pkg.abcd\n', (1, 13))
    rec('prefix', 'prefix inside an imported name', not exc and pair(r) and r[0] == 'ab',
        'for `import pkg.ab|cd` the prefix is `ab` (text left of the cursor), not the whole last component; got %s' % (exc or (r,)))
    st.reset()
    st.packages = {'pkg': ['zz', 'aa', 'dup', 'cls']}
    st.modules = {'pkg': st.obj(None, 'module pkg', attr_list=Native('attr_list', lambda it, a, k: {'fn', 'dup', 'Cls'}))}
    st.marked_import = ('pkg', 'f')
    r, exc = st.assist('from pkg import f\n', (1, 17))
    rec('pkg', 'from pkg import f| proposes sub-packages and module members', not exc and pair(r) and r[0] == 'f'
        and sorted(set(unm(x, M) for x in r[1])) == ['Cls', 'aa', 'cls', 'dup', 'fn', 'zz'],
        '`from pkg import f|` must propose the sub-packages and the members of pkg; got %s' % (exc or (r,)))
    if not exc and pair(r):
        rec('sorted', 'from-import branch sorted', r[1] == sorted(r[1]), 'proposals %s are not sorted' % r[1])
        rec('unique', 'from-import branch duplicate-free', len(r[1]) == len(set(r[1])), 'proposals %s contain duplicates (a name that '
            'is both a sub-package and a member)' % r[1])
    st.reset()
    st.packages = {'pkg': ['zz', 'aa']}
    st.modules = {}
    st.marked_import = ('pkg', 'f')
    r, exc = st.assist('from pkg import f\n', (1, 17))
    rec('pkg', 'from pkg import f| with an unimportable pkg', not exc and r == ('f', ['aa', 'zz']),
        'an unimportable module in `from pkg import f|` must still give the sub-packages; got %s' % (exc or (r,)))
    st.reset()
    st.marked_import = ('unresolvable.x', None)
    r, exc = st.assist('import unresolvable.x\n', (1, 21))
    rec('pkg', 'unresolvable package gives no proposals', not exc and r == ('x', []) or (not exc and pair(r) and r[1] == []),
        'a package that cannot be normalised must give an empty proposal list, not an exception; got %s' % (exc or (r,)))
    return out


def unm(x, mark):
    return x.replace(mark, '') if isinstance(x, str) else x


# ---------------------------------------------------------------------------
# location (go to definition)
# ---------------------------------------------------------------------------

def location_model(repo):
    return repo.memo('location-model', lambda: both_orders(lambda order: _location_model(repo, order)))


def _flat(x):
    for e in x:
        if isinstance(e, list):
            for y in _flat(e):
                yield y
        else:
            yield e


def _location_model(repo, order='fwd'):
    st = AssistStubs(repo, order)
    out = []

    def rec(tag, key, ok, msg, sample=None):
        out.append((tag, key, bool(ok), msg, sample))

    def run(text, pos):
        st.calls = []
        try:
            return st.call(ASSIST, 'location', st.project, text, pos, '/p/this.py'), None
        except InterpRaise as e:
            return None, '%s: %s' % (e.exc_name, e.msg)

    def nm(label, decl, fname, loc=None):
        return st.obj('AssignedName', label, name=label, declared_at=decl, location=loc or (decl[0], decl[1] + 7), filename=fname,
                      value_node=None)

    n1 = nm('one', (11, 4), '/p/a.py')
    n2 = nm('two', (22, 8), '/p/b.py')
    n3 = nm('three', (33, 0), '/p/c.py')
    n4 = nm('four', (44, 2), '/p/d.py')
    runtime = st.obj('RuntimeName', 'builtin without position', name='len')
    node = st.name_node('x', {})
    # single definition, then a group of alternatives, then an import chain element
    st.reset()
    st.marked_name = node
    st.decls = [n1, [n2, n3], n4]
    r, exc = run('x\n', (1, 1))
    want = [{'loc': (11, 4), 'file': '/p/a.py'}, [{'loc': (22, 8), 'file': '/p/b.py'}, {'loc': (33, 0), 'file': '/p/c.py'}],
            {'loc': (44, 2), 'file': '/p/d.py'}]
    asked = [c[1] for c in st.calls if c[0] == 'declarations']
    rec('pairs', 'each definition is reported with its own declared_at and file', not exc and r == want,
        'go-to-definition on declarations [one@(11,4) a.py, [two@(22,8) b.py, three@(33,0) c.py], four@(44,2) d.py] must give '
        'exactly these positions, each paired with the file of the same object, in the same order and grouping; got %s'
        % (exc or r,), "location: {'loc': n.declared_at, 'file': n.filename} per declaration, alternatives grouped in order")
    rec('asks', 'location asks for the declarations of the marked node', asked == [node],
        'location must ask EvalCtx.declarations for the marked name; asked %s' % asked)
    # objects without a source position are left out, the others keep their order
    st.reset()
    st.marked_name = node
    st.decls = [runtime, n1, [n2, runtime, n3]]
    r, exc = run('x\n', (1, 1))
    flat = [x for x in _flat(r) if x is not None] if r is not None else None
    rec('pairs', 'objects without a position do not disturb the others', not exc and flat == [want[0]] + want[1],
        'a runtime object among the declarations must not produce a position and must not disturb the other entries; got %s'
        % (exc or r,))
    # the analysed source has the cursor marker spliced in: positions of *its* bindings right of the cursor on the cursor
    # line are shifted by the marker's length in the analysis and must be reported in the coordinates of the user's file
    ML = len(st.mark)
    marked_top = st.obj('SourceScope', 'scope of the marked source', source=st.obj(None, 'source', filename='/p/this.py'))
    marked_top.attrs['top'] = marked_top
    fscope = st.obj('FuncScope', 'function in the marked source', top=marked_top, parent=marked_top)
    disk_top = st.obj('SourceScope', 'same file loaded from disk', source=st.obj(None, 'source', filename='/p/this.py'))
    disk_top.attrs['top'] = disk_top

    def nm2(label, decl, scope):
        o = st.obj('AssignedName', label, name=label, declared_at=decl, location=(decl[0], decl[1] + 7), value_node=None, scope=scope)
        return o
    right = nm2('right of the cursor', (3, 30 + ML), fscope)
    leftn = nm2('left of the cursor', (3, 2), fscope)
    below = nm2('on a later line', (4, 30), fscope)
    other = nm2('same line in the unmarked copy', (3, 30), disk_top)
    st.reset()
    st.scope = marked_top
    st.marked_name = node
    st.decls = [[leftn, right, below], other]
    r, exc = run('a\nb\n  xx = f(x); yyyyyyyyyyyyyyyyyyyyyy = 1\n', (3, 11))
    wantm = [[{'loc': (3, 2), 'file': '/p/this.py'}, {'loc': (3, 30), 'file': '/p/this.py'}, {'loc': (4, 30), 'file': '/p/this.py'}],
             {'loc': (3, 30), 'file': '/p/this.py'}]
    rec('marker-shift', 'positions right of the cursor are reported in the coordinates of the unmarked file', not exc and r == wantm,
        'with the cursor at (3, 11), bindings of the analysed (cursor-marked) source at marked columns 2, 30+%d (line 3) and 30 (line 4) '
        'and a binding of an unmarked copy at (3, 30) must be reported at columns 2, 30, 30 and 30: the marker spliced in at the '
        'cursor shifts only the analysed source\'s own positions right of the cursor on its line; got %s' % (ML, exc or r),
        'location: column - len(marker) for the marked source right of the cursor')
    # attribute node when no name is marked
    st.reset()
    anode = st.obj(None, 'marked attribute', value=node, attr='attr')
    anode.astcls = 'Attribute'
    st.marked_attr = anode
    st.decls = [n2]
    r, exc = run('x.attr\n', (1, 6))
    asked = [c[1] for c in st.calls if c[0] == 'declarations']
    rec('asks', 'location falls back to the marked attribute', not exc and r == [want[1][0]] and asked == [anode],
        'with no marked name, location must ask for the declarations of the marked attribute; asked %s, got %s' % (asked, exc or r))
    st.reset()
    r, exc = run('1 + 2\n', (1, 2))
    rec('asks', 'nothing marked gives no location', not exc and r == [], 'location where nothing is marked must return []; got %s'
        % (exc or r,))
    # import branches
    mod = st.obj('SourceModule', 'module pkg.sub', name='pkg.sub')
    member = nm('member', (5, 4), '/p/pkg/sub.py')
    mod.attrs['get_attr'] = Native('get_attr', lambda it, a, k: member if a[1] == 'member' else None)
    st.reset()
    st.modules = {'pkg.sub': mod, 'pkg': st.obj('SourceModule', 'module pkg', name='pkg',
                                                get_attr=Native('get_attr', lambda it, a, k: None))}
    st.marked_import = ('pkg.sub', None)
    st.decls = [n3]
    r, exc = run('import pkg.sub\n', (1, 12))
    asked = [c[1] for c in st.calls if c[0] == 'declarations']
    rec('import', '`import pkg.sub|` goes to the module', not exc and asked == [mod] and r == [want[1][1]],
        '`import pkg.sub|` must ask for the declarations of module pkg.sub; asked %s, got %s' % (asked, exc or r))
    st.marked_import = ('pkg.sub', 'member')
    r, exc = run('from pkg.sub import member\n', (1, 24))
    asked = [c[1] for c in st.calls if c[0] == 'declarations']
    rec('import', '`from pkg.sub import member|` goes to the member', not exc and asked == [member],
        '`from pkg.sub import member|` must ask for the declarations of the member binding; asked %s, got %s' % (asked, exc or r))
    st.marked_import = ('pkg', 'sub')
    r, exc = run('from pkg import sub\n', (1, 17))
    asked = [c[1] for c in st.calls if c[0] == 'declarations']
    rec('import', '`from pkg import sub|` falls back to the sub-module', not exc and asked == [mod],
        '`from pkg import sub|` where pkg has no attribute sub must go to the module pkg.sub; asked %s, got %s' % (asked, exc or r))
    st.marked_import = ('nowhere', None)
    r, exc = run('import nowhere\n', (1, 12))
    rec('import', 'an unimportable module gives no location', not exc and r == [],
        '`import nowhere|` must return [] (ImportError handled); got %s' % (exc or r,))
    return out


# ---------------------------------------------------------------------------
# EvalCtx.evaluate / declarations
# ---------------------------------------------------------------------------

EVAL = 'supp/evaluator.py'


class EvalStubs(Stubs):
    def __init__(self, repo, order='fwd'):
        Stubs.__init__(self, repo, order)

    def ctx(self):
        return self.it.instantiate(self.cls('EvalCtx'), [Unknown('project')], {})

    def sentinel(self, label='sentinel value'):
        return self.obj('Object', label)

    def ast_name(self, ident, table, asked=None):
        def names_at(it, a, k):
            if asked is not None:
                asked.append(a[0])
            return table
        flow = self.obj('Flow', 'region', names_at=Native('names_at', names_at))
        n = self.obj(None, 'read ' + ident, id=ident, lineno=7, col_offset=3, flow=flow)
        n.astcls = 'Name'
        return n

    def run(self, ctx, meth, *args):
        self.it.steps = 0
        self.it.call_depth = 0
        try:
            return self.it.call(self.it.getattr(ctx, meth), list(args), {}), None
        except InterpRaise as e:
            return None, '%s: %s' % (e.exc_name, e.msg)
        except Uninterpretable as e:
            if any(w in str(e) for w in ('unbounded', 'budget', 'depth exceeded')):
                return None, 'NO TERMINATION (%s)' % e
            raise


def evaluate_model(repo):
    return repo.memo('evaluate-model', lambda: both_orders(lambda order: _evaluate_model(repo, order)))


def _evaluate_model(repo, order='fwd'):
    st = EvalStubs(repo, order)
    facts = st.facts
    out = []

    def rec(tag, key, ok, msg, sample=None):
        out.append((tag, key, bool(ok), msg, sample))
    S = st.sentinel()
    # --- AST forms -----------------------------------------------------------------------------------------------------
    asked = []
    n = st.ast_name('x', {'x': S, 'y': st.sentinel('other')}, asked)
    r, exc = st.run(st.ctx(), 'evaluate', n)
    rec('dispatch', 'evaluate(ast.Name)', r is S and [tuple(a) for a in asked] == [(7, 3)],
        'a name read must evaluate to the value of the entry names_at(its position) holds for its identifier; asked %s, got %s'
        % (asked, exc or r), 'evaluate(Name) -> evaluate(names_at(np(node))[id])')
    r, exc = st.run(st.ctx(), 'evaluate', st.ast_name('x', {'y': S}))
    rec('dispatch', 'evaluate(ast.Name) of an unknown identifier', not exc and r is None,
        'a read whose identifier is absent from the table evaluates to nothing; got %s' % (exc or r,))
    recv = st.obj('Object', 'receiver value', get_attr=Native('get_attr', lambda it, a, k: S if a[1] == 'attr' else None))
    an = st.obj(None, 'attribute node', value=recv, attr='attr')
    an.astcls = 'Attribute'
    r, exc = st.run(st.ctx(), 'evaluate', an)
    rec('dispatch', 'evaluate(ast.Attribute)', r is S, 'expr.attr must evaluate to evaluate(expr).get_attr(ctx, "attr") evaluated; '
        'got %s' % (exc or r,), 'evaluate(Attribute) -> evaluate(evaluate(value).get_attr(attr))')
    fn = st.obj('FuncObject', 'callee', call=Native('call', lambda it, a, k: S))
    cn = st.obj(None, 'call node', func=fn)
    cn.astcls = 'Call'
    r, exc = st.run(st.ctx(), 'evaluate', cn)
    rec('dispatch', 'evaluate(ast.Call)', r is S, 'f(...) must evaluate to evaluate(f).call(ctx); got %s' % (exc or r,),
        'evaluate(Call) -> evaluate(func).call(ctx)')
    kn = st.obj(None, 'constant node', value=42, s=42)
    kn.astcls = 'Constant'
    r, exc = st.run(st.ctx(), 'evaluate', kn)
    rec('dispatch', 'evaluate(ast.Constant)', isinstance(r, Obj) and r.cls.name == 'RuntimeName',
        'a literal must evaluate to a RuntimeName wrapping its value; got %s' % (exc or r,), 'evaluate(Constant) -> RuntimeName')
    # --- supp classes ---------------------------------------------------------------------------------------------------
    nd = 0
    for c in sorted(facts.classes.values(), key=lambda c: c.name):
        names = [k.name for k in c.mro()]
        if c.name in ('Resolvable', 'Object', 'Callable', 'Name', 'UndefinedName'):
            continue
        if c.name == 'AssignedName':
            o = st.obj(c.name, 'an AssignedName', value_node=S, resolve=Native('resolve', lambda it, a, k: None))
            want, how = S, 'evaluate(node.value_node)'
        elif c.name == 'ImportedName':
            inner = st.obj('AssignedName', 'binding in the imported module', value_node=S)
            o = st.obj(c.name, 'an ImportedName', resolve=Native('resolve', lambda it, a, k, _i=inner: _i))
            want, how = S, 'evaluate(node.resolve(ctx))'
        elif c.name == 'MultiName':
            a1 = st.obj('AssignedName', 'alt 1', value_node=S)
            S2 = st.sentinel('second value')
            a2 = st.obj('AssignedName', 'alt 2', value_node=S2)
            a3 = st.obj('AssignedName', 'alt 3 (no value)', value_node=None)
            o = st.obj(c.name, 'a MultiName', valid_names=[a1, a2, a3], alt_names=[a1, a2, a3])
            r, exc = st.run(st.ctx(), 'evaluate', o)
            vals = r.attrs.get('values') if isinstance(r, Obj) else None
            nd += 1
            rec('dispatch', 'evaluate(MultiName)', isinstance(r, Obj) and r.cls.name == 'CompositeValue' and vals == [S, S2],
                'a multiply-bound name must evaluate to the composite of the values of all its alternatives, in order; got %s %s'
                % (exc or r, vals), 'evaluate(MultiName) -> CompositeValue([evaluate(n) for n in valid_names])')
            continue
        elif 'Resolvable' in names:
            o = st.obj(c.name, 'a ' + c.name, resolve=Native('resolve', lambda it, a, k: S))
            want, how = S, 'node.resolve(ctx)'
        elif 'Object' in names:
            o = st.obj(c.name, 'a ' + c.name)
            want, how = o, 'node'
        else:
            continue
        nd += 1
        r, exc = st.run(st.ctx(), 'evaluate', o)
        rec('dispatch', 'evaluate(%s)' % c.name, r is want, 'a %s handed to EvalCtx.evaluate must give %s; got %s (the dispatch chain '
            'is order sensitive)' % (c.name, how, exc or r), 'evaluate(%s) -> %s' % (c.name, how))
    rec('dispatch-count', 'dispatch candidates', nd >= 14, 'only %d supp classes were dispatched' % nd)
    # an import cycle between two modules (a imports the name from b, b from a) must end in "nothing", not in a loop
    ia = st.obj('ImportedName', 'from b import thing (in a)')
    ib = st.obj('ImportedName', 'from a import thing (in b)')
    ia.attrs['resolve'] = Native('resolve', lambda it_, a, k: ib)
    ib.attrs['resolve'] = Native('resolve', lambda it_, a, k: ia)
    r, exc = st.run(st.ctx(), 'evaluate', ia)
    rec('guard', 'evaluate terminates on an import cycle', exc is None and r is None,
        'evaluating a name that two modules import from each other must return nothing; got %s %s' % (r, exc or ''),
        'import cycle -> evaluate returns None (re-entrancy guard on every hop)')
    # re-entrancy guard
    loop = st.obj('AssignedName', 'x = x')
    loop.attrs['value_node'] = loop
    r, exc = st.run(st.ctx(), 'evaluate', loop)
    rec('guard', 'evaluate terminates on a self-referential binding', not exc and r is None,
        'evaluate of a binding whose value is itself must return nothing; got %s' % (exc or r,))
    # an exception escaping a nested evaluation (e.g. a module that does not parse) must not poison other contexts
    def failing(it_, a, k):
        raise InterpRaise('SyntaxError', 'the imported module does not parse')
    inner = st.obj('AssignedName', 'binding in a cached module', value_node=S)
    hits = []
    gate = st.obj('ImportedName', 'import evaluated while a module fails', resolve=Native('resolve', lambda it_, a, k: (hits.append(1), failing(it_, a, k))[1] if len(hits) == 0 else inner))
    outer = st.obj('AssignedName', 'cached binding', value_node=gate)
    r1, exc1 = st.run(st.ctx(), 'evaluate', outer)
    r2, exc2 = st.run(st.ctx(), 'evaluate', outer)
    rec('guard', 'a failed evaluation does not leave its nodes in progress for later requests', exc1 is not None and r2 is S,
        'after an evaluation that raised (first request: %s) a new EvalCtx must evaluate the same cached binding normally; the second '
        'request returned %s %s' % (exc1, r2, exc2 or ''), 'in-progress set is per EvalCtx')
    ctx = st.ctx()
    st.run(ctx, 'evaluate', st.obj('AssignedName', 'x', value_node=S))
    rec('guard', 'the in-progress set is empty after evaluate returns', ctx.attrs.get('nodes') in (set(), None) or not ctx.attrs.get('nodes'),
        'after evaluate returns its in-progress set must be empty; holds %s' % (ctx.attrs.get('nodes'),))
    return out


def declarations_model(repo):
    return repo.memo('declarations-model', lambda: both_orders(lambda order: _declarations_model(repo, order)))


def _declarations_model(repo, order='fwd'):
    st = EvalStubs(repo, order)
    out = []

    def rec(tag, key, ok, msg, sample=None):
        out.append((tag, key, bool(ok), msg, sample))

    def nm(label, line):
        return st.obj('AssignedName', label, name='v', location=(line, 5), declared_at=(line, 4), value_node=None)
    a, b, c = nm('first', 3), nm('second', 5), nm('third', 9)
    mk_multi = lambda alts: st.it.call(st.it.lookup_global('supp/name.py', 'MultiName'), [list(alts)], {})
    # plain name
    asked = []
    r, exc = st.run(st.ctx(), 'declarations', st.ast_name('v', {'v': a}, asked), [])
    rec('single', 'declarations(read) of a single binding', r == [a] and [tuple(x) for x in asked] == [(7, 3)],
        'the declarations of a read bound once are [that binding], looked up at the read\'s own position; asked %s got %s'
        % (asked, exc or r), 'declarations(Name) -> [names_at(np(node))[id]]')
    # union: every alternative, in source order
    for perm in ([c, a, b], [b, c, a], [a, b, c]):
        mn = mk_multi(perm)
        r, exc = st.run(st.ctx(), 'declarations', st.ast_name('v', {'v': mn}), [])
        rec('alts', 'declarations(read) of three alternatives (given %s)' % '/'.join(x.label for x in perm), r == [[a, b, c]],
            'the declarations of a read with three alternative bindings must list all three in source order as one group; got %s'
            % (exc or r,), 'declarations(MultiName) -> [all valid alternatives in source order]')
    und = st.it.instantiate(st.cls('UndefinedName'), ['v'], {})
    r, exc = st.run(st.ctx(), 'declarations', st.ast_name('v', {'v': mk_multi([b, und, a])}), [])
    rec('alts', 'the undefined marker is not a declaration', r == [[a, b]], 'a name bound on two of three paths has two declarations; got %s'
        % (exc or r,))
    r, exc = st.run(st.ctx(), 'declarations', st.ast_name('v', {'v': mk_multi([b, und])}), [])
    rec('alts', 'one valid alternative is reported plainly', r == [b], 'a name bound on one of two paths has one declaration; got %s'
        % (exc or r,))
    # import chain
    imp = st.obj('ImportedName', 'import', name='v', location=(1, 0), declared_at=(1, 7), resolve=Native('resolve', lambda it, a_, k: a))
    r, exc = st.run(st.ctx(), 'declarations', st.ast_name('v', {'v': imp}), [])
    rec('chain', 'an import is followed to the imported binding', r == [imp, a],
        'the declarations of an imported name are the import and then what it imports; got %s' % (exc or r,),
        'declarations(ImportedName) -> [import, its target...]')
    cyc = st.obj('ImportedName', 'import of itself', name='v', location=(1, 0), declared_at=(1, 7))
    cyc.attrs['resolve'] = Native('resolve', lambda it, a_, k: cyc)
    r, exc = st.run(st.ctx(), 'declarations', cyc, [])
    rec('cycle', 'an import cycle terminates', r == [cyc], 'the declarations of an import resolving to itself must be [that import]; got %s'
        % (exc or r,))
    # round 13 (C08-r13-declarations-cycle-guard-looks-back-two): cycles of two, three and four imports through distinct objects
    for k in (2, 3, 4):
        ring = [st.obj('ImportedName', 'import %d of a ring of %d' % (i, k), name='v', location=(i + 1, 0), declared_at=(i + 1, 7))
                for i in range(k)]
        for i, im in enumerate(ring):
            im.attrs['resolve'] = Native('resolve', lambda it, a_, k_, nxt=ring[(i + 1) % k]: nxt)
        r, exc = st.run(st.ctx(), 'declarations', ring[0], [])
        rec('cycle', 'an import cycle through %d modules terminates' % k, r == ring,
            'the declarations of an import in a ring of %d imports (each resolving to the next) must be the %d imports, once each; got %s'
            % (k, k, exc or r,))
    # attribute
    recv = st.obj('Object', 'receiver value', get_attr=Native('get_attr', lambda it, a_, k: b if a_[1] == 'attr' else None))
    an = st.obj(None, 'attribute node', value=recv, attr='attr')
    an.astcls = 'Attribute'
    r, exc = st.run(st.ctx(), 'declarations', an, [])
    rec('single', 'declarations(expr.attr)', r == [b], 'the declarations of expr.attr are those of evaluate(expr).get_attr("attr"); got %s'
        % (exc or r,))
    # instance attribute assigned in several places
    mv = st.obj('MultiValue', 'self.x assigned twice', values=[a, b])
    r, exc = st.run(st.ctx(), 'declarations', mv, [])
    rec('alts', 'declarations(MultiValue) lists every assignment', r == [[a, b]],
        'an attribute assigned twice has both assignments as declarations; got %s' % (exc or r,))
    return out


def multiname_order_model(repo):
    """MultiName built (through supp's constructor) from the same alternatives given in every order, nested and with
    repetitions: alt_names must be the distinct alternatives in source order."""
    def build(order):
        import itertools
        st = EvalStubs(repo, order)
        alts = [st.obj('AssignedName', 'alt@%d' % ln, name='v', location=(ln, 5), declared_at=(ln, 4), value_node=None)
                for ln in (3, 5, 9)]
        mk = lambda xs: st.it.call(st.it.lookup_global('supp/name.py', 'MultiName'), [list(xs)], {})
        out = []
        for perm in itertools.permutations(alts):
            try:
                got = st.it.getattr(mk(perm), 'alt_names')
            except InterpRaise as e:
                got = str(e)
            out.append(('order', 'alternatives given as %s' % '/'.join(x.label for x in perm), got == alts,
                        'the alternatives of a multiply-bound name must be listed in source order whatever order the regions '
                        'contribute them in; got %s' % (got,), 'alt_names of %s = source order' % '/'.join(x.label for x in perm)))
        for first in (True, False):
            inner = mk([alts[1], alts[0]])
            before = list(st.it.getattr(inner, 'alt_names'))
            try:
                outer = mk([inner, alts[2], alts[1]] if first else [alts[2], inner, alts[1]])
                got2 = st.it.getattr(outer, 'alt_names')
            except InterpRaise as e:
                got2 = str(e)
            after = list(st.it.getattr(inner, 'alt_names'))
            out.append(('order', 'a union nested %s in another keeps its own alternatives' % ('first' if first else 'second'),
                        got2 == alts and after == before and st.it.getattr(inner, 'alt_names') is not got2,
                        'building a union from [a union of two, a third binding] must not change the nested union (it is shared with '
                        'other regions): its alternatives were %s and are %s afterwards; the outer union lists %s' % (before, after, got2),
                        'nested unions are copied, not extended in place'))
        try:
            got = st.it.getattr(mk([alts[2], mk([alts[1], alts[0]]), alts[1]]), 'alt_names')
        except InterpRaise as e:
            got = str(e)
        out.append(('order', 'nested union with a repeated alternative', got == alts,
                    'a union of a binding and a union sharing an alternative must list each distinct alternative once, in source '
                    'order; got %s' % (got,), 'nested/repeated alternatives flatten to source order'))
        # round 13 (C17-r13-multiname-sorted-only-with-a-plain-name): a join every branch of which is itself a join - no
        # plain name among the rows (an if/else whose arms each hold an if/else binding the name)
        d = st.obj('AssignedName', 'alt@11', name='v', location=(11, 5), declared_at=(11, 4), value_node=None)
        a, b, c = alts
        for label, groups, want in (
                ('later union first', [[c, d], [a, b]], [a, b, c, d]),
                ('interleaved unions', [[b, d], [a, c]], [a, b, c, d]),
                ('unions sharing an alternative', [[c, a], [b, c]], [a, b, c]),
                ('three unions', [[d, c], [b, a], [c, a]], [a, b, c, d])):
            for perm in itertools.permutations(groups):
                try:
                    got = st.it.getattr(mk([mk(g) for g in perm]), 'alt_names')
                except InterpRaise as e:
                    got = str(e)
                what = ' + '.join('(%s)' % '/'.join(x.label for x in g) for g in perm)
                out.append(('order', 'a union of unions only (%s): %s' % (label, what), got == want,
                            'a join whose incoming regions each carry their own union of the name (no plain binding among them) '
                            'must list the distinct alternatives in source order; got %s' % (got,),
                            'alt_names of unions-only %s = source order' % what))
        return out
    return repo.memo('multiname-order-model', lambda: both_orders(build))


# ---------------------------------------------------------------------------
# remote calls: Environment (client) and Server
# ---------------------------------------------------------------------------

SERVER = 'supp/server.py'
REMOTE = 'supp/remote.py'


class Packed(object):
    """dumps(obj): an opaque byte string that loads() turns back into obj."""
    def __init__(self, obj):
        self.obj = obj

    def __repr__(self):
        return 'packed(%r)' % (self.obj,)


class Unserialisable(object):
    """A value dumps() fails on, with the exception class the real serialiser raises for such a value."""
    def __init__(self, exc='UnsupportedTypeException'):
        self.exc = exc

    def __repr__(self):
        return '<unserialisable result: %s>' % self.exc


class RemoteStubs(Stubs):
    def __init__(self, repo, order='fwd'):
        Stubs.__init__(self, repo, order)
        self.log = []
        for rel in (SERVER, REMOTE):
            env = self.it.module_env(rel)
            env['dumps'] = Native('dumps', self._dumps)
            env['loads'] = Native('loads', self._loads)
        senv = self.it.module_env(SERVER)
        senv['nstr'] = Native('nstr', lambda it, a, k: a[0])
        self.api_result = {}
        self.api_raise = {}
        senv['assistant'] = self.obj(None, 'module assistant', assist=self._api('assist'), location=self._api('location'))
        senv['linter'] = self.obj(None, 'module linter', lint=self._api('lint'))
        senv['Project'] = Native('Project', lambda it, a, k: (self.log.append(('Project', list(a), dict(k))), self.project)[1])
        cm = self.obj(None, 'check_changes()', __enter__=Native('__enter__', lambda it, a, k: self.log.append(('enter',))),
                      __exit__=Native('__exit__', lambda it, a, k: (self.log.append(('exit',)), False)[1]))
        self.project = self.obj(None, 'project', check_changes=Native('check_changes', lambda it, a, k: cm))

    def _api(self, name):
        def fn(it, a, k):
            self.log.append(('api', name, list(a), dict(k)))
            if name in self.api_raise:
                raise InterpRaise(self.api_raise[name][0], self.api_raise[name][1])
            return self.api_result.get(name)
        return Native(name, fn)

    def _dumps(self, it, a, k):
        def bad(x):
            if isinstance(x, Unserialisable):
                return x.exc
            if isinstance(x, (Obj, Unknown, FuncVal)):
                return 'UnsupportedTypeException'
            if isinstance(x, str):
                try:
                    x.encode('utf-8')
                except UnicodeEncodeError:
                    return 'UnicodeEncodeError'       # a lone surrogate (os.fsdecode of an undecodable file name)
            if isinstance(x, (list, tuple, set)):
                return next((b for b in map(bad, x) if b), None)
            if isinstance(x, dict):
                return next((b for b in map(bad, list(x.keys()) + list(x.values())) if b), None)
            return None
        b = bad(a[0])
        if b:
            raise InterpRaise(b, 'cannot serialise')
        return Packed(a[0])

    def _loads(self, it, a, k):
        if not isinstance(a[0], Packed):
            raise InterpRaise('UnpackException', 'garbage on the wire')
        return a[0].obj

    def conn(self, incoming, send_fails_on=(), late=()):
        """A connection whose peer sends `incoming` (Packed payloads, 'EOF' or 'GARBAGE') and then nothing.  The payloads whose
        index is in `late` take the peer a while: poll() with any timeout reports nothing for them (a blocking recv_bytes waits
        and gets them)."""
        st = {'in': list(incoming), 'sent': [], 'closed': 0, 'nsend': 0, 'polls_empty': 0, 'taken': 0, 'waited': set()}

        def poll(it, a, k):
            if st['closed']:
                raise InterpRaise('OSError', 'handle is closed')
            if st['in'] and st['taken'] in late and st['taken'] not in st['waited']:
                st['waited'].add(st['taken'])        # not there yet at the first look; it has arrived by the next one
                return False
            if st['in']:
                return True
            st['polls_empty'] += 1
            if st['polls_empty'] > 3:
                raise _Idle()
            return False

        def recv_bytes(it, a, k):
            if st['closed']:
                raise InterpRaise('OSError', 'handle is closed')
            if not st['in']:
                raise _Idle()
            x = st['in'].pop(0)
            st['taken'] += 1
            if x == 'EOF':
                raise InterpRaise('EOFError', '')
            return x

        def send_bytes(it, a, k):
            if st['closed']:
                raise InterpRaise('OSError', 'handle is closed')
            st['nsend'] += 1
            if st['nsend'] in send_fails_on:
                raise InterpRaise('BrokenPipeError', 'peer went away')
            st['sent'].append(a[0])

        def close(it, a, k):
            st['closed'] += 1
        o = self.obj(None, 'connection', poll=Native('poll', poll), recv_bytes=Native('recv_bytes', recv_bytes),
                     send_bytes=Native('send_bytes', send_bytes), close=Native('close', close))
        return o, st


class _Idle(Exception):
    """The modelled peer has nothing more to say: the server loop would wait for ever."""


def server_model(repo):
    return repo.memo('server-model', lambda: _server_model(repo))


def _server_model(repo):
    out = []

    def rec(tag, key, ok, msg, sample=None):
        out.append((tag, key, bool(ok), msg, sample))
    st = RemoteStubs(repo)
    it = st.it
    srv_cls = it.lookup_global(SERVER, 'Server')

    def serve(incoming, handlers=None, send_fails_on=(), configured=True):
        conn, cs = st.conn(incoming, send_fails_on)
        st.log = []
        srv = it.call(srv_cls, [conn], {})
        if configured:
            srv.attrs['project'] = st.project
        for k, v in (handlers or {}).items():
            srv.attrs[k] = v
        it.steps = 0
        how = 'returned'
        try:
            it.call(it.getattr(srv, 'run'), [], {})
        except _Idle:
            how = 'waiting'
        except InterpRaise as e:
            how = 'raised %s: %s' % (e.exc_name, e.msg)
        except Uninterpretable as e:
            if 'unbounded' in str(e) or 'budget' in str(e):
                how = 'spinning'
            else:
                raise
        return srv, cs, how

    def replies(cs):
        return [p.obj if isinstance(p, Packed) else p for p in cs['sent']]
    ok_handler = Native('ping', lambda it_, a, k: ('pong', list(a), dict(k)))
    def _boom(it_, a, k):
        raise InterpRaise('ValueError', 'boom message')
    boom = Native('boom', _boom)
    unser = Native('unser', lambda it_, a, k: Unserialisable())
    H = {'ping': ok_handler, 'boom': boom, 'unser': unser}
    CLOSE = Packed(('close', (), {}))

    # one request, one reply, then close
    srv, cs, how = serve([Packed(('ping', (1, 2), {'k': 3})), CLOSE], H)
    rec('reply', 'a request gets exactly one reply carrying the handler result', replies(cs) == [(('pong', [1, 2], {'k': 3}), True)],
        'request ping(1, 2, k=3) must be answered by exactly one (result, True) built from the handler called with those '
        'arguments; sent %s (%s)' % (replies(cs), how), 'ping(1,2,k=3) -> one reply (result, True)')
    rec('close', 'a close request closes the connection and ends the loop', how == 'returned' and cs['closed'] == 1,
        'after a close request Server.run must close the connection once and return; it %s, close() called %d times'
        % (how, cs['closed']), 'close -> conn.close(); run returns')
    # error containment
    srv, cs, how = serve([Packed(('boom', (), {})), Packed(('ping', (), {})), CLOSE], H)
    r = replies(cs)
    rec('error', 'a failing handler is reported as (class name, message), False', len(r) == 2 and r[0] == (('ValueError', 'boom message'), False)
        and r[1][1] is True, 'a handler raising ValueError("boom message") must be answered by ((ValueError, boom message), False) and '
        'the next request served normally; sent %s (%s)' % (r, how), 'handler raises -> ((class, message), False), loop continues')
    # code run by an eval request may call sys.exit(): a request that raises must not end the server, whatever it raises
    def _exit(it_, a, k):
        raise InterpRaise('SystemExit', '3')
    srv, cs, how = serve([Packed(('boom', (), {})), Packed(('ping', (), {})), CLOSE], dict(H, boom=Native('boom', _exit)))
    r = replies(cs)
    rec('error', 'a handler that raises SystemExit is an error reply, not the end of the server', len(r) == 2 and r[0][1] is False
        and r[1][1] is True, 'a request whose handler raises SystemExit (an eval request running sys.exit()) must be answered by an error '
        'reply and the next request served; sent %s (%s)' % (r, how), 'SystemExit in a handler -> error reply, loop continues')
    # the exception classes of evaluated code are arbitrary: describing one (str) may itself raise
    def _odd(it_, a, k):
        raise InterpRaise('E', 'unprintable', attrs={'__str_raises__': 'RuntimeError'})
    srv, cs, how = serve([Packed(('boom', (), {})), Packed(('ping', (), {})), CLOSE], dict(H, boom=Native('boom', _odd)))
    r = replies(cs)
    rec('error', 'a handler raising an exception whose __str__ raises is an error reply, not the end of the server',
        len(r) == 2 and r[0][1] is False and r[1][1] is True,
        'a request whose handler raises an exception object that cannot be turned into a message (its __str__ raises, as a class defined '
        'by evaluated code may) must still be answered by an error reply and the next request served; sent %s (%s)' % (r, how),
        'unprintable exception in a handler -> error reply, loop continues')
    srv, cs, how = serve([Packed(('no_such_method', (), {})), Packed(('ping', (), {})), CLOSE], H)
    r = replies(cs)
    rec('error', 'an unknown method is an error reply, not a crash', len(r) == 2 and r[0][1] is False and r[0][0][0] == 'AttributeError'
        and r[1][1] is True, 'a request naming no server method must be answered by an (AttributeError, ...) error reply and the loop '
        'must go on; sent %s (%s)' % (r, how))
    def picky(it_, a, k):
        if k:
            raise InterpRaise('TypeError', 'unexpected keyword')
        return 'pong'
    srv, cs, how = serve([Packed(('ping', (), {'bad': 1, 'worse': 2})), Packed(('ping', (), {})), CLOSE], {'ping': Native('ping', picky)})
    r = replies(cs)
    rec('error', 'wrong arguments are an error reply', len(r) == 2 and r[0] == (('TypeError', 'unexpected keyword'), False) and r[1] == ('pong', True),
        'a request with arguments the handler rejects must give a TypeError error reply; sent %s (%s)' % (r, how))
    # serialisation failure: an unsupported type, a str that cannot be encoded (lone surrogate), a self-containing list
    for exc in ('UnsupportedTypeException', 'UnicodeEncodeError', 'RecursionError'):
        H2 = dict(H, unser=Native('unser', lambda it_, a, k, _e=exc: Unserialisable(_e)))
        srv, cs, how = serve([Packed(('unser', (), {})), Packed(('ping', (), {})), CLOSE], H2)
        r = replies(cs)
        okf = len(r) == 2 and isinstance(r[0], tuple) and len(r[0]) == 2 and r[0][1] is False and isinstance(r[0][0], tuple) \
            and len(r[0][0]) == 2 and all(isinstance(x, str) for x in r[0][0]) and r[1][1] is True
        rec('fallback', 'a result whose serialisation raises %s still gets exactly one (error) reply' % exc, okf,
            'a result the serialiser fails on with %s must be answered by exactly one ((name, message), False) reply of plain '
            'strings, and the next request served; sent %s (%s)' % (exc, r, how), 'dumps raises %s -> constant ((name, message), False)' % exc)
    # an error reply whose message cannot be serialised (a lone surrogate from an undecodable file name)
    def _surrogate(it_, a, k):
        raise InterpRaise('ValueError', 'cannot open caf\udce9.py')
    srv, cs, how = serve([Packed(('boom', (), {})), Packed(('ping', (), {})), CLOSE], dict(H, boom=Native('boom', _surrogate)))
    r = replies(cs)
    rec('fallback', 'an error reply that cannot be serialised still gets exactly one (error) reply', how == 'returned' and len(r) == 2
        and r[0][1] is False and r[1][1] is True,
        'a handler failing with a message the serialiser refuses (lone surrogate) must still be answered by one error reply and the '
        'loop must go on; sent %s (%s)' % (r, how), 'error reply with an unserialisable message -> constant error reply')
    # send failure
    srv, cs, how = serve([Packed(('ping', (), {})), Packed(('ping', (7,), {})), CLOSE], H, send_fails_on=(1,))
    r = replies(cs)
    rec('send', 'a failed send does not end the loop', how == 'returned' and r == [(('pong', [7], {}), True)],
        'when sending a reply fails the server must go on serving: the second request must be answered; sent %s (%s)' % (r, how))
    # end of stream / garbage
    srv, cs, how = serve(['EOF'], H)
    rec('eof', 'end of stream ends the loop', how == 'returned' and not cs['sent'], 'when the client disappears (EOFError) run must '
        'return without sending; it %s, sent %s' % (how, replies(cs)), 'EOF -> run returns')
    srv, cs, how = serve(['GARBAGE', Packed(('ping', (), {})), CLOSE], H)
    rec('eof', 'an undecodable request does not crash the server', how in ('returned', 'waiting') and not how.startswith('raised'),
        'a request that cannot be decoded must not escape from run as an exception; it %s' % how)
    srv, cs, how = serve([Packed(('ping', (), {}))], H)
    rec('reply', 'the loop keeps waiting after a served request', how == 'waiting' and len(cs['sent']) == 1,
        'after serving a request the server must wait for the next one; it %s after %d replies' % (how, len(cs['sent'])))
    srv, cs, how = serve([Packed(('ping', (), {})), Packed(('ping', (), {})), Packed(('ping', (), {})), CLOSE], H)
    rec('reply', 'three requests, three replies, in order', len(cs['sent']) == 3 and how == 'returned',
        'three requests must produce three replies; sent %d (%s)' % (len(cs['sent']), how))

    # ---- handlers: arguments handed to the in-process API -------------------------------------------------------
    SRC, POS, FN = 'source text', [3, 4], '/p/file.py'
    st.api_result = {'assist': ('pre', ['a', 'b']), 'location': [{'loc': (1, 2), 'file': FN}],
                     'lint': [('W01', 'msg', 1, 2, Unserialisable()), ('E02', 'm2', 3, 4, None)]}
    for name, args, want_api, want_res in (
            ('assist', (SRC, POS, FN), [st.project, SRC, (3, 4), FN], ('pre', ['a', 'b'])),
            ('location', (SRC, POS, FN), [st.project, SRC, (3, 4), FN], [{'loc': (1, 2), 'file': FN}]),
            ('lint', (SRC, FN), [st.project, SRC, FN], [('W01', 'msg', 1, 2), ('E02', 'm2', 3, 4)]),
            ('lint', (SRC, FN, True), [st.project, SRC, FN], [('W01', 'msg', 1, 2), ('E02', 'm2', 3, 4)])):
        srv, cs, how = serve([Packed((name, args, {})), CLOSE])
        api = [e for e in st.log if e[0] == 'api']
        r = replies(cs)
        got_args = api[0][2][:len(want_api)] if api else None
        rec('handler', 'Server.%s%s hands its arguments to the API in order' % (name, '(syntax_only)' if len(args) == 3 and name == 'lint' else ''),
            len(api) == 1 and api[0][1] == name and got_args == want_api and not api[0][3],
            'a %s request with (source, %sfilename) must call the in-process %s exactly once with (project, source, %sfilename); '
            'called %s' % (name, 'position, ' if name != 'lint' else '', name, 'tuple(position), ' if name != 'lint' else '',
                           [(e[1], e[2], e[3]) for e in api]), 'Server.%s -> %s(project, ...)' % (name, name))
        ok = len(r) == 1 and r[0][1] is True and (_norm(r[0][0]) == _norm(want_res))
        rec('handler', 'Server.%s%s returns the API result' % (name, '(syntax_only)' if len(args) == 3 and name == 'lint' else ''), ok,
            'the reply to %s must carry the API result%s; sent %s (%s)' % (name, ' (rows trimmed to code, message, line, column)'
                                                                              if name == 'lint' else '', r, how))
        inside = [e[0] for e in st.log if e[0] in ('enter', 'exit', 'api')]
        rec('handler', 'Server.%s%s runs inside check_changes' % (name, '(syntax_only)' if len(args) == 3 and name == 'lint' else ''),
            inside == ['enter', 'api', 'exit'], 'the API call must be made inside `with project.check_changes()` (stale modules are '
            'dropped first); order of events %s' % inside)
    # configure
    srv, cs, how = serve([Packed(('configure', ({'sources': ['/p/src'], 'dyn_modules': ['dm']},), {})), CLOSE], configured=False)
    pc = [e for e in st.log if e[0] == 'Project']
    r = replies(cs)
    rec('configure', 'configure builds the project from the configuration', len(pc) == 1 and pc[0][1][:1] == [['/p/src']]
        and (pc[0][2].get('dyn_modules') == ['dm'] or pc[0][1][1:2] == [['dm']]) and srv.attrs.get('project') is st.project
        and len(r) == 1 and r[0][1] is True,
        'configure({sources, dyn_modules}) must build Project(sources, dyn_modules=...) and keep it for later requests; Project '
        'called with %s, reply %s' % ([(e[1], e[2]) for e in pc], r))
    srv, cs, how = serve([Packed(('configure', ({'sources': ['/p/src']},), {})), CLOSE], configured=False)
    pc = [e for e in st.log if e[0] == 'Project']
    r = replies(cs)
    rec('configure', 'configure without dyn_modules', len(pc) == 1 and len(r) == 1 and r[0][1] is True,
        'a configuration without dyn_modules must be accepted; reply %s' % (r,))
    return out


def _norm(x):
    if isinstance(x, (list, tuple)):
        return [_norm(y) for y in x]
    return x


def client_model(repo):
    return repo.memo('client-model', lambda: _client_model(repo))


def _client_model(repo):
    import ast as _ast
    out = []

    def rec(tag, key, ok, msg, sample=None):
        out.append((tag, key, bool(ok), msg, sample))
    st = RemoteStubs(repo)
    it = st.it
    renv = it.module_env(REMOTE)
    lock_log = []
    lock = st.obj(None, 'lock', __enter__=Native('__enter__', lambda it_, a, k: lock_log.append('acquire')),
                  __exit__=Native('__exit__', lambda it_, a, k: (lock_log.append('release'), False)[1]))
    renv['Lock'] = Native('Lock', lambda it_, a, k: lock)
    env_cls = it.lookup_global(REMOTE, 'Environment')
    srv_cls = it.lookup_global(SERVER, 'Server')
    env_node = repo.klass(REMOTE, 'Environment')

    def client(replies, late=()):
        conn, cs = st.conn(replies, late=late)
        env = it.call(env_cls, [], {})
        env.attrs['conn'] = conn
        return env, cs

    def invoke(env, meth, args):
        it.steps = 0
        try:
            return it.call(it.getattr(env, meth), list(args), {}), None
        except InterpRaise as e:
            return None, e
        except _Idle:
            return None, InterpRaise('Idle', 'the client waits for a reply that never comes')

    # reply handling
    env, cs = client([Packed((['value', 7], True))])
    r, exc = invoke(env, '_call', ['ping', 1, 2])
    sent = [p.obj if isinstance(p, Packed) else p for p in cs['sent']]
    rec('call', '_call sends one request and returns the reply value', exc is None and r == ['value', 7] and len(sent) == 1
        and _norm(sent[0]) == ['ping', [1, 2], {}], '_call("ping", 1, 2) must send exactly one (name, args, kwargs) request and return the '
        'value of an ok reply; sent %s, returned %s %s' % (sent, r, exc or ''), '_call: send (name, args, kwargs); recv (result, ok)')
    env, cs = client([Packed((('ValueError', 'boom message'), False))])
    r, exc = invoke(env, '_call', ['ping'])
    rec('call', '_call raises with the server\'s message on an error reply', exc is not None and 'boom message' in str(exc.msg),
        'an error reply ((class, message), False) must raise an exception carrying the message; got %s %s' % (r, exc),
        'error reply -> raise Exception(message)')
    env, cs = client([Packed(('first', True)), Packed(('second', True))])
    r1, e1 = invoke(env, '_call', ['a'])
    r2, e2 = invoke(env, '_call', ['b'])
    rec('call', 'replies pair with requests in order', (r1, r2) == ('first', 'second') and len(cs['sent']) == 2,
        'two sequential calls must each send one request and consume one reply in order; got %s %s' % (r1, r2))

    # a reply that takes the server long: whatever the client does about it, no later call may be handed that reply
    env, cs = client([Packed(('slow answer', True)), Packed(('second', True)), Packed(('third', True))], late=(0,))
    r1, e1 = invoke(env, '_call', ['slow'])
    r2, e2 = invoke(env, '_call', ['b'])
    r3, e3 = invoke(env, '_call', ['c'])
    ok = (r1 == 'slow answer' or e1 is not None) and (r2 == 'second' or e2 is not None) and (r3 == 'third' or e3 is not None) \
        and (e1 is None or (e2 is not None and e3 is not None) or (r2, r3) == ('second', 'third'))
    rec('call', 'a late reply is never handed to a later call', ok,
        'the server answers the first request late (poll reports nothing yet, a blocking read gets it), then answers two more: '
        'call 1 -> %s, call 2 -> %s, call 3 -> %s; every call must get the reply to its own request (or fail): a call that gives up '
        'waiting leaves its reply in the pipe and shifts every later reply by one' % (r1 if e1 is None else e1, r2 if e2 is None else e2,
                                                                                 r3 if e3 is None else e3),
        'late replies stay paired with their requests')

    # stubs: every public method that goes through _call
    api_sig = {}
    for mod, rel in (('assistant', ASSIST), ('linter', LINTER)):
        for fn in repo.tree(rel).body:
            if isinstance(fn, _ast.FunctionDef):
                api_sig[fn.name] = [a.arg for a in fn.args.posonlyargs + fn.args.args]
    nstub = 0
    for m in env_node.body:
        if not isinstance(m, _ast.FunctionDef) or m.name.startswith('_') or m.name in ('prepare', 'run', 'close'):
            continue
        params = [a.arg for a in m.args.posonlyargs + m.args.args][1:]
        ndef = len(m.args.defaults)
        for use_defaults in ([False, True] if ndef else [False]):
            used = params[:len(params) - ndef] if use_defaults else params
            vals = {}
            for p in used:
                vals[p] = [11, 22] if p == 'position' else ({'sources': ['/p/src']} if p == 'config' else 'value of ' + p)
            env, cs = client([Packed(('the reply', True))])
            r, exc = invoke(env, m.name, [vals[p] for p in used])
            sent = [p.obj if isinstance(p, Packed) else p for p in cs['sent']]
            nstub += 1
            label = 'stub %s(%s)' % (m.name, ', '.join(used))
            if exc is not None or len(sent) != 1 or not isinstance(sent[0], tuple) or len(sent[0]) != 3:
                rec('stub', label + ' sends one request', False, 'Environment.%s must send exactly one (name, args, kwargs) request; sent %s %s'
                    % (m.name, sent, exc or ''))
                continue
            rec('stub', label + ' returns the reply', r == 'the reply', 'Environment.%s must return the value of the reply; returned %r'
                % (m.name, r), '%s -> reply value' % label)
            name, args, kwargs = sent[0]
            # hand the request to the interpreted server
            st.api_result = {'assist': 'R', 'location': 'R', 'lint': []}
            conn2, cs2 = st.conn([Packed((name, tuple(args), dict(kwargs))), Packed(('close', (), {}))])
            st.log = []
            srv = it.call(srv_cls, [conn2], {})
            srv.attrs['project'] = st.project
            if name == 'eval':
                srv.attrs['eval'] = Native('eval', lambda it_, a, k: (st.log.append(('api', 'eval', list(a), dict(k))), 'R')[1])
            try:
                it.call(it.getattr(srv, 'run'), [], {})
            except (_Idle, InterpRaise):
                pass
            rep = [p.obj if isinstance(p, Packed) else p for p in cs2['sent']]
            rec('stub', label + ' is accepted by the server', len(rep) == 1 and rep[0][1] is True,
                'the request %s sent by Environment.%s must be served without error by Server.%s; the server replied %s'
                % ((name, args, kwargs), m.name, name, rep), '%s <-> Server.%s' % (label, name))
            api = [e for e in st.log if e[0] == 'api']
            if name in api_sig and api:
                pos = api[0][2]
                sig = api_sig[name]
                got = dict(zip(sig, pos))
                got.update(api[0][3])
                bad = []
                for p in used:
                    if p in sig:
                        want = tuple(vals[p]) if p == 'position' else vals[p]
                        if got.get(p) != want:
                            bad.append('%s: sent %r, arrived as %r' % (p, vals[p], got.get(p)))
                rec('stub', label + ' arguments arrive under the same names', not bad and got.get('project') is st.project,
                    'every argument of Environment.%s must reach the same-named parameter of %s(); %s' % (m.name, name, '; '.join(bad)
                                                                                                       or 'project=%r' % got.get('project')),
                    '%s: client argument -> same-named API parameter' % label)
    rec('stub-count', 'client stubs', nstub >= 5, 'only %d client stubs found' % nstub)

    # close
    env, cs = client([])
    r, exc = invoke(env, 'close', [])
    sent = [p.obj if isinstance(p, Packed) else p for p in cs['sent']]
    rec('close', 'close sends the close request, closes and forgets the connection',
        exc is None and len(sent) == 1 and cs['closed'] == 1 and 'conn' not in env.attrs,
        'Environment.close must send one close request, close the connection and delete it; sent %s, closed %d, conn kept: %s %s'
        % (sent, cs['closed'], 'conn' in env.attrs, exc or ''), 'close: send close request; conn.close(); del conn')
    if len(sent) == 1 and isinstance(sent[0], tuple):
        conn2, cs2 = st.conn([Packed(sent[0])])
        srv = it.call(srv_cls, [conn2], {})
        how = 'returned'
        try:
            it.call(it.getattr(srv, 'run'), [], {})
        except _Idle:
            how = 'kept waiting'
        except InterpRaise as e:
            how = 'raised %s: %s' % (e.exc_name, e.msg)
        rec('close', 'the close request ends the server loop', how == 'returned' and cs2['closed'] == 1 and not cs2['sent'],
            'the request %r sent by Environment.close must make Server.run close its connection and return; the server %s '
            '(closed %d, sent %s)' % (sent[0], how, cs2['closed'], cs2['sent']), 'client close request <-> server close branch')
    r, exc = invoke(env, 'close', [])
    rec('close', 'close twice is harmless', exc is None and cs['closed'] == 1, 'a second close() must do nothing; %s, closed %d'
        % (exc or 'ok', cs['closed']))

    # ---- launching: prepare() / run() / _threaded_run() with a modelled starter thread and launcher ------------------------
    def launcher(outcomes, eager=False):
        """An Environment whose process launcher and connector are stubs: Popen records a launch (or fails), Client(addr) follows
        the script of the launch it belongs to (the socket is not there yet / refused once / never comes up / ok); time is a
        scripted clock.  The starter thread runs its target when it is joined (in flight until then) or, with eager, when started."""
        env = it.call(env_cls, [], {})
        state = {'launches': 0, 'threads': [], 'outcomes': list(outcomes), 'conns': [], 'script': [], 'clock': 0.0, 'connected': 0}
        scripts = {True: ['ENOENT', 'ok'], 'refused-once': ['ENOENT', 'ECONNREFUSED', 'ok'], 'never': ['ENOENT'] * 200}

        def Popen(it_, a, k):
            state['launches'] += 1
            oc = state['outcomes'].pop(0) if state['outcomes'] else True
            if oc is False:
                raise InterpRaise('OSError', 'launch failed', None, {'errno': 11})
            state['script'] = list(scripts[oc])
            pr = {'stopped': False}
            state.setdefault('procs', []).append(pr)
            stop = Native('stop', lambda i2, a2, k2, _p=pr: _p.__setitem__('stopped', True))
            return st.obj(None, 'server process %d' % state['launches'], terminate=stop, kill=stop,
                          wait=Native('wait', lambda i2, a2, k2: 0), poll=Native('poll', lambda i2, a2, k2, _p=pr: 0 if _p['stopped'] else None))

        def Client(it_, a, k):
            step = state['script'].pop(0) if state['script'] else 'ENOENT'
            if step == 'ENOENT':
                raise InterpRaise('FileNotFoundError', 'No such file or directory', None, {'errno': 2})
            if step == 'ECONNREFUSED':
                raise InterpRaise('ConnectionRefusedError', 'Connection refused', None, {'errno': 111})
            state['connected'] += 1
            conn, cs = st.conn([Packed(('answer %d' % state['connected'], True))] * 3)
            state['conns'].append(cs)
            return conn

        def sleep(it_, a, k):
            state['clock'] += a[0] if a and isinstance(a[0], (int, float)) else 1.0
        it.import_overrides[('subprocess', 'Popen')] = Native('Popen', Popen)
        it.import_overrides[('subprocess', 'PIPE')] = -1
        it.import_overrides[('multiprocessing.connection', 'Client')] = Native('Client', Client)
        it.import_overrides[('multiprocessing.connection', 'arbitrary_address')] = Native('arbitrary_address', lambda i2, a2, k2: 'ADDR')
        renv['time'] = st.obj(None, 'module time', time=Native('time', lambda i2, a2, k2: state['clock']), sleep=Native('sleep', sleep))
        import os as _os
        renv['os'] = st.obj(None, 'module os', path=NativeModule('path', _os.path), environ={'PATH': '/bin'})
        renv['__file__'] = '/p/supp/remote.py'

        def Thread(it_, a, k):
            target = k.get('target') or (a[0] if a else None)
            th = {'ran': False}

            def run_target():
                if not th['ran']:
                    th['ran'] = True
                    try:
                        it.call(target, [], {})
                    except InterpRaise:
                        pass          # an exception ends the thread, nobody sees it
            o = st.obj(None, 'starter thread', start=Native('start', lambda i2, a2, k2: run_target() if eager else None),
                       join=Native('join', lambda i2, a2, k2: run_target()),
                       is_alive=Native('is_alive', lambda i2, a2, k2: not th['ran']))
            state['threads'].append(o)
            return o
        renv['Thread'] = Native('Thread', Thread)
        return env, state

    env, stt = launcher([True])
    r, exc = invoke(env, '_call', ['ping'])
    rec('launch', 'a first call without prepare launches one server and is answered', exc is None and stt['launches'] == 1 and r == 'answer 1',
        'a first call must launch exactly one server synchronously and be answered; launches %d, result %r %s' % (stt['launches'], r, exc or ''),
        'first call -> one launch')
    for eager in (False, True):
        env, stt = launcher([True], eager)
        invoke(env, 'prepare', [])
        r, exc = invoke(env, '_call', ['ping'])
        rec('launch', 'a first call after prepare() uses the starter\'s server (%s)' % ('starter finished' if eager else 'starter in flight'),
            exc is None and stt['launches'] == 1 and len(stt['threads']) == 1 and r == 'answer 1',
            'prepare() followed by a first call must launch exactly one server (the call joins the starter); launches %d, starter '
            'threads %d, result %r %s' % (stt['launches'], len(stt['threads']), r, exc or ''), 'prepare + first call -> one launch')
        env, stt = launcher([False, True], eager)
        invoke(env, 'prepare', [])
        r, exc = invoke(env, '_call', ['ping'])
        rec('launch', 'a failed background launch is made up for by the first call (%s)' % ('starter finished' if eager else 'starter in flight'),
            exc is None and r == 'answer 1' and stt['launches'] == 2,
            'when the background launch fails, the first call must launch synchronously and be answered - no caller may see an '
            'exception caused by the start-up handshake; launches %d, result %r %s' % (stt['launches'], r, exc or ''),
            'starter failed -> the call launches itself')
    env, stt = launcher(['refused-once'])
    r, exc = invoke(env, '_call', ['ping'])
    rec('launch', 'a connection refused while the server is binding is retried', exc is None and r == 'answer 1' and stt['launches'] == 1,
        'a connect attempt that is refused because the listener has bound but not yet listened must be retried like a missing '
        'socket; launches %d, result %r %s' % (stt['launches'], r, exc or ''), 'connect errors during start-up are retried until the time-out')
    env, stt = launcher(['never'])
    r, exc = invoke(env, '_call', ['ping'])
    rec('launch', 'a server that never comes up ends in the launch time-out', exc is not None and exc.exc_name == 'Exception'
        and stt['launches'] == 1 and stt['clock'] > 5, 'when the server never accepts, the call must give up after the time-out with the '
        'launch error (not spin for ever, not launch again); launches %d, clock %.1f, %s' % (stt['launches'], stt['clock'], exc or r))
    rec('launch', 'a server that never comes up is not left behind', bool(stt.get('procs')) and all(p['stopped'] for p in stt['procs']),
        'when the client gives up waiting for the server it launched, that process must be stopped: it would sit in accept() for ever, '
        'and the next call launches a second server next to it; processes launched %d, stopped %d'
        % (len(stt.get('procs', [])), sum(1 for p in stt.get('procs', []) if p['stopped'])), 'launch time-out -> the child is terminated')
    env, stt = launcher([True])
    invoke(env, 'prepare', [])
    invoke(env, 'prepare', [])
    rec('launch', 'prepare() twice starts one starter', len(stt['threads']) == 1, 'two prepare() calls must create one starter thread; '
        'created %d' % len(stt['threads']))
    env, stt = launcher([True], True)
    invoke(env, 'prepare', [])
    invoke(env, 'prepare', [])
    invoke(env, '_call', ['ping'])
    invoke(env, 'prepare', [])
    rec('launch', 'prepare() with a live connection does nothing', len(stt['threads']) == 1 and stt['launches'] == 1,
        'once connected, prepare() must not start another server; starter threads %d, launches %d' % (len(stt['threads']), stt['launches']))
    # close() while the background start is still in flight: the session that start creates must be ended too
    env, stt = launcher([True, True])
    invoke(env, 'prepare', [])
    r, exc = invoke(env, 'close', [])
    for th in stt['threads']:
        invoke(th, 'join', [])                   # whatever is left of the starter finishes now
    sent = [p.obj if isinstance(p, Packed) else p for cs_ in stt['conns'] for p in cs_['sent']]
    alive = [cs_ for cs_ in stt['conns'] if not cs_['closed']]
    rec('close', 'close() during a background start ends the session that start creates', exc is None and not alive
        and 'conn' not in env.attrs and (stt['launches'] == 0 or any(isinstance(x, tuple) and x and x[0] == 'close' for x in sent)),
        'prepare() has started the starter thread, close() is called before the starter has connected, then the starter finishes: '
        'launches %d, connections left open %d, close requests sent %s, conn kept: %s %s - close() must end the session (wait for the '
        'start it overlaps, or keep it from happening), otherwise the server is up after close() returned and nobody will stop it'
        % (stt['launches'], len(alive), [x for x in sent if isinstance(x, tuple) and x and x[0] == 'close'], 'conn' in env.attrs, exc or ''),
        'close() synchronises with the starter')
    # close() when the server is already gone: the client must come back to the unconnected state
    conn, cs = st.conn([], send_fails_on=(1,))
    env = it.call(env_cls, [], {})
    env.attrs['conn'] = conn
    r, exc = invoke(env, 'close', [])
    rec('close', 'close() with a dead server leaves the client reusable', exc is None and 'conn' not in env.attrs and cs['closed'] == 1,
        'the server has died (sending raises BrokenPipeError): close() must still drop the connection so that the next call launches a new '
        'server; it %s, connection closed %d times, conn kept: %s' % ('raised %s' % exc if exc else 'returned', cs['closed'], 'conn' in env.attrs),
        'close() after the server died')
    env, stt = launcher([True, True])
    invoke(env, '_call', ['ping'])
    invoke(env, 'close', [])
    r, exc = invoke(env, '_call', ['ping'])
    rec('launch', 'after close() the next call launches a new server', exc is None and stt['launches'] == 2 and r == 'answer 2',
        'after close() the client must be usable again with a new server; launches %d, result %r %s' % (stt['launches'], r, exc or ''))
    return out


# ---------------------------------------------------------------------------
# the memo decorators of util.py
# ---------------------------------------------------------------------------

class _SkipPart(Exception):
    pass


def memo_decorator_model(repo):
    """util.cached_property.__get__ and util.context_property interpreted on stub objects: the memo must end up holding
    exactly what the outermost call of the decorated function returned (the resolution functions re-enter themselves through
    loop back edges and store a provisional value on the way), and the function must run once per object."""
    def build():
        st = Stubs(repo)
        it = st.it
        out = []

        def rec(tag, key, ok, msg, sample=None):
            out.append((tag, key, bool(ok), msg, sample))
        cp = it.lookup_global(UTIL, 'cached_property')
        if isinstance(cp, Native):
            # taken from functools: the stdlib descriptor stores what its call of the function returns (trusted, not interpreted)
            rec('memo', 'cached_property keeps the outermost result', True, '', 'functools.cached_property (standard library)')
            cp = None
        obj = st.obj(None, 'object with a cached property')
        calls = []

        def compute(it_, a, k):
            calls.append(a[0])
            # a nested access (re-entry through a loop back edge) computed and stored a provisional value meanwhile
            a[0].attrs['names'] = 'provisional value stored by a re-entrant access'
            return 'complete value'
        try:
            if cp is None:
                raise _SkipPart()
            desc = it.call(cp, [Native('names', compute)], {})
            r = it.call(it.getattr(desc, '__get__'), [obj, None], {})
            rec('memo', 'cached_property keeps the outermost result', r == 'complete value' and obj.attrs.get('names') == 'complete value'
                and len(calls) == 1, 'cached_property.__get__ must return and store the value its own call of the function returned, '
                'overwriting what a re-entrant access stored meanwhile; returned %r, stored %r, function called %d times'
                % (r, obj.attrs.get('names'), len(calls)), 'cached_property: obj.__dict__[name] = func(obj) (outermost call wins)')
            r2 = it.call(it.getattr(desc, '__get__'), [None, None], {})
            rec('memo', 'cached_property on the class returns the descriptor', r2 is desc, 'cached_property.__get__(None, cls) must return '
                'the descriptor itself; got %r' % (r2,))
        except _SkipPart:
            pass
        except InterpRaise as e:
            rec('memo', 'cached_property keeps the outermost result', False, 'cached_property raises %s' % e)
        # context_property
        cx = it.lookup_global(UTIL, 'context_property')
        obj2 = st.obj(None, 'object with a context property')
        n = []

        def resolve(it_, a, k):
            n.append(1)
            if len(n) == 1 and fail_first[0]:
                raise InterpRaise('ImportError', 'first evaluation fails')
            return 'value %d' % len(n)
        fail_first = [False]
        try:
            inner = it.call(cx, [Native('resolve', resolve)], {})
            a1 = it.call(inner, [obj2, 'ctx'], {})
            a2 = it.call(inner, [obj2, 'ctx'], {})
            rec('memo', 'context_property computes once and returns the stored value', (a1, a2) == ('value 1', 'value 1') and len(n) == 1,
                'context_property must call the function once per object and return the same value afterwards; got %r then %r after %d '
                'calls' % (a1, a2, len(n)), 'context_property: one evaluation per object')
            obj3 = st.obj(None, 'object whose first evaluation fails')
            del n[:]
            fail_first[0] = True
            try:
                it.call(inner, [obj3, 'ctx'], {})
                first = 'returned'
            except InterpRaise as e:
                first = e.exc_name
            b2 = it.call(inner, [obj3, 'ctx'], {})
            rec('memo', 'context_property stores nothing when the evaluation raises', first == 'ImportError' and b2 == 'value 2',
                'an evaluation that raises must leave no memo behind (the next request evaluates again); first call %s, second call '
                'returned %r' % (first, b2))
        except InterpRaise as e:
            rec('memo', 'context_property computes once and returns the stored value', False, 'context_property raises %s' % e)
        return out
    return repo.memo('memo-decorator-model', build)


def _chain_nodes(node):
    out = []
    while isinstance(node, Obj):
        out.append(node)
        node = node.attrs.get('value')
    return out


def assigns_model(repo):
    """SourceScope.assigns interpreted on a module scope (built by supp's constructor) that recorded attribute assignments
    through add_attr_assign: every assignment must be booked on the object its *own* receiver evaluates to."""
    def build():
        from . import resolve_model as RM
        m = RM.get_model(repo)
        st = Stubs(repo)
        it = m.it
        out = []
        top = m.scope('SourceScope', Obj(m.cls('BaseScope'), {'names': {}}, 'builtins'))
        meth = Obj(m.cls('FuncScope'), {'top': top, 'parent': top}, 'method scope')
        meth2 = Obj(m.cls('FuncScope'), {'top': top, 'parent': top}, 'another method')
        inst_self = Obj(m.cls('InstanceValue'), {}, 'the instance self')
        inst_other = Obj(m.cls('InstanceValue'), {}, 'the instance other')
        recv = {}

        def name_node(ident, line):
            n = Obj(st.blank, {'id': ident, 'lineno': line, 'col_offset': 8}, 'receiver ' + ident)
            n.astcls = 'Name'
            recv[n.oid] = {'self': inst_self, 'other': inst_other}.get(ident)
            return n

        def attr_node(ident, attr, line):
            a = Obj(st.blank, {'value': name_node(ident, line), 'attr': attr, 'lineno': line, 'col_offset': 8}, '%s.%s' % (ident, attr))
            a.astcls = 'Attribute'
            return a
        entries = [(meth, attr_node('other', 'owner', 10), 'v1'), (meth, attr_node('self', 'x', 11), 'v2'),
                   (meth, attr_node('self', 'x', 12), 'v3'), (meth, attr_node('self', 'y', 13), 'v4'),
                   (meth, attr_node('unknown', 'z', 14), 'v5'), (meth2, attr_node('self', 'w', 20), 'v6'),
                   (meth2, attr_node('other', 'peer', 21), 'v7')]
        # a chained target with the cursor inside its head: `self.pare|nt.child = v` is analysed as self.pare<mark>nt.child = v
        mark = it.lookup_global('supp/util.py', 'SOURCE_MARK') if 'SOURCE_MARK' in it.module_env('supp/util.py') else '__supp_mark__'
        head = attr_node('self', 'pare%snt' % mark, 30)
        chain = Obj(st.blank, {'value': head, 'attr': 'child', 'lineno': 30, 'col_offset': 8}, 'self.pare<cursor>nt.child')
        chain.astcls = 'Attribute'
        entries.append((meth, chain, 'v8'))
        asked = []
        ctx = Obj(st.blank, {'evaluate': Native('evaluate', lambda it_, a, k: (asked.append(a[0]), recv.get(a[0].oid))[1])}, 'ctx')
        try:
            for sc, an, v in entries:
                it.call(it.getattr(top, 'add_attr_assign'), [sc, an, Unknown(v)], {})
            res = it.call(it.getattr(top, 'assigns'), [ctx], {})
            marked = [x for x in asked if isinstance(x, Obj) and any(
                str(mark) in str(y.attrs.get('attr', '')) + str(y.attrs.get('id', '')) for y in _chain_nodes(x))]
            out.append(('assigns-mark', 'no receiver that contains the cursor mark is evaluated', not marked,
                        'assist analyses the text with the cursor mark spliced in; SourceScope.assigns evaluates the receiver %s of a recorded '
                        'assignment although the mark is inside it: it evaluates to nothing and the assignment vanishes from the analysis of '
                        'the marked text, while the analysis of the unmarked text has it (the proposals for the object differ)'
                        % (marked[0].label if marked else ''), 'assigns: only receivers the cursor cannot be in (bare names) are evaluated'))
            got = {}
            for k, table in res.items():
                for attr, mv in table.items():
                    vals = mv.attrs.get('values') if isinstance(mv, Obj) else mv
                    got[(k.label, attr)] = [(x.attrs.get('value').tag if isinstance(x.attrs.get('value'), Unknown) else x.attrs.get('value'),
                                             x.attrs.get('declared_at')) for x in vals]
            want = {('the instance other', 'owner'): [('v1', (10, 8))], ('the instance self', 'x'): [('v2', (11, 8)), ('v3', (12, 8))],
                    ('the instance self', 'y'): [('v4', (13, 8))], ('the instance self', 'w'): [('v6', (20, 8))],
                    ('the instance other', 'peer'): [('v7', (21, 8))]}
            out.append(('assigns', 'every attribute assignment is booked on its own receiver', got == want,
                        'seven recorded assignments (other.owner, self.x twice, self.y, unknown.z in one method; self.w, other.peer in '
                        'another) must be grouped by the object each receiver evaluates to, in order, with the position of the '
                        'attribute node; got %s' % (got,), 'assigns: receiver evaluated per assignment; grouped by object'))
        except InterpRaise as e:
            out.append(('assigns', 'every attribute assignment is booked on its own receiver', False, 'assigns raises %s' % e, None))
        return out
    return repo.memo('assigns-model', build)


# ---------------------------------------------------------------------------
# module cache across edit histories (C09)
# ---------------------------------------------------------------------------

PROJECT = 'supp/project.py'


def _source_suffixes(it):
    """project.py may take its table of source suffixes from importlib.machinery (a name the interpreter does not know): on this
    interpreter it is ['.py']"""
    env = it.module_env('supp/project.py')
    if 'SOURCE_SUFFIXES' in env and not isinstance(env['SOURCE_SUFFIXES'], (list, tuple, set, frozenset)):
        env['SOURCE_SUFFIXES'] = ['.py']


def cache_history_model(repo, depth=3):
    """Project.get_module / check_changes / SourceModule.changed / SourceModule.scope interpreted on a modelled file system with
    scripted modification times and contents, over every history of length <= depth built from: edit a module (new content, mtime
    a fraction of a second later), restore an older revision (old content, older mtime), request a module inside a
    change-checking context, a request that fails after it validated its module, creation of a module that did not exist.  After
    every history the analysis served for a module requested inside a fresh context must be the analysis of the file's current
    content (what a newly created project would compute)."""
    def build():
        import itertools
        facts = get_facts(repo)
        it = Interp(repo, facts)
        it.memoise_cached = True
        it.module_env(PROJECT)['SUFFIXES'] = ['.py']
        _source_suffixes(it)
        it.sys_path = []
        it.sys_modules = {}
        # the analysis of a module is stood for by the text it was computed from and, for module a (which star-imports b), by the
        # text of b it saw at that moment.  supp's own extract_scope is interpreted; what it builds on (the scope object, the tree
        # walk, the star-import expansion) is stubbed
        menv = it.module_env('supp/module.py')
        nenv = it.module_env('supp/nast.py')
        real_source = it.lookup_global('supp/module.py', 'Source')

        def mk_source(i2, a, k):
            o = i2.call(real_source, list(a), dict(k))
            o.attrs['tree'] = Unknown('tree')
            return o

        def mk_scope(i2, a, k):
            src = a[0]
            sc = Obj(facts.classes['SourceScope'], {'source': src, 'flow': Unknown('flow'), 'text': src.attrs.get('orig_source'),
                                                   'deps': None}, 'analysis')

            def star_imports(i3, a3, k3):
                if str(src.attrs.get('filename')).endswith('a.py'):
                    try:
                        mb = i3.call(i3.getattr(a3[0], 'get_module'), ['b'], {})
                    except InterpRaise as e:
                        if e.exc_name not in ('ImportError', 'ModuleNotFoundError'):
                            raise
                        sc.attrs['deps'] = 'b cannot be imported'      # (supp's own resolve_star_imports skips such an import)
                        return
                    sc.attrs['deps'] = i3.getattr(mb, 'scope').attrs.get('text')
            sc.attrs['resolve_star_imports'] = Native('resolve_star_imports', star_imports)
            return sc
        menv['Source'] = Native('Source', mk_source)
        nenv['SourceScope'] = Native('SourceScope', mk_scope)
        nenv['extract'] = Native('extract', lambda i2, a, k: None)
        # "now" is half a second after the latest save: every file counts as just written
        clock = Native('time', lambda i2, a, k: max(it.mtimes.values()) + 0.5 if it.mtimes else 0.0)
        for rel in ('supp/module.py', PROJECT):
            it.module_env(rel)['time'] = clock
        it.import_overrides[('time', 'time')] = clock
        proj_cls = facts.classes.get('Project')
        if proj_cls is None:
            raise AnalysisError('Project vanished')
        out = []
        ops = ['edit a', 'edit b', 'touch a', 'restore a', 'request a', 'request b', 'failing request a', 'create c', 'request c',
               'delete b']
        bad = []
        bad_deps = []
        second = []
        unstable = []
        n = 0

        def request(p, name, fail=False):
            """-> the analysis served | exception name"""
            cm = it.call(it.getattr(p, 'check_changes'), [], {})
            it.call(it.getattr(cm, '__enter__'), [], {})
            err = None
            try:
                m = it.call(it.getattr(p, 'get_module'), [name], {})
                m2 = it.call(it.getattr(p, 'get_module'), [name], {})
                if m2 is not m:
                    unstable.append(name)
                r = it.getattr(m, 'scope')
                r = ('analysis of', r.attrs.get('text'), r.attrs.get('deps')) if isinstance(r, Obj) else r
                # the second lookup of the request is answered from the per-request table
                r2 = it.getattr(m2, 'scope')
                r2 = ('analysis of', r2.attrs.get('text'), r2.attrs.get('deps')) if isinstance(r2, Obj) else r2
                path2 = '<S>/%s.py' % name
                if not fail and path2 in it.fs and r2[:2] != ('analysis of', it.files[path2]):
                    second.append((name, r2[:2], it.files[path2]))
                if fail:
                    raise InterpRaise('SyntaxError', 'the request fails after its module was validated')
            except InterpRaise as e:
                err = e
                r = e.exc_name
            it.call(it.getattr(cm, '__exit__'), [err.exc_name if err else None, err, None], {})
            return r

        for k in range(1, depth + 1):
            for hist in itertools.product(ops, repeat=k):
                if hist[-1] not in ('request a', 'request b', 'request c'):
                    continue
                n += 1
                it.reset_path([])
                it.fs = {'<S>/a.py', '<S>/b.py'}
                it.mtimes = {'<S>/a.py': 1000.25, '<S>/b.py': 1000.25}
                it.files = {'<S>/a.py': 'a: revision 0', '<S>/b.py': 'b: revision 0'}
                rev = {'<S>/a.py': 0, '<S>/b.py': 0}
                clock = [1000.25]
                oldest = {}
                seq = [0]
                changed_at = {'<S>/a.py': 0, '<S>/b.py': 0}
                try:
                    p = it.instantiate(proj_cls, [['<S>']], {})
                    request(p, 'a')
                    request(p, 'b')        # both modules are cached by the long-lived project
                    for op in hist:
                        kind, _, mod = op.rpartition(' ')
                        path = '<S>/%s.py' % mod
                        if kind in ('edit', 'touch', 'restore'):
                            seq[0] += 1
                            changed_at[path] = seq[0]
                        if kind in ('edit', 'touch', 'restore') and path not in it.fs:
                            if kind != 'edit':
                                continue              # nothing to touch or restore: the file was deleted
                            it.fs.add(path)           # saving a deleted file creates it again
                        if kind == 'edit':
                            clock[0] += 0.25          # saved again within the same second
                            rev[path] += 1
                            it.mtimes[path] = clock[0]
                            it.files[path] = '%s: revision %d' % (mod, rev[path])
                        elif kind == 'touch':
                            clock[0] += 0.25          # saved without a change: new modification time, same text
                            it.mtimes[path] = clock[0]
                        elif kind == 'restore':
                            rev[path] += 1
                            oldest[path] = oldest.get(path, 1000.25) - 0.125     # older than any time this file ever had:
                            it.mtimes[path] = oldest[path]                       # a modification time is never reused
                            it.files[path] = '%s: restored (%d)' % (mod, rev[path])
                        elif kind == 'delete':
                            # the file is removed (a renamed or deleted module): importlib no longer finds it
                            if path in it.fs:
                                seq[0] += 1
                                changed_at[path] = seq[0]
                                it.fs.discard(path)
                                it.mtimes.pop(path, None)
                                it.files.pop(path, None)
                        elif kind == 'create':
                            if path not in it.fs:
                                clock[0] += 0.25
                                it.fs.add(path)
                                it.mtimes[path] = clock[0]
                                it.files[path] = '%s: revision 0' % mod
                                rev[path] = 0
                        elif kind == 'failing request':
                            request(p, mod, fail=True)
                        elif kind == 'request':
                            got = request(p, mod)
                            want = ('analysis of', it.files[path]) if path in it.fs else 'ImportError'
                            if (got[:2] if isinstance(got, tuple) else got) != want:
                                bad.append((hist, op, got[:2] if isinstance(got, tuple) else got, want))
                                break
                            # a module saved after the module it imports from was last changed is analysed anew, against the current
                            # state of that module (older analyses of a that outlive a change of b are the known defect C09-R1)
                            if mod == 'a' and changed_at['<S>/a.py'] >= changed_at['<S>/b.py'] and changed_at['<S>/b.py'] > 0 \
                                    and got[2] != it.files.get('<S>/b.py', 'b cannot be imported'):
                                bad_deps.append((hist, op, got[2], it.files.get('<S>/b.py', 'b cannot be imported')))
                                break
                except Uninterpretable as e:
                    raise AnalysisError('the module cache is outside the interpretable subset: %s' % e)
                except InterpRaise as e:
                    bad.append((hist, 'exception', '%s: %s' % (e.exc_name, e.msg), None))
        it.mtimes = it.files = None
        bad.sort(key=lambda b: len(b[0]))
        out.append(('history', 'every request sees the current state of its module (histories up to length %d)' % depth, not bad,
                    'after the history %s the request `%s` was served %s while a new project would compute %s: a long-lived project '
                    'answers from a stale analysis' % ((' ; '.join(bad[0][0]), bad[0][1], bad[0][2], bad[0][3]) if bad else ('', '', '', '')),
                    '%d histories: the served analysis is always that of the current file content' % n))
        bad_deps.sort(key=lambda b: len(b[0]))
        out.append(('history', 'a module saved again is analysed against the current state of what it imports', not bad_deps,
                    'module a star-imports b; after the history %s the request `%s` was served an analysis of a made when b read %r '
                    'while b now reads %r, although a was saved after b: the analysis of a file is not a function of its text alone, '
                    'a new modification time must lead to a new analysis' % ((' ; '.join(bad_deps[0][0]), bad_deps[0][1], bad_deps[0][2],
                                                                             bad_deps[0][3]) if bad_deps else ('', '', '', '')),
                    'a re-saved importer sees the current exporter'))
        out.append(('history-count', 'histories explored', n >= 100, 'only %d histories' % n, None))
        out.append(('second-lookup', 'the per-request table only holds modules valid for this request', not second,
                    'the second get_module(%r) of one request (answered from the per-request table) served %s while the file reads %r: '
                    'a module that did not pass the validity test was remembered for the rest of the request'
                    % (second[0] if second else ('', '', '')), 'both lookups of a request serve the current content'))
        out.append(('identity', 'a module keeps its identity within one request', not unstable,
                    'two consecutive get_module(%r) calls inside one change-checking context returned different module objects: the '
                    're-entrancy guards of the evaluator compare nodes by identity, so an import cycle between freshly saved modules '
                    'recurses without end' % (unstable[0] if unstable else ''), 'get_module is stable within a request'))
        # the package-name cache: a directory that was not a package when first asked may have become one since
        it2 = Interp(repo, facts)
        it2.module_env(PROJECT)['SUFFIXES'] = ['.py']
        _source_suffixes(it2)
        it2.sys_path = []
        it2.sys_modules = {}
        it2.reset_path([])
        it2.fs = {'<S>/newpkg/mod.py', '<S>/newpkg/util.py'}
        p = it2.instantiate(proj_cls, [['<S>']], {})
        steps = []
        for phase in ('before __init__.py exists', 'before __init__.py exists (asked again)', 'after __init__.py was created',
                      'after __init__.py was created (asked again)'):
            if phase.startswith('after'):
                it2.fs.add('<S>/newpkg/__init__.py')
            try:
                steps.append(it2.call(it2.getattr(p, 'norm_package'), ['.util', '<S>/newpkg/mod.py'], {}))
            except InterpRaise as e:
                steps.append(e.exc_name)
            except Uninterpretable as e:
                raise AnalysisError('norm_package is outside the interpretable subset: %s' % e)
        out.append(('history', 'a directory that becomes a package is seen as one', steps == ['ImportError', 'ImportError', 'newpkg.util', 'newpkg.util'],
                    'norm_package(".util") from <S>/newpkg/mod.py asked twice before and twice after newpkg/__init__.py was created must '
                    'give ImportError, ImportError, newpkg.util, newpkg.util (what a new project answers on each disk state); got %s'
                    % (steps,), 'relative names are resolved against the current package structure'))
        return out
    return repo.memo('cache-history-model-%d' % depth, build)


def descriptor_model(repo):
    """FuncScope.resolve interpreted on stub method scopes: a method decorated with `property` or with a class that provides
    __get__ anywhere along its MRO is read as the value its getter returns; any other function is the function object."""
    def build():
        st = Stubs(repo)
        it = st.it
        out = []
        SCOPE_REL = 'supp/scope.py'
        env = it.module_env(SCOPE_REL)
        made = []

        def FuncObject(it_, a, k):
            o = st.obj('FuncObject', 'function object', call=Native('call', lambda i2, a2, k2: 'VALUE RETURNED BY THE GETTER'))
            made.append(o)
            return o
        saved = env.get('FuncObject')
        env['FuncObject'] = Native('FuncObject', FuncObject)
        try:
            cls_scope = st.obj('ClassScope', 'class body')
            mod_scope = st.obj('SourceScope', 'module')
            prop = st.obj('RuntimeName', 'builtin property', name='property', is_builtin=True)
            other_builtin = st.obj('RuntimeName', 'builtin staticmethod', name='staticmethod', is_builtin=True)
            own = st.obj('ClassObject', 'descriptor class defining __get__', _attrs={'__get__': 1, '__init__': 2},
                         scope=st.obj('ClassScope', 'its body', locals={'__get__', '__init__'}))
            inherited = st.obj('ClassObject', 'descriptor class inheriting __get__', _attrs={'__get__': 1, 'extra': 2},
                               scope=st.obj('ClassScope', 'its body', locals={'extra'}))
            plain = st.obj('ClassObject', 'decorator class without __get__', _attrs={'__call__': 1},
                           scope=st.obj('ClassScope', 'its body', locals={'__call__'}))
            cases = [('@property', cls_scope, [prop], True), ('a descriptor class defining __get__', cls_scope, [own], True),
                     ('a descriptor class inheriting __get__ from a base', cls_scope, [inherited], True),
                     ('a decorator class without __get__', cls_scope, [plain], False), ('@staticmethod', cls_scope, [other_builtin], False),
                     ('no decorator', cls_scope, [], False), ('@property on a module-level function', mod_scope, [prop], False),
                     ('a plain decorator followed by @property', cls_scope, [plain, prop], True)]
            for label, parent, decos, want_value in cases:
                vals = {}
                nodes = []
                for i, d in enumerate(decos):
                    nd = st.obj(None, 'decorator %d' % i)
                    nd.astcls = 'Name'
                    vals[nd.oid] = d
                    nodes.append(nd)
                ctx = st.obj(None, 'ctx', evaluate=Native('evaluate', lambda i2, a2, k2, _v=vals: _v.get(a2[0].oid)))
                ms = st.obj('FuncScope', 'method', parent=parent, decorator_list=nodes, name='meth')
                del made[:]
                try:
                    r = it.call(it.getattr(ms, 'resolve'), [ctx], {})
                    got_value = r == 'VALUE RETURNED BY THE GETTER'
                    ok = got_value == want_value and (want_value or (made and r is made[-1]))
                    detail = 'the getter\'s value' if got_value else repr(r)
                except InterpRaise as e:
                    ok, detail = False, 'raises %s' % e
                out.append(('descriptor', 'a method under %s resolves to %s' % (label, 'its getter\'s value' if want_value else 'the function'),
                            ok, 'a function in a %s decorated with %s must resolve to %s; got %s'
                            % ('class' if parent is cls_scope else 'module', label, 'the value its getter returns (attribute access '
                               'through the descriptor)' if want_value else 'the function object', detail),
                            '%s -> %s' % (label, 'getter value' if want_value else 'function')))
            # the first parameter of a function written in a class body: the instance - except under @staticmethod, where it
            # is an ordinary argument (under @classmethod it is the class: the instance's attributes are a superset, accepted)
            inst = st.obj('InstanceValue', 'instance of the class')
            klass = st.obj('ClassObject', 'the class', call=Native('call', lambda i2, a2, k2: inst))
            cls_scope2 = st.obj('ClassScope', 'class body', resolve=Native('resolve', lambda i2, a2, k2: klass))
            cm = st.obj('RuntimeName', 'builtin classmethod', name='classmethod', is_builtin=True)
            for label, parent, decos, want in (('no decorator', cls_scope2, [], 'instance'), ('@staticmethod', cls_scope2, [other_builtin], None),
                                               ('@property', cls_scope2, [prop], 'instance'), ('@classmethod', cls_scope2, [cm], 'instance or class'),
                                               ('a plain decorator class', cls_scope2, [plain], 'instance'),
                                               ('no decorator, module level', mod_scope, [], None)):
                vals, nodes = {}, []
                for i, d in enumerate(decos):
                    nd = st.obj(None, 'decorator %d' % i)
                    nd.astcls = 'Name'
                    vals[nd.oid] = d
                    nodes.append(nd)
                ctx = st.obj(None, 'ctx', evaluate=Native('evaluate', lambda i2, a2, k2, _v=vals: _v.get(a2[0].oid)))
                ms = st.obj('FuncScope', 'method', parent=parent, decorator_list=nodes, name='meth')
                arg0 = st.obj('ArgumentName', 'first parameter', idx=[0], name='self', func=ms)
                arg1 = st.obj('ArgumentName', 'second parameter', idx=[1], name='other', func=ms)
                try:
                    r0 = it.call(it.getattr(ms, 'get_argument'), [ctx, arg0], {})
                    r1 = it.call(it.getattr(ms, 'get_argument'), [ctx, arg1], {})
                    ok = r1 is None and ((want is None and r0 is None) or (want == 'instance' and r0 is inst) or
                                         (want == 'instance or class' and (r0 is inst or r0 is klass)))
                    detail = 'first parameter -> %r, second -> %r' % (r0, r1)
                except InterpRaise as e:
                    ok, detail = False, 'raises %s' % e
                out.append(('first-param', 'first parameter of a function under %s' % label, ok,
                            'the first parameter of a function (%s) must evaluate to %s, any other parameter to nothing; %s: with a static '
                            'method taken for an instance method, `target.x = 1` inside it becomes an instance attribute of the class and wins '
                            'over the class attribute x' % (label, want or 'nothing', detail), '%s -> %s' % (label, want)))
        finally:
            if saved is not None:
                env['FuncObject'] = saved
        return out
    return repo.memo('descriptor-model', build)


# ---------------------------------------------------------------------------
# Project.list_packages on a modelled file system
# ---------------------------------------------------------------------------

def list_packages_model(repo):
    """Project.list_packages interpreted on a modelled file system with the suffix table importlib uses on CPython/Linux
    (tagged extension suffixes before '.so'), two source roots, one sys.path entry and some loaded modules, under both set
    orders.  Tags: 'lp' (the set of proposed names), 'lp-ident' (every proposed name is an identifier)."""
    def build():
        PROJECT = 'supp/project.py'
        facts = get_facts(repo)
        proj = facts.classes.get('Project')
        if proj is None:
            raise AnalysisError('Project vanished')
        itl = Interp(repo, facts)
        itl.module_env(PROJECT)['SUFFIXES'] = ['.py', '.pyc', '.cpython-312-x86_64-linux-gnu.so', '.abi3.so', '.so']
        _source_suffixes(itl)
        # (a path entry may be a regular file - a zip archive or an egg on sys.path: listing it raises NotADirectoryError, an OSError)
        itl.sys_path = ['<P1>', '<Z>/vendor.zip']
        itl.fs_plain_files = {'<Z>/vendor.zip'}
        # (modules loaded by file name - importlib.import_module('my-script'), a plug-in loader - sit in sys.modules under names no
        # import statement can spell)
        itl.sys_modules = {'pkg.loaded': 1, 'pkg.loaded.deep': 1, 'pkgother.x': 1, 'other': 1, 'pkg': 1,
                           'pkg.plug-in': 1, 'my-script': 1, 'pkg.9lives.x': 1}
        itl.fs_dirs = {'<S1>/pkg': ['a.py', '__init__.py', 'sub', 'data', 'c.txt', 'b.so', 'a.so', 'speed.cpython-312-x86_64-linux-gnu.so',
                                    'stable.abi3.so', 'old.pyc', 'notes.txt.py', '_sysconfigdata__linux_x86_64-linux-gnu.py',
                                    'my-script.py', '3rd.py', '.hidden.py'], '<P1>/pkg': ['z.py'],
                       '<S1>': ['top.py', 'pkg'], '<S2>': [], '<P1>': ['pkg', 'lib.so']}
        itl.fs = {'<S1>/pkg/sub/__init__.py', '<S1>/pkg/__init__.py', '<P1>/pkg/__init__.py'}
        itl.reset_path([])
        out = []
        for order in ('fwd', 'rev'):
            itl.set_order = order
            # (<P1>/pkg/z.py is not importable: pkg is bound to the first root that has it, <S1>/pkg)
            for root, want in (('pkg', {'a', 'b', 'sub', 'loaded', 'speed', 'stable', 'old'}),
                               ('', {'pkg', 'pkgother', 'other', 'top', 'lib'})):
                try:
                    p = itl.instantiate(proj, [['<S1>', '<S2>']], {})
                    got = itl.call(itl.getattr(p, 'list_packages'), [root], {})
                    got = set(itl.iterate(got))
                    exc = None
                except InterpRaise as e:
                    got, exc = None, e
                except Uninterpretable as e:
                    raise AnalysisError('list_packages is outside the interpretable subset: %s' % e)
                out.append(('lp-total', 'list_packages(%r) skips path entries it cannot list [%s]' % (root, order), exc is None,
                            'list_packages(%r) raises %s on a search path one entry of which is a regular file (<Z>/vendor.zip: os.listdir raises '
                            'NotADirectoryError, an OSError that is not FileNotFoundError): the exception leaves assist on an import line, which may '
                            'raise SyntaxError only' % (root, exc), 'list_packages(%r) raises nothing on an unlistable path entry' % root))
                out.append(('lp', 'list_packages(%r) walks sources, sys.path and sys.modules [%s]' % (root, order), got == want,
                            'on the modelled file system list_packages(%r) must give %s (modules with a suffix of the shared table and packages with '
                            '__init__.py - for a package: in the directory of the first root that has it, which is what import binds it to -, '
                            'loaded modules); got %s' % (root, sorted(want), exc or sorted(got)),
                            'list_packages(%r) = %s' % (root, sorted(want))))
                bad = sorted(x for x in (got or ()) if not (isinstance(x, str) and x.isidentifier()))
                out.append(('lp-ident', 'list_packages(%r) proposes identifiers [%s]' % (root, order), got is not None and not bad,
                            'module names proposed on an import line must be identifiers: list_packages(%r) gives %s on a directory '
                            'holding a.py, b.so, speed.cpython-312-x86_64-linux-gnu.so, stable.abi3.so, old.pyc and files no import statement can name '
                            '(notes.txt.py, _sysconfigdata__linux_x86_64-linux-gnu.py, my-script.py, 3rd.py), with modules loaded under the names '
                            'pkg.plug-in, my-script and pkg.9lives.x' % (root, exc or bad),
                            'list_packages(%r) gives identifiers' % root))
        return out
    return repo.memo('list-packages-model', build)


# ---------------------------------------------------------------------------
# the unit of columns
# ---------------------------------------------------------------------------

COLUMN_TEXTS = [
    u"s = '\u00e4\u00f6\u00fc'; name = 1\n",
    u"def f(\u03b1, beta):\n    return [\u03b1 for gamma in beta if '\u00e9' in gamma]\n",
    u"x = '\U0001f600'; import os as operating\nprint('\u00df', x, operating)\n",
    u"plain = 1; ascii_only = plain\n",
    # characters str.splitlines() takes for line ends and the parser does not (inside a literal or a comment)
    u"sep = 'a\u2028b'  # caf\u00e9\nhome = 1; cwd = home\n",
    u"note = 'x\x0by\x1cz\u0085'\n# \u00e9\u00e9\nvalue = 1; other = value\n",
    # a node that starts on an ASCII line and ends on a line with non-ASCII text
    u"def f():\n    names = [1,\n        '\u00e9\u00e9\u00e9\u00e9\u00e9\u00e9']; return names\n",
    u"from pkg import (nombre as\n    \u00f1ame)\n",
]


def column_unit_model(repo):
    """supp's own Source(text).tree interpreted with the real parser on texts that hold non-ASCII characters in front of
    identifiers: cursor positions, reported positions and the text search index the *characters* of source.lines, the parser
    counts UTF-8 *bytes* - the tree supp analyses must have its columns in characters (every Name and every parameter must sit
    at its column of the line)."""
    def build():
        import ast as _ast
        UTIL = 'supp/util.py'
        facts = get_facts(repo)
        out = []
        for text in COLUMN_TEXTS:
            it = Interp(repo, facts)
            it.memoise_cached = True
            it.reset_path([])
            env = it.module_env(UTIL)
            env['parse'] = Native('ast.parse', lambda i2, a, k: _ast.parse(a[0]))
            try:
                src = it.call(it.lookup_global(UTIL, 'Source'), [text, '/p/t.py'], {})
                tree = it.getattr(src, 'tree')
                lines = it.getattr(src, 'lines')
            except InterpRaise as e:
                out.append(('columns', 'columns of %r' % text.splitlines()[0], False, 'Source(text).tree raises %s' % e, None))
                continue
            except Uninterpretable as e:
                raise AnalysisError('Source.tree is outside the interpretable subset: %s' % e)
            bad = []
            # the end positions too (where a binding becomes visible, where an as-name stands): compared with the checker's own
            # parse, byte columns converted to characters line by line
            raw = text.replace('\r\n', '\n').replace('\r', '\n').split('\n')

            def chars(ln, col):
                return len(raw[ln - 1].encode('utf-8')[:col].decode('utf-8', 'ignore'))
            ref = [n for n in _ast.walk(_ast.parse(text)) if getattr(n, 'end_col_offset', None) is not None]
            got = [n for n in _ast.walk(tree) if getattr(n, 'end_col_offset', None) is not None]
            if len(ref) == len(got):
                for rn, gn in zip(ref, got):
                    want = (rn.end_lineno, chars(rn.end_lineno, rn.end_col_offset))
                    have = (gn.end_lineno, gn.end_col_offset)
                    if want != have:
                        bad.append('the end of the %s that starts at (%d, %d) is %s, the characters of the line say %s'
                                   % (type(rn).__name__, rn.lineno, chars(rn.lineno, rn.col_offset), have, want))
                        break
            for n in _ast.walk(tree):
                ident = n.id if isinstance(n, _ast.Name) else n.arg if isinstance(n, _ast.arg) else None
                if ident is None:
                    continue
                line = lines[n.lineno - 1]
                if line[n.col_offset:n.col_offset + len(ident)] != ident:
                    bad.append('%s at (%d, %d) where the line reads %r' % (ident, n.lineno, n.col_offset,
                                                                            line[n.col_offset:n.col_offset + len(ident)]))
            out.append(('columns', 'columns of %r index the characters of the line' % text.splitlines()[0], not bad,
                        'the tree supp analyses positions %s: the parser counts UTF-8 bytes, while the cursor position (`line[:col]`), the '
                        'text search and the editor count characters - with non-ASCII text earlier on the line bindings become visible '
                        'at the wrong column, reported positions miss their identifier' % '; '.join(bad[:3]),
                        'every identifier of %r sits at its reported column' % text.splitlines()[0]))
        return out
    return repo.memo('column-unit-model', build)
