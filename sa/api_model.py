"""Abstract interpretation of supp's API functions (linter.lint, assistant.assist,
assistant.location, EvalCtx.declarations/_evaluate) on stub analysis results.

The functions are interpreted from supp's source by sa.absint; what they call to
*obtain* an analysis (parsing, extract_scope, the cursor-mark finders) is replaced by
stubs that hand back small hand-built objects, so that the part under analysis is
exactly the glue the properties talk about: which table is consulted, which entries
are marked, which bindings are reported with which fields, how results are formatted.
Because the functions are interpreted rather than pattern-matched, refactorings
(helper extraction, guard clauses, renamed locals) do not affect the verdicts.
"""
from .core import AnalysisError
from .facts import get_facts
from .absint import (Interp, Obj, Native, Unknown, InterpRaise, Uninterpretable, FuncVal)

LINTER = 'supp/linter.py'
ASSIST = 'supp/assistant.py'
UTIL = 'supp/util.py'


class Stubs(object):
    def __init__(self, repo):
        self.repo = repo
        self.facts = get_facts(repo)
        self.it = Interp(repo, self.facts)
        self.it.memoise_cached = True
        self.it.reset_path([])
        self.blank = self.facts.classes.get('Unresolved') or self.facts.classes['Callable']
        self.syntax_error = None
        self.scope = None
        self.usages = []
        self.calls = []
        util = self.it.module_env(UTIL)
        util['parse'] = Native('parse', self.n_parse)
        for rel in (LINTER, ASSIST, 'supp/nast.py'):
            env = self.it.module_env(rel)
            if 'extract_scope' in env or rel == 'supp/nast.py':
                env['extract_scope'] = Native('extract_scope', lambda it, a, k: self.n_extract_scope(a))
        for rel in (LINTER, UTIL):
            self.it.module_env(rel)['get_name_usages'] = Native('get_name_usages', lambda it, a, k: list(self.usages))

    def cls(self, name):
        c = self.facts.classes.get(name)
        if c is None:
            raise AnalysisError('class %s vanished' % name)
        return c

    def obj(self, cname, label=None, **attrs):
        return Obj(self.cls(cname) if cname else self.blank, dict(attrs), label)

    def n_parse(self, it, args, kwargs):
        if self.syntax_error:
            raise InterpRaise('SyntaxError', self.syntax_error['msg'], None, dict(self.syntax_error))
        return Unknown('tree')

    def n_extract_scope(self, args):
        self.calls.append(('extract_scope',))
        return self.scope

    def call(self, rel, fname, *args):
        self.it.steps = 0
        return self.it.call(self.it.lookup_global(rel, fname), list(args), {})

    # ---- building blocks ------------------------------------------------------------------------
    def scope_chain(self, kind, parent_kind=None):
        top = self.obj('SourceScope', 'module', source=self.obj(None, 'source', filename='/p/this.py'))
        top.attrs['top'] = top
        if kind == 'module':
            return top
        parent = top
        if parent_kind == 'class':
            parent = self.obj('ClassScope', 'outer class', parent=top, top=top)
        elif parent_kind == 'function':
            parent = self.obj('FuncScope', 'outer function', parent=top, top=top)
        cname = {'class': 'ClassScope', 'function': 'FuncScope'}[kind]
        return self.obj(cname, kind, parent=parent, top=top)

    def read(self, ident, line, col, table=None, no_flow=False):
        """A stub ast.Name read; `table` is what its region returns from names_at."""
        node = self.obj(None, 'read %s' % ident, id=ident, lineno=line, col_offset=col)
        if not no_flow:
            def names_at(it, a, k, _node=node, _table=table):
                self.calls.append(('names_at', _node, a[0]))
                return dict(_table or {})
            node.attrs['flow'] = self.obj('Flow', 'region of %s' % ident, names_at=Native('names_at', names_at),
                                          scope=self.scope_chain('function'))
        return node


def get_stubs(repo):
    return Stubs(repo)


# ---------------------------------------------------------------------------
# lint
# ---------------------------------------------------------------------------

ATOMS = ['USED', 'UNDERSCORE', 'IS_STAR', 'MODCLASS', 'IS_IMPORT', 'FUTURE', 'QUALIFIED', 'IS_PARAM', 'PARENT_CLASS']


def lint_candidate(st, v, scope_kind):
    """Build the stub scope holding one candidate binding described by valuation v; returns (name obj, text)."""
    text = '_cand' if v['UNDERSCORE'] else 'cand'
    if v['MODCLASS']:
        sc = st.scope_chain(scope_kind, 'class' if v['PARENT_CLASS'] else None)
    else:
        sc = st.scope_chain('function', 'class' if v['PARENT_CLASS'] else 'function')
    flow = st.obj('Flow', 'region', scope=sc)
    if v['IS_IMPORT']:
        name = st.obj('ImportedName', 'candidate', name=text, location=(5, 9), declared_at=(5, 7),
                      module='__future__' if v['FUTURE'] else 'pkg', mname=None, is_star=bool(v['IS_STAR']), qualified=False)
    elif v['IS_PARAM']:
        name = st.obj('ArgumentName', 'candidate', name=text, location=(6, 4), declared_at=(5, 7), idx=[0])
    else:
        name = st.obj('AssignedName', 'candidate', name=text, location=(5, 9), declared_at=(5, 7), value_node=None)
    name.attrs['scope'] = sc
    if v['USED']:
        name.attrs['used'] = True
    st.scope = st.obj('SourceScope', 'analysed scope', all_names=[(flow, name)])
    st.usages = []
    if v['QUALIFIED']:
        other = st.obj('ImportedName', 'dotted import read elsewhere', name=text, location=(2, 0), declared_at=(2, 7),
                       module=text, mname=None, is_star=False, qualified=True)
        other.attrs['scope'] = st.scope_chain('module')
        st.usages = [st.read(text, 9, 0, {text: other})]
    return name, text


def run_lint(st, text='x = 1\n'):
    st.calls = []
    return st.call(LINTER, 'lint', Unknown('project'), text, '/p/this.py')


def consistent(v):
    if (v['IS_STAR'] or v['FUTURE'] or v['QUALIFIED']) and not v['IS_IMPORT']:
        return False
    if v['IS_PARAM'] and (v['IS_IMPORT'] or v['MODCLASS']):
        return False          # parameters live in the function's own region
    if (v['IS_STAR'] or v['FUTURE']) and not v['MODCLASS']:
        return False          # import * / from __future__ are module-level only
    return True


def reference(v):
    """From the property statement (C10)."""
    if v['USED']:
        return None
    if not v['MODCLASS']:
        if v['UNDERSCORE']:
            return None
        if v['IS_PARAM'] and v['PARENT_CLASS']:
            return None       # parameter of a method
        return 'W01'
    if v['IS_IMPORT'] and not v['UNDERSCORE'] and not v['FUTURE'] and not v['IS_STAR'] and not v['QUALIFIED']:
        return 'W02'
    return None


DECL = (571, 233)
LOC = (571, 239)


def _mk(st, cname, text, scope, decl=DECL, loc=LOC, **kw):
    base = dict(name=text, location=loc, declared_at=decl, scope=scope)
    if cname == 'ImportedName':
        base.update(module='pkg', mname=None, is_star=False, qualified=False)
    if cname == 'AssignedName':
        base.update(value_node=None)
    if cname == 'ArgumentName':
        base.update(idx=[0])
    base.update(kw)
    return st.obj(cname, '%s %s' % (cname, text), **base)


def _safe_lint(st):
    """-> (result list, None) or (None, description of the exception lint raised)"""
    try:
        r = run_lint(st)
    except InterpRaise as e:
        return None, '%s: %s' % (e.exc_name, e.msg)
    if not isinstance(r, list):
        raise AnalysisError('lint model: result is not a concrete list: %r' % (r,))
    return r, None


def lint_model(repo):
    """Interpret linter.lint on stub analyses.  -> list of records
    (tag, key, ok, message, sample); tags: table, fields, once, producers, lookup, marks, locals, message."""
    cached = getattr(repo, '_lint_model', None)
    if cached is not None:
        return cached
    import itertools
    st = get_stubs(repo)
    out = []

    def rec(tag, key, ok, msg, sample=None):
        out.append((tag, key, bool(ok), msg, sample))

    # --- decision table --------------------------------------------------------------------------
    rows = 0
    for bits in itertools.product([False, True], repeat=len(ATOMS)):
        v = dict(zip(ATOMS, bits))
        if not consistent(v):
            continue
        for kind in (['module', 'class'] if v['MODCLASS'] else ['function']):
            rows += 1
            name, text = lint_candidate(st, v, kind)
            name.attrs['declared_at'] = DECL
            name.attrs['location'] = LOC
            res, exc = _safe_lint(st)
            on = [a for a in ATOMS if v[a]]
            key = 'row %s in %s scope' % ('+'.join(on) or 'none', kind)
            want = reference(v)
            if exc:
                rec('table', key, False, 'lint raises %s for a binding with atoms {%s}' % (exc, ', '.join(on)))
                continue
            mine = [r for r in res if isinstance(r, tuple) and len(r) >= 4 and isinstance(r[0], str) and r[0].startswith('W')]
            got = mine[0][0] if mine else None
            rec('table', key, got == want and len(mine) <= 1,
                'exemption rules differ from the statement for a binding with atoms {%s} in a %s scope: lint reports %s, the '
                'statement requires %s' % (', '.join(on) or 'none', kind, [m[0] for m in mine] or None, want),
                '%s -> %s' % ('+'.join(on) or '(plain unused binding)', want))
            if mine and got == want:
                r = mine[0]
                rec('fields', key, (r[2], r[3]) == DECL,
                    'the %s report of a binding declared at %s (identifier text ends at %s) carries position %s'
                    % (got, DECL, LOC, (r[2], r[3])), '%s report position = declared_at' % got)
                msg = r[1]
                okm = isinstance(msg, str) and text in msg and not any(str(d) in msg for d in DECL + LOC)
                rec('message', key, okm, 'the %s message %r must name the binding %r and carry no position' % (got, msg, text))
    rec('rows', 'decision rows', rows >= 150, 'only %d consistent rows enumerated' % rows)

    fn_scope = st.scope_chain('function', 'function')
    flow = st.obj('Flow', 'region', scope=fn_scope)

    # --- two unused bindings: each reported once with its own fields -----------------------------
    a = _mk(st, 'AssignedName', 'alpha', fn_scope, (31, 4), (31, 9))
    b = _mk(st, 'AssignedName', 'beta', fn_scope, (47, 8), (47, 12))
    st.scope = st.obj('SourceScope', 'analysed scope', all_names=[(flow, a), (flow, b)])
    st.usages = []
    res, exc = _safe_lint(st)
    got = sorted((r[0], r[2], r[3], 'alpha' in r[1], 'beta' in r[1]) for r in res) if res is not None else exc
    rec('once', 'two unused locals', got == [('W01', 31, 4, True, False), ('W01', 47, 8, False, True)],
        'two unused locals alpha@(31,4), beta@(47,8) must give exactly one report each with its own name and position; got %s'
        % (res if res is not None else exc,), 'each binding reported once with its own name/declared_at')

    # --- producers ---------------------------------------------------------------------------------
    st.scope = st.obj('SourceScope', 'analysed scope', all_names=[])
    st.syntax_error = {'msg': 'invalid syntax', 'lineno': 613, 'offset': 17}
    res, exc = _safe_lint(st)
    st.syntax_error = None
    ok = res is not None and len(res) == 1 and tuple(res[0][:4]) == ('E01', 'invalid syntax', 613, 17)
    rec('producers', 'E01 on a syntax error', ok, 'a file that does not parse must give exactly one E01 with the parser\'s message, '
        'line and offset; got %s' % (res if res is not None else exc,), 'SyntaxError -> [E01 msg line offset]')

    st.usages = [st.read('ghost', 88, 21, no_flow=True)]
    res, exc = _safe_lint(st)
    ok = res is not None and len(res) == 1 and res[0][0] == 'E42' and (res[0][2], res[0][3]) == (88, 21) and 'ghost' in res[0][1]
    rec('producers', 'E42 for a read without region', ok, 'a read that no visitor gave a region must give exactly one E42 at its '
        'own position; got %s' % (res if res is not None else exc,), 'read without .flow -> E42 at np(read)')

    other = _mk(st, 'AssignedName', 'other', fn_scope)
    other.attrs['used'] = True
    st.usages = [st.read('ghost', 88, 21, {'other': other})]
    res, exc = _safe_lint(st)
    ok = res is not None and len(res) == 1 and res[0][0] == 'E02' and (res[0][2], res[0][3]) == (88, 21) and 'ghost' in res[0][1] \
        and not any(str(d) in res[0][1] for d in (88, 21))
    rec('producers', 'E02 for a name absent from the table', ok, 'a read whose name is absent from names_at(position) must give '
        'exactly one E02 at its own position; got %s' % (res if res is not None else exc,), 'name not in table -> E02 at np(read)')
    asked = [c for c in st.calls if c[0] == 'names_at']
    ok = bool(asked) and all(tuple(c[2]) == (88, 21) for c in asked if isinstance(c[2], tuple)) and all(isinstance(c[2], tuple) for c in asked)
    rec('lookup', 'table is names_at(position of the read)', ok, 'lint must consult names_at of the read\'s own region at the '
        'read\'s own position (88, 21); asked: %s' % ([c[2] for c in asked],), 'lint: read.flow.names_at(np(read))[read.id]')

    # two reads on one line of one region: each consults the table at its own position
    late = _mk(st, 'AssignedName', 'late', fn_scope, (88, 10), (88, 14))
    late.attrs['used'] = True
    r1 = st.read('other', 88, 4)
    r2 = st.read('late', 88, 30)
    shared = r1.attrs['flow']
    r2.attrs['flow'] = shared

    def names_at(it, a_, k):
        st.calls.append(('names_at', None, a_[0]))
        return {'other': other, 'late': late} if tuple(a_[0]) >= (88, 14) else {'other': other}
    shared.attrs['names_at'] = Native('names_at', names_at)
    st.usages = [r1, r2]
    res, exc = _safe_lint(st)
    rec('lookup', 'two reads on one line consult the table at their own columns', res == [],
        '`late` is bound between two reads of the same line and region; the second read (88, 30) must be looked up in the '
        'table at its own position, not one computed for the first read (88, 4); got %s' % (res if res is not None else exc,),
        'same line, same region: one names_at(position) per read')

    found = _mk(st, 'AssignedName', 'ghost', fn_scope)
    st.scope = st.obj('SourceScope', 'analysed scope', all_names=[(flow, found)])
    st.usages = [st.read('ghost', 88, 21, {'ghost': found, 'other': other})]
    res, exc = _safe_lint(st)
    rec('producers', 'no diagnostic for a found name', res == [], 'a read found in the table, whose binding is thereby used, must '
        'give no diagnostic; got %s' % (res if res is not None else exc,), 'name in table -> no E02, binding marked used')

    # --- every alternative is marked ------------------------------------------------------------------
    alts = [_mk(st, 'AssignedName', 'multi', fn_scope, (10 + i, 4), (10 + i, 9)) for i in range(3)]
    mn = st.it.call(st.it.lookup_global('supp/name.py', 'MultiName'), [list(alts)], {})
    st.scope = st.obj('SourceScope', 'analysed scope', all_names=[(flow, x) for x in alts])
    st.usages = [st.read('multi', 88, 21, {'multi': mn})]
    res, exc = _safe_lint(st)
    unmarked = [x.attrs['declared_at'] for x in alts if not x.attrs.get('used')]
    rec('marks', 'every alternative of a union is marked used', res == [] and not unmarked,
        'a read resolving to three alternative bindings must mark all three as used; unmarked: %s, diagnostics: %s'
        % (unmarked, res if res is not None else exc), 'union of 3 alternatives: all marked')

    imp = _mk(st, 'ImportedName', 'pkg', fn_scope, qualified=True, module='pkg.sub')
    st.scope = st.obj('SourceScope', 'analysed scope', all_names=[(flow, imp)])
    st.usages = [st.read('pkg', 88, 21, {'pkg': imp})]
    res, exc = _safe_lint(st)
    rec('marks', 'a read dotted import is marked used', res == [] and imp.attrs.get('used'),
        'a function-level `import pkg.sub` that is read must be marked used; diagnostics: %s' % (res if res is not None else exc,))

    # --- locals() ----------------------------------------------------------------------------------------
    outer = st.scope_chain('function', 'function')
    rd = st.read('locals', 88, 21)
    own = rd.attrs['flow'].attrs['scope']
    mine1 = _mk(st, 'AssignedName', 'mine', own, (80, 4), (80, 8))
    theirs = _mk(st, 'AssignedName', 'theirs', outer, (70, 4), (70, 10))
    builtin = st.obj('RuntimeName', 'builtin locals', name='locals', location=(0, 0))
    br = [_mk(st, 'AssignedName', 'branchy', outer, (72 + i, 8), (72 + i, 15)) for i in range(2)]
    brm = st.it.call(st.it.lookup_global('supp/name.py', 'MultiName'), [list(br)], {})
    table = {'locals': builtin, 'mine': mine1, 'theirs': theirs, 'branchy': brm}
    rd.attrs['flow'].attrs['names_at'] = Native('names_at', lambda it, a_, k: dict(table))
    f2 = st.obj('Flow', 'outer region', scope=outer)
    st.scope = st.obj('SourceScope', 'analysed scope', all_names=[(rd.attrs['flow'], mine1), (f2, theirs)] + [(f2, x) for x in br])
    st.usages = [rd]
    res, exc = _safe_lint(st)
    got = sorted((r[0], r[2], r[3]) for r in res) if res is not None else exc
    rec('locals', 'locals() marks the bindings of its own scope only', got == [('W01', 70, 4), ('W01', 72, 8), ('W01', 73, 8)],
        'a call of the builtin locals() must mark as used exactly the bindings of the scope it is made in: expected the '
        'enclosing function\'s `theirs`@(70,4) and both alternatives of its `branchy`@(72,8),(73,8) to be reported and the own '
        '`mine` not, got %s' % (got,),
        'locals(): marks n for n in names_at(read) if n.scope is the scope of the call')
    shadow = _mk(st, 'AssignedName', 'locals', own, (60, 4), (60, 10))
    table2 = {'locals': shadow, 'mine': mine1}
    mine1.attrs.pop('used', None)
    rd.attrs['flow'].attrs['names_at'] = Native('names_at', lambda it, a_, k: dict(table2))
    st.scope = st.obj('SourceScope', 'analysed scope', all_names=[(rd.attrs['flow'], mine1), (rd.attrs['flow'], shadow)])
    res, exc = _safe_lint(st)
    got = [(r[0], r[2], r[3]) for r in res] if res is not None else exc
    rec('locals', 'a user binding named locals is an ordinary name', got == [('W01', 80, 4)],
        'reading a user-defined `locals` marks only that binding: expected `mine`@(80,4) reported, got %s' % (got,))
    repo._lint_model = out
    return out


def apply(res, records, mapping, rel, line):
    """mapping: tag -> rule id.  Emit the records of the mapped tags as obligations of `res`."""
    n = 0
    for tag, key, ok, msg, sample in records:
        rule = mapping.get(tag)
        if rule is None:
            continue
        n += 1
        res.check(rule, key, ok, rel, line, msg, sample=sample)
    return n


def all_names_model(repo):
    """SourceScope.all_names on a scope built through supp's own constructors: three regions (one empty), three
    bindings; the enumeration must yield each stored binding object exactly once, paired with its own region."""
    from . import resolve_model as RM
    m = RM.get_model(repo)
    out = []
    try:
        top = m.scope('SourceScope', Obj(m.cls('BaseScope'), {'names': {}}, 'builtins'))
        f0 = m.get(top, 'flow')
        f1 = m.it.call(m.it.getattr(top, 'add_flow'), [m.flow('one', top, [f0])], {})
        f2 = m.it.call(m.it.getattr(top, 'add_flow'), [m.flow('two', top, [f1])], {})
        a, b, c = m.name('a', (1, 0)), m.name('b', (2, 0)), m.name('c', (3, 0))
        m.add(f0, a)
        m.add(f2, c)
        m.add(f2, b)
        got = list(m.it.iterate(m.get(top, 'all_names')))
        pairs = sorted((x[0].oid, x[1].oid) for x in got)
        want = sorted([(f0.oid, a.oid), (f2.oid, b.oid), (f2.oid, c.oid)])
        out.append(('all_names', 'all_names yields every stored binding once with its region', pairs == want,
                    'SourceScope.all_names must enumerate each stored binding object exactly once, paired with the region it '
                    'was added to (3 bindings in 2 of 3 regions): got %d pairs %s' % (len(got), got),
                    'all_names: each (region, binding) once'))
    except InterpRaise as e:
        out.append(('all_names', 'all_names yields every stored binding once with its region', False,
                    'SourceScope.all_names raises %s' % e, None))
    return out
