"""E2 (depth 1) -- region templates: the supp-side view of one construct, built
from an E1 path summary, and its comparison with the reference block CFG (T3).

Resolution semantics assumed for a region graph (checked separately by the
C02-R4/C03-R2/C04 rules on scope.py): a read at position p in region R sees the
bindings of R located at or before p, shadowing everything R inherits from *all*
of its parents (complete tables of the parent regions, back edges included); a
name missing in one parent is "possibly undefined".

An opaque child (any statement / expression) may or may not replace the current
region.  At depth 1 its exit region is identified with its entry region (the
child creates no region); region-creating children are covered by the
continuity rule C01-R5 (no exit region may be dropped).
"""
from . import pyref
from .e1 import loc_kind


class Template(object):
    def __init__(self, root, ps):
        self.root = root
        self.ps = ps
        # the exit region of an opaque *expression* child is identified with its entry region (an expression creates
        # a region only through a comprehension, whose variables are local to it); the exit region of an opaque
        # *statement* child stays a region of its own whose only parent is the entry region: bindings made by the
        # statement may live in a region created inside it (a compound statement ends in a fresh join)
        self.alias = {}
        for tok, r in ps.regions.items():
            if r.get('exit_of') and self.sort_of(r['exit_of'][0]) != 'stmt':
                self.alias[tok] = r['exit_of'][1]
        # parents after alias collapse
        self.parents = {}
        for tok, r in ps.regions.items():
            if tok in self.alias:
                continue
            ps_ = [self.canon(p) for p in r['parents']] + [self.canon(p) for p in r['loops']]
            self.parents[tok] = [p for p in ps_ if p != tok] + ([tok] if tok in ps_ else [])
        self.visit_region = {}
        self.visit_order = []
        for path, reg, _ in ps.visits:
            self.visit_region[path] = self.canon(reg)
            self.visit_order.append(path)
        self.final = self.canon(ps.final_flow)

    def sort_of(self, path):
        cur = self.root
        rest = path[4:]
        import re as _re
        for fname, idx in _re.findall(r'\.(\w+)(?:\[(\d+)\])?', rest):
            if cur is None or not getattr(cur, 'fields', None):
                return None
            v = cur.fields.get(fname)
            if isinstance(v, list):
                v = v[int(idx)] if idx != '' and int(idx) < len(v) else None
            cur = v
        return getattr(cur, 'sort', None)

    def canon(self, tok):
        seen = set()
        while tok in self.alias and tok not in seen:
            seen.add(tok)
            tok = self.alias[tok]
        return tok

    def ancestors(self, tok):
        """Regions whose complete tables tok inherits (proper ancestors)."""
        out, work = set(), list(self.parents.get(tok, []))
        while work:
            p = work.pop()
            if p in out:
                continue
            out.add(p)
            work.extend(self.parents.get(p, []))
        return out

    def start(self, path):
        return pyref.pathkey(self.root, path)

    def loc_pos(self, loc):
        k = loc_kind(loc)
        if k[0] == 'np':
            return pyref.pathkey(self.root, k[1])
        if k[0] in ('expr_end', 'node_end'):
            return pyref.pathkey(self.root, k[1]) + pyref.AFTER_ALL
        if k[0] == 'first_body':
            return pyref.pathkey(self.root, k[1] + '[0]')
        return None

    def bind_visible_at(self, bind, path):
        """Is the binding visible to a read at the start of the leaf `path`?"""
        rb = self.canon(bind['region'])
        rv = self.visit_region.get(path)
        if rv is None:
            return None      # leaf not visited at all
        if rb == rv:
            pos = self.loc_pos(bind['location'])
            if pos is None:
                return None
            return pos <= self.start(path)
        return rb in self.ancestors(rv)

    def bind_visible_after(self, bind):
        rb = self.canon(bind['region'])
        return rb == self.final or rb in self.ancestors(self.final)

    # ---- block graph ----------------------------------------------------------
    def block_graph(self, blocks):
        """blocks: {name: [leaf nodes]}.  Graph nodes: 'pre', 'after', an (in, out) pair per region and, per
        block, an entry node (name, 'in') placed where the block's first leaf is visited and an exit node
        (name, 'out') placed where a binding made at the end of the block lives: the exit region of the last
        statement for statement blocks, the same place for expression blocks.  Inside a region the nodes are
        chained in position order; a region's entry inherits the complete table (out) of each parent region,
        back edges included."""
        places = []       # (region, position, node)
        unvisited = []
        for name, lv in blocks.items():
            regs = [self.visit_region.get(x.path) for x in lv]
            if any(r is None for r in regs):
                unvisited.append(name)
                continue
            places.append((regs[0], self.start(lv[0].path), (name, 'in')))
            last = lv[-1]
            if last.sort == 'stmt':
                places.append((self.canon('exit(%s)' % last.path), (), (name, 'out')))
            else:
                places.append((regs[-1], self.start(last.path) + pyref.AFTER_ALL, (name, 'out')))
        regions = set(self.parents) | {'CUR', self.final} | {r for r, _, _ in places}
        for r in list(regions):
            regions.update(self.parents.get(r, []))
        succ = {}

        def edge(a, b):
            succ.setdefault(a, set()).add(b)
            succ.setdefault(b, set())
        for r in regions:
            inside = sorted(((pos, i) for i, (reg, pos, _) in enumerate(places) if reg == r), key=lambda x: (x[0], x[1]))
            chain = [('in', r)] + [places[i][2] for _, i in inside] + [('out', r)]
            for a, b in zip(chain, chain[1:]):
                edge(a, b)
            for p in self.parents.get(r, []):
                edge(('out', p), ('in', r))
        edge('pre', ('in', 'CUR'))
        edge(('out', self.final), 'after')
        nodes = {n: 1 for n in succ}
        return nodes, succ, unvisited


def reach_relations(nodes, preds_or_succ, is_succ):
    """For node sets with an edge relation compute
       may[a] = set of b such that a binding made in a can be seen at entry of b
       dom[b] = set of a through which every route from 'pre' to b passes."""
    names = list(nodes)
    succ = {n: set() for n in names}
    if is_succ:
        for a, bs in preds_or_succ.items():
            succ.setdefault(a, set()).update(bs)
    else:
        for b, as_ in preds_or_succ.items():
            for a in as_:
                succ.setdefault(a, set()).add(b)
    may = {}
    for a in names:
        seen, work = set(), list(succ.get(a, ()))
        while work:
            x = work.pop()
            if x in seen:
                continue
            seen.add(x)
            work.extend(succ.get(x, ()))
        may[a] = seen
    # dominators by removal: a dominates b iff b unreachable from pre once a is removed
    dom = {b: set() for b in names}
    for a in names:
        if a == 'pre':
            continue
        seen, work = set(), ['pre']
        while work:
            x = work.pop()
            if x in seen or x == a:
                continue
            seen.add(x)
            work.extend(succ.get(x, ()))
        for b in names:
            if b != a and b in may.get('pre', set()) | {'pre'} and b not in seen:
                dom[b].add(a)
    return may, dom


def reachable_without(preds_or_succ, is_succ, removed, start='pre'):
    """Nodes reachable from `start` once the nodes in `removed` are taken out of the graph."""
    succ = {}
    if is_succ:
        for a, bs in preds_or_succ.items():
            succ.setdefault(a, set()).update(bs)
    else:
        for b, as_ in preds_or_succ.items():
            for a in as_:
                succ.setdefault(a, set()).add(b)
    seen, work = set(), [start]
    while work:
        x = work.pop()
        if x in seen or x in removed:
            continue
        seen.add(x)
        work.extend(succ.get(x, ()))
    return seen
