"""Symbolic interpretation of supp/umsgpack.py (engine E5, second generation).

The writer (`pack`) is interpreted once per *kind* of value of the MessagePack data
model with a symbolic controlling quantity (the integer itself, or the length of the
string / bytes / array / map / ext data): every comparison of that quantity with a
constant forks the path and narrows an interval, `struct.pack` with a symbolic argument
yields a symbolic header field, `fp.write` records the emitted template.  The reader
(`unpack`) is interpreted once per first byte 0..255 on a file object whose reads return
symbolic header bytes / payloads; `struct.unpack` of such bytes yields a field variable
ranging over the format's domain, and reads of symbolic size record the length expression.

The result is two tables of symbolic paths,
    writer:  (kind, interval of the quantity) -> emitted parts | exception
    reader:  first byte -> (reads, result description) | exception
which sa/props/c14.py compares with the MessagePack specification table.  Because the
tables are computed by interpretation, the shape of the code (elif chains, lookup tables,
helper functions, local aliases) does not matter.
"""
import ast
import struct as _struct
import io as _io

from .core import AnalysisError
from .facts import get_facts
from .absint import (Interp, Obj, Native, NativeModule, Unknown, InterpRaise, Uninterpretable, FuncVal, ClassRef)

F = 'supp/umsgpack.py'
BIG = 2 ** 80


class Infeasible(Exception):
    pass


class SymInt(object):
    """An integer variable; its current interval lives in the interpreter's path state."""
    def __init__(self, name, lo=-BIG, hi=BIG):
        self.name = name
        self.lo = lo
        self.hi = hi

    def __repr__(self):
        return self.name


class SymField(SymInt):
    """struct.unpack(fmt, <k-th header read>)[i] (or ord() of a one-byte read)."""
    def __init__(self, read, fmt, index, lo, hi):
        SymInt.__init__(self, 'field(read%d %s[%d])' % (read, fmt, index), lo, hi)
        self.read = read
        self.fmt = fmt
        self.index = index


class SymBitLength(object):
    """t.bit_length() of a symbolic integer t."""
    def __init__(self, of):
        self.of = of

    def __repr__(self):
        return '%r.bit_length()' % (self.of,)


class SymExpr(object):
    def __init__(self, op, args):
        self.op = op
        self.args = args

    def __repr__(self):
        if len(self.args) == 1:
            return '(%s %r)' % (self.op, self.args[0])
        return '(%r %s %r)' % (self.args[0], self.op, self.args[1])


_OPS = {
    'Add': lambda a, b: a + b, 'Sub': lambda a, b: a - b, 'Mult': lambda a, b: a * b, 'BitOr': lambda a, b: a | b,
    'BitAnd': lambda a, b: a & b, 'BitXor': lambda a, b: a ^ b, 'LShift': lambda a, b: a << b, 'RShift': lambda a, b: a >> b,
    'FloorDiv': lambda a, b: a // b, 'Mod': lambda a, b: a % b, 'Pow': lambda a, b: a ** b,
    'USub': lambda a: -a, 'Invert': lambda a: ~a, 'UAdd': lambda a: +a,
}


def sym_eval(x, env):
    """Value of an int / SymInt / SymExpr under env: variable name -> int."""
    if isinstance(x, bool):
        return int(x)
    if isinstance(x, int):
        return x
    if isinstance(x, SymInt):
        if x.name not in env:
            raise KeyError(x.name)
        return env[x.name]
    if isinstance(x, SymExpr):
        return _OPS[x.op](*[sym_eval(a, env) for a in x.args])
    raise TypeError('not an integer expression: %r' % (x,))


def _base_off(x):
    if isinstance(x, SymExpr) and x.op in ('Add', 'Sub') and isinstance(x.args[1], int):
        b, o = _base_off(x.args[0])
        return b, o + (x.args[1] if x.op == 'Add' else -x.args[1])
    return x, 0


def _const_diff(a, b):
    """a - b when both are the same symbolic base plus constants, else None."""
    ba, oa = _base_off(a)
    bb, ob = _base_off(b)
    if ba is bb and is_sym(ba):
        return oa - ob
    return None


def is_sym(x):
    return isinstance(x, (SymInt, SymExpr))


class SymPayload(object):
    """Opaque bytes of symbolic length: the writer's payload (encoded string, bytes object, ext data) or what a
    reader's fp.read(<symbolic n>) returned."""
    def __init__(self, label, length, read=None):
        self.label = label
        self.length = length
        self.read = read

    def __repr__(self):
        return '<%s: %r bytes>' % (self.label, self.length)


class SymRead(object):
    """What the k-th fp.read(n) of concrete size n returned (header bytes)."""
    def __init__(self, k, size):
        self.k = k
        self.size = size

    def __repr__(self):
        return '<read%d: %d bytes>' % (self.k, self.size)


class SymPack(object):
    def __init__(self, fmt, args):
        self.fmt = fmt
        self.args = args

    def __repr__(self):
        return 'pack(%r, %s)' % (self.fmt, ', '.join(map(repr, self.args)))


class SymCat(object):
    def __init__(self, parts):
        self.parts = parts

    def __repr__(self):
        return ' + '.join(map(repr, self.parts))


class SymStr(object):
    pytype = 'str'
    chars = None

    def __repr__(self):
        return '<a str>'


class SymSeq(object):
    def __init__(self, pytype, length):
        self.pytype = pytype
        self.length = length

    def __repr__(self):
        return '<a %s of %r>' % (self.pytype, self.length)


class SymMap(object):
    pytype = 'dict'

    def __init__(self, length):
        self.length = length

    def __repr__(self):
        return '<a dict of %r>' % (self.length,)


class SymFloat(object):
    pytype = 'float'

    def __repr__(self):
        return '<a float>'


class SymAny(object):
    """A nested value of unknown kind (an element, a key, a decoded nested object)."""
    def __init__(self, label):
        self.label = label

    def __repr__(self):
        return '<%s>' % self.label


class SymRange(object):
    def __init__(self, n):
        self.n = n


class SymRepeat(object):
    """[f(i) for i in range(n)]"""
    def __init__(self, n, value):
        self.n = n
        self.value = value

    def __repr__(self):
        return '[%r] * %r' % (self.value, self.n)


class SymDecoded(object):
    def __init__(self, payload, codec):
        self.payload = payload
        self.codec = codec

    def __repr__(self):
        return 'decode(%r, %r)' % (self.payload, self.codec)


def flat(x):
    if isinstance(x, SymCat):
        out = []
        for p in x.parts:
            out.extend(flat(p))
        return out
    return [x]


FMT_RANGE = {'B': (0, 255), 'b': (-128, 127), 'H': (0, 2 ** 16 - 1), 'h': (-2 ** 15, 2 ** 15 - 1), 'I': (0, 2 ** 32 - 1),
             'i': (-2 ** 31, 2 ** 31 - 1), 'Q': (0, 2 ** 64 - 1), 'q': (-2 ** 63, 2 ** 63 - 1), 'L': (0, 2 ** 32 - 1),
             'l': (-2 ** 31, 2 ** 31 - 1)}


class CodecInterp(Interp):
    def __init__(self, repo):
        Interp.__init__(self, repo, get_facts(repo))
        self.cons = {}
        self.written = []
        self.reads = []
        self.script = None
        self.short_at = None
        self.depth = {'pack': 0, 'unpack': 0}
        self.apply_module_decorators = True
        self.steps = 0
        env = self.module_env(F)
        import io
        import sys
        env['struct'] = NativeModule('struct', _struct)
        env['sys'] = NativeModule('sys', sys)
        env['io'] = NativeModule('io', io)
        env['Hashable'] = Native('Hashable', None)
        self.reset_path([])
        init = env.get('__init')
        if not isinstance(init, FuncVal):
            raise AnalysisError('umsgpack.__init vanished')
        try:
            self.call(init, [], {})
        except (Uninterpretable, InterpRaise) as e:
            raise AnalysisError('umsgpack.__init is outside the interpretable subset: %s' % e)
        self.env = env

    # ---- path state ----------------------------------------------------------------------------------------
    def reset_path(self, prefix):
        Interp.reset_path(self, prefix)
        self.cons = {}
        self.written = []
        self.reads = []
        self.depth = {'pack': 0, 'unpack': 0}
        self.repeat = []

    def rng(self, s):
        if s.name not in self.cons:
            self.cons[s.name] = [s.lo, s.hi, set()]
        return self.cons[s.name]

    def interval(self, s):
        lo, hi, ex = self.rng(s)
        return lo, hi, set(ex)

    def _holds(self, s, op, c):
        """True / False when decided by the current interval, None otherwise."""
        lo, hi, ex = self.rng(s)
        if op == 'Lt':
            return True if hi < c else False if lo >= c else None
        if op == 'LtE':
            return True if hi <= c else False if lo > c else None
        if op == 'Gt':
            return True if lo > c else False if hi <= c else None
        if op == 'GtE':
            return True if lo >= c else False if hi < c else None
        if op == 'Eq':
            if lo == hi == c:
                return True
            return False if (c < lo or c > hi or c in ex) else None
        if op == 'NotEq':
            r = self._holds(s, 'Eq', c)
            return None if r is None else not r
        raise Uninterpretable('comparison %s on a symbolic integer' % op)

    def _assume(self, s, op, c):
        r = self.rng(s)
        if op == 'Lt':
            r[1] = min(r[1], c - 1)
        elif op == 'LtE':
            r[1] = min(r[1], c)
        elif op == 'Gt':
            r[0] = max(r[0], c + 1)
        elif op == 'GtE':
            r[0] = max(r[0], c)
        elif op == 'Eq':
            r[0] = max(r[0], c)
            r[1] = min(r[1], c)
        elif op == 'NotEq':
            r[2].add(c)
        while r[0] in r[2]:
            r[0] += 1
        while r[1] in r[2]:
            r[1] -= 1
        if r[0] > r[1]:
            raise Infeasible()

    NEG = {'Lt': 'GtE', 'LtE': 'Gt', 'Gt': 'LtE', 'GtE': 'Lt', 'Eq': 'NotEq', 'NotEq': 'Eq'}
    SWAP = {'Lt': 'Gt', 'LtE': 'GtE', 'Gt': 'Lt', 'GtE': 'LtE', 'Eq': 'Eq', 'NotEq': 'NotEq'}

    def sym_compare(self, s, op, c):
        if not isinstance(c, int) or isinstance(c, bool) and False:
            raise Uninterpretable('comparison of %r with %r' % (s, c))
        h = self._holds(s, op, c)
        if h is not None:
            return h
        v = self.decide(('cmp', s.name, op, c))
        self._assume(s, op if v else self.NEG[op], c)
        return v

    def compare(self, op, a, b, node):
        opn = type(op).__name__
        if isinstance(a, SymBitLength) and isinstance(b, int) and not isinstance(b, bool) and opn in ('Gt', 'GtE', 'Lt', 'LtE'):
            # t.bit_length() > n  <=>  |t| >= 2**n
            n = b if opn in ('Gt', 'LtE') else b - 1
            big = (n < 0) or self.sym_compare(a.of, 'GtE', 2 ** n) or self.sym_compare(a.of, 'LtE', -(2 ** n))
            return big if opn in ('Gt', 'GtE') else not big
        if opn in self.NEG:
            if isinstance(a, SymInt) and isinstance(b, int):
                return self.sym_compare(a, opn, b)
            if isinstance(b, SymInt) and isinstance(a, int):
                return self.sym_compare(b, self.SWAP[opn], a)
            if isinstance(a, (float, int)) and isinstance(b, (float, int)) and not isinstance(a, bool) and opn in ('Lt', 'LtE', 'Gt', 'GtE'):
                return {'Lt': a < b, 'LtE': a <= b, 'Gt': a > b, 'GtE': a >= b}[opn]
            if is_sym(a) or is_sym(b):
                d = _const_diff(a, b)
                if d is not None:
                    return {'Lt': d < 0, 'LtE': d <= 0, 'Gt': d > 0, 'GtE': d >= 0, 'Eq': d == 0, 'NotEq': d != 0}[opn]
                raise Uninterpretable('comparison %r %s %r' % (a, opn, b))
        if opn in ('In', 'NotIn') and isinstance(a, SymInt) and isinstance(b, (dict, set, list, tuple, frozenset)):
            r = False
            for k in sorted(x for x in b if isinstance(x, int)):
                if self.sym_compare(a, 'Eq', k):
                    r = True
                    break
            return r if opn == 'In' else not r
        if opn in ('In', 'NotIn') and isinstance(a, (SymAny, SymDecoded, SymPayload)) and isinstance(b, dict):
            r = self.decide(('key-present', repr(a)))
            return r if opn == 'In' else not r
        if opn in ('Eq', 'NotEq') and isinstance(a, bytes) and isinstance(b, bytes):
            return (a == b) if opn == 'Eq' else (a != b)
        return Interp.compare(self, op, a, b, node)

    def truth(self, v, node):
        if isinstance(v, bytes):
            return bool(v)
        if isinstance(v, (SymPayload, SymAny, SymDecoded, SymSeq, SymMap, SymStr, SymRepeat)):
            raise Uninterpretable('truth value of %r' % (v,))
        if isinstance(v, SymInt):
            return self.sym_compare(v, 'NotEq', 0)
        return Interp.truth(self, v, node)

    # ---- expressions -------------------------------------------------------------------------------------------
    def concretise(self, x):
        """A symbolic integer whose interval is a single point is that integer."""
        if isinstance(x, SymInt):
            lo, hi, _ = self.rng(x)
            if lo == hi:
                return lo
        return x

    def e_BinOp(self, e, f):
        a, b = self.eval(e.left, f), self.eval(e.right, f)
        opn = type(e.op).__name__
        bytesy = (bytes, SymPack, SymCat, SymPayload, SymRead)
        if opn == 'Add' and isinstance(a, bytesy) and isinstance(b, bytesy):
            if isinstance(a, bytes) and isinstance(b, bytes):
                return a + b
            return SymCat(flat(a) + flat(b))
        if isinstance(a, bool) or isinstance(b, bool):
            a, b = (int(a) if isinstance(a, bool) else a), (int(b) if isinstance(b, bool) else b)
        if isinstance(a, int) and isinstance(b, int) and opn in _OPS:
            if opn == 'Pow' and (b < 0 or b > 128):
                raise Uninterpretable('power %r ** %r' % (a, b))
            return _OPS[opn](a, b)
        if (is_sym(a) or isinstance(a, int)) and (is_sym(b) or isinstance(b, int)) and opn in _OPS:
            a, b = self.concretise(a), self.concretise(b)
            if isinstance(a, int) and isinstance(b, int):
                return _OPS[opn](a, b)
            return SymExpr(opn, [a, b])
        if opn == 'Mod' and isinstance(a, str):
            return a            # message formatting: the text is irrelevant
        return Interp.e_BinOp(self, e, f)

    def e_UnaryOp(self, e, f):
        opn = type(e.op).__name__
        if opn in ('USub', 'Invert', 'UAdd'):
            v = self.eval(e.operand, f)
            if isinstance(v, int):
                return _OPS[opn](int(v))
            if is_sym(v):
                return SymExpr(opn, [v])
            raise Uninterpretable('unary %s on %r' % (opn, v))
        return Interp.e_UnaryOp(self, e, f)

    def e_ListComp(self, e, f):
        if len(e.generators) == 1 and not e.generators[0].ifs:
            it = self.eval(e.generators[0].iter, f)
            if isinstance(it, SymRange):
                self.repeat.append(('begin', it.n, len(self.reads)))
                self.assign(e.generators[0].target, SymInt('index'), f)
                v = self.eval(e.elt, f)
                self.repeat.append(('end', it.n, len(self.reads)))
                return SymRepeat(it.n, v)
            if isinstance(it, SymRepeat):
                self.assign(e.generators[0].target, it.value, f)
                return SymRepeat(it.n, self.eval(e.elt, f))
        return Interp.e_ListComp(self, e, f)

    def iterate(self, v):
        if isinstance(v, SymRange):
            self.repeat.append(('loop', v.n, len(self.reads)))
            return [SymInt('index')]
        if isinstance(v, SymSeq):
            self.repeat.append(('each-element', v.length, len(self.written)))
            return [SymAny('element')]
        if isinstance(v, SymRepeat):
            return [v.value]
        if isinstance(v, SymAny):
            return [SymAny('element of ' + v.label)]
        if isinstance(v, bytes):
            return list(v)
        return Interp.iterate(self, v)

    def getattr(self, v, attr, node=None):
        if isinstance(v, SymInt) and attr == 'bit_length':
            return Native('int.bit_length', lambda it, a, k: SymBitLength(v))
        if isinstance(v, int) and not isinstance(v, bool) and attr in ('bit_length', 'to_bytes'):
            return Native('int.%s' % attr, lambda it, a, k, _m=getattr(v, attr): _m(*a, **k), False)
        if isinstance(v, SymStr) and attr == 'encode':
            return Native('str.encode', lambda it, a, k: SymPayload('the encoded string', SymInt('L', 0, BIG)))
        if isinstance(v, SymMap) and attr == 'items':
            def items(it, a, k):
                self.repeat.append(('each-item', v.length, len(self.written)))
                return [(SymAny('key'), SymAny('value'))]
            return Native('dict.items', items)
        if isinstance(v, (SymPayload, SymRead)) and attr == 'decode':
            return Native('bytes.decode', lambda it, a, k: SymDecoded(v, a[0] if a else 'utf-8'))
        if type(v).__module__ == 'sys' and not callable(getattr(v, attr, None)):
            return getattr(v, attr)
        if isinstance(v, bytes):
            return Native('bytes.%s' % attr, lambda it, a, k, _m=getattr(v, attr): _m(*a, **k), False)
        if isinstance(v, _io.BytesIO) and attr in ('write', 'getvalue', 'read', 'seek', 'truncate', 'tell'):
            def bio(it, a, k, _m=getattr(v, attr)):
                if any(not isinstance(x, (bytes, int)) for x in a):
                    raise Uninterpretable('BytesIO.%s of %r' % (attr, a))
                return _m(*a)
            return Native('BytesIO.%s' % attr, bio)
        return Interp.getattr(self, v, attr, node)

    def index_value(self, i):
        return self.concretise(i)

    # ---- natives -----------------------------------------------------------------------------------------------------
    def call_native(self, fn, args, kwargs):
        if fn.name in ('bytes.decode', 'decode') and args and isinstance(args[0], (SymPayload, SymRead)):
            return SymDecoded(args[0], args[1] if len(args) > 1 else 'utf-8')
        if fn.name == 'Hashable':
            raise Uninterpretable('call of Hashable')
        return Interp.call_native(self, fn, args, kwargs)

    def nat_pack(self, args, kwargs):
        fmt = args[0]
        vals = [self.concretise(a) for a in args[1:]]
        if not isinstance(fmt, str):
            raise Uninterpretable('struct.pack with a computed format %r' % (fmt,))
        if all(isinstance(v, (int, float)) for v in vals):
            try:
                return _struct.pack(fmt, *vals)
            except _struct.error as e:
                raise InterpRaise('error', 'struct.error: %s' % e)
        return SymPack(fmt, vals)

    def nat_unpack(self, args, kwargs):
        fmt, data = args
        if isinstance(data, bytes):
            try:
                return _struct.unpack(fmt, data)
            except _struct.error as e:
                raise InterpRaise('error', 'struct.error: %s' % e)
        if isinstance(data, SymRead):
            try:
                size = _struct.calcsize(fmt)
            except _struct.error as e:
                raise InterpRaise('error', 'struct.error: %s' % e)
            if size != data.size:
                raise InterpRaise('error', 'struct.error: unpack(%r) requires %d bytes, the read has %d' % (fmt, size, data.size))
            codes = [c for c in fmt if c.isalpha()]
            out = []
            for i, c in enumerate(codes):
                if c in FMT_RANGE:
                    out.append(SymField(data.k, fmt, i, *FMT_RANGE[c]))
                elif c in 'fd':
                    out.append(('float-field', data.k, fmt))
                else:
                    raise Uninterpretable('struct.unpack format %r' % fmt)
            return tuple(out)
        raise Uninterpretable('struct.unpack of %r' % (data,))

    def nat_calcsize(self, args, kwargs):
        return _struct.calcsize(args[0])

    def nat_ord(self, args, kwargs):
        v, = args
        if isinstance(v, (bytes, str)):
            if len(v) != 1:
                raise InterpRaise('TypeError', 'ord() expected a character')
            return ord(v)
        if isinstance(v, SymRead):
            if v.size != 1:
                raise InterpRaise('TypeError', 'ord() expected a character, got %d bytes' % v.size)
            return SymField(v.k, 'B', 0, 0, 255)
        raise Uninterpretable('ord(%r)' % (v,))

    def nat_len(self, args, kwargs):
        v, = args
        if isinstance(v, (SymPayload, SymSeq, SymMap)):
            return self.concretise(v.length) if isinstance(v.length, SymInt) else v.length
        if isinstance(v, SymRead):
            return v.size
        if isinstance(v, SymStr):
            # the number of characters: a quantity of its own, not the length of the encoded payload
            if v.chars is None:
                v.chars = SymInt('chars', 0, BIG)
            return v.chars
        if isinstance(v, bytes):
            return len(v)
        return Interp.nat_len(self, args, kwargs)

    def nat_range(self, args, kwargs):
        if len(args) == 1 and is_sym(args[0]):
            return SymRange(args[0])
        if len(args) == 1 and isinstance(args[0], int) and args[0] > 1 and self.depth['unpack'] and not getattr(self, 'concrete', False):
            return SymRange(args[0])        # summarised: the body of a counted decoding loop is interpreted once
        return Interp.nat_range(self, args, kwargs)

    def nat_isinstance(self, args, kwargs):
        v, c = args
        classes = c if isinstance(c, tuple) else (c,)
        names = [getattr(k, 'name', None) for k in classes]
        pt = None
        if isinstance(v, bool):
            pt = ('bool', 'int')
        elif isinstance(v, SymInt) or (isinstance(v, int)):
            pt = ('int',)
        elif isinstance(v, (SymStr, SymSeq, SymMap, SymFloat)):
            pt = (v.pytype,)
        elif isinstance(v, (SymPayload, bytes, SymRead)):
            pt = ('bytes',)
        elif isinstance(v, float):
            pt = ('float',)
        elif v is None:
            pt = ()
        elif isinstance(v, str):
            pt = ('str',)
        elif isinstance(v, (SymAny, SymDecoded, SymRepeat)):
            if isinstance(v, SymRepeat) and set(names) <= {'list', 'tuple', 'dict', 'Hashable', 'int', 'str', 'bytes', 'float', 'bool'}:
                return 'list' in names
            if isinstance(v, SymDecoded) and 'Hashable' in names:
                return True
            if isinstance(v, SymAny) and v.label.startswith(('element of', 'tuple of')):
                # depth bound: the elements of a nested value are opaque, hashable leaves
                return 'Hashable' in names
            return self.decide(('isinstance', repr(v), tuple(sorted(str(n) for n in names))))
        if pt is not None:
            if 'Hashable' in names and not isinstance(v, (SymSeq, SymMap)):
                return True
            return any(n in pt for n in names)
        if isinstance(v, Obj) and 'Hashable' in names:
            # an instance is hashable unless its class defines __eq__ without __hash__ (Python then sets __hash__ to None)
            if v.cls.lookup('__hash__') is not None or v.cls.lookup('__eq__') is None:
                return True
        if isinstance(v, dict) and 'Hashable' in names and set(names) == {'Hashable'}:
            return False
        return Interp.nat_isinstance(self, args, kwargs)

    def nat_str(self, args, kwargs):
        return '<text>'

    def nat_tuple(self, args, kwargs):
        if args and isinstance(args[0], (SymRepeat, SymAny)):
            return SymAny('tuple of %r' % (args[0],))
        return Interp.nat_tuple(self, args, kwargs)

    def nat_type(self, args, kwargs):
        v, = args
        if isinstance(v, (SymAny, SymInt, SymStr, SymSeq, SymMap, SymFloat, SymPayload, SymDecoded, SymRepeat)):
            return Native('type-of-%s' % type(v).__name__, None)
        return Interp.nat_type(self, args, kwargs)

    # ---- recursion cut-off --------------------------------------------------------------------------------------------------
    def call_func(self, fv, args, kwargs):
        name = fv.name
        if name in ('_pack2', '_pack3') and args and isinstance(args[0], SymAny):
            self.written.append(('nested', args[0].label))
            return None
        if name == '_unpack' and self.depth['unpack'] >= 1 and not getattr(self, 'concrete', False):
            self.reads.append(('nested',))
            if getattr(self, 'nested_script', None):
                return self.nested_script.pop(0)
            return SymAny('nested value %d' % len(self.reads))
        if name == '_unpack':
            self.depth['unpack'] += 1
            try:
                return Interp.call_func(self, fv, args, kwargs)
            finally:
                self.depth['unpack'] -= 1
        return Interp.call_func(self, fv, args, kwargs)

    # ---- the file object ------------------------------------------------------------------------------------------------
    def writer_fp(self):
        def write(it, a, k):
            for p in flat(a[0]):
                self.written.append(p)
        return Obj(self.facts.classes.get('Ext') or next(iter(self.facts.classes.values())), {'write': Native('write', write)}, 'fp')

    def reader_fp(self, first):
        state = {'n': 0}

        def read(it, a, k):
            n = self.concretise(a[0]) if a else None
            i = state['n']
            state['n'] += 1
            short = self.short_at == i
            if i == 0:
                if n != 1:
                    raise Uninterpretable('the first read is of %r bytes' % (n,))
                if short:
                    self.reads.append(('short', 0))
                    return b''
                self.reads.append(('first', 1))
                return first
            if isinstance(n, int):
                if short and n == 0:
                    short = False          # a read of nothing cannot come back short
                if short:
                    self.reads.append(('short', i))
                    return SymRead(i, n - 1)
                self.reads.append(('header', i, n))
                return SymRead(i, n)
            if is_sym(n):
                if short:
                    self.reads.append(('short', i))
                    return SymPayload('truncated payload', SymExpr('Sub', [n, 1]), i)
                self.reads.append(('payload', i, n))
                return SymPayload('payload of read %d' % i, n, i)
            raise Uninterpretable('fp.read(%r)' % (n,))
        return Obj(self.facts.classes.get('Ext') or next(iter(self.facts.classes.values())), {'read': Native('read', read)}, 'fp')


def explore(it, run, limit=512):
    """All feasible decision sequences of run(); -> [(decisions, result, exception, snapshot dict)]."""
    stack = [[]]
    out = []
    n = 0
    while stack:
        prefix = stack.pop()
        it.reset_path(prefix)
        n += 1
        if n > limit:
            raise Uninterpretable('path explosion')
        exc = result = None
        feasible = True
        try:
            result = run()
        except InterpRaise as e:
            exc = e
        except Infeasible:
            feasible = False
        decisions = list(it.decisions)
        for j in range(len(prefix), len(decisions)):
            stack.append(decisions[:j] + [(decisions[j][0], True)])
        if feasible:
            out.append((decisions, result, exc, {'cons': {k: (v[0], v[1], set(v[2])) for k, v in it.cons.items()},
                                                 'written': list(it.written), 'reads': list(it.reads),
                                                 'repeat': list(it.repeat)}))
    return out


KINDS = ['nil', 'true', 'false', 'int', 'float', 'str', 'bytes', 'list', 'tuple', 'dict', 'ext', 'unsupported']


def ext_type_range(it):
    """The ext types Ext.__init__ accepts: the constructor is interpreted on a symbolic type."""
    cached = getattr(it, '_ext_range', None)
    if cached:
        return cached
    ext = ClassRef(it.facts.classes['Ext'])
    saved = (list(it.decisions), list(it.prefix), dict(it.cons), list(it.written), list(it.reads), list(it.repeat), list(it.effects),
             list(it.objs))

    def run():
        it.call(ext, [SymInt('t'), b'x'], {})
    ok = []
    try:
        for decisions, result, exc, snap in explore(it, run):
            if exc is None:
                c = snap['cons'].get('t')
                if c:
                    ok.append((c[0], c[1]))
    finally:
        it.decisions, it.prefix, it.cons, it.written, it.reads, it.repeat, it.effects, it.objs = saved
    if len(ok) != 1 or ok[0][0] <= -BIG or ok[0][1] >= BIG:
        raise AnalysisError('Ext.__init__ does not accept one bounded range of types: %s' % (ok,))
    it._ext_range = ok[0]
    return ok[0]


def make_value(it, kind):
    """-> (abstract value, the controlling symbolic quantity or None)"""
    if kind == 'nil':
        return None, None
    if kind == 'true':
        return True, None
    if kind == 'false':
        return False, None
    if kind == 'int':
        n = SymInt('n')
        return n, n
    if kind == 'float':
        return SymFloat(), None
    if kind == 'str':
        return SymStr(), None       # the quantity L appears when the writer encodes it
    if kind == 'bytes':
        n = SymInt('L', 0, BIG)
        return SymPayload('the bytes object', n), n
    if kind in ('list', 'tuple'):
        n = SymInt('L', 0, BIG)
        return SymSeq(kind, n), n
    if kind == 'dict':
        n = SymInt('L', 0, BIG)
        return SymMap(n), n
    if kind == 'ext':
        ext = it.facts.classes.get('Ext')
        if ext is None:
            raise AnalysisError('umsgpack.Ext vanished')
        n = SymInt('L', 0, BIG)
        lo, hi = ext_type_range(it)
        t = SymInt('t', lo, hi)
        return Obj(ext, {'type': t, 'data': SymPayload('the ext data', n)}, 'an Ext'), n
    if kind == 'unsupported':
        return Obj(it.facts.classes.get('Ext') and next(c for c in it.facts.classes.values() if c.name != 'Ext'), {}, 'an object'), None
    raise ValueError(kind)


def writer_table(repo, compat):
    """-> {kind: [path]}; path = dict(interval=(lo, hi, excluded) or None, written=[parts], exc=InterpRaise|None,
    extra=cons of the other variables)"""
    it = repo.memo('codec-interp', lambda: CodecInterp(repo))
    it.env['compatibility'] = compat
    it.short_at = None
    pack = it.env.get('pack')
    if not isinstance(pack, FuncVal):
        raise AnalysisError('umsgpack.pack is not bound to a function by __init')
    table = {}
    for kind in KINDS:
        def run(kind=kind):
            v, q = make_value(it, kind)
            it.call(pack, [v, it.writer_fp()], {})
            return None
        try:
            paths = explore(it, run)
        except Uninterpretable as e:
            raise AnalysisError('pack(%s) is outside the interpretable subset: %s' % (kind, e))
        rows = []
        for decisions, result, exc, snap in paths:
            qn = 'n' if kind == 'int' else 'L'
            iv = snap['cons'].get(qn)
            if iv is None and kind in ('int', 'bytes', 'list', 'tuple', 'dict', 'ext', 'str'):
                iv = (-BIG if kind == 'int' else 0, BIG, set())
            rows.append({'interval': iv, 'written': snap['written'], 'exc': exc, 'cons': snap['cons'], 'repeat': snap['repeat'],
                         'decisions': decisions})
        table[kind] = rows
    return table


def reader_table(repo, compat, short=False):
    """-> {first byte: [path]}; path = dict(reads, result, exc, cons, repeat).  With short=True every path is re-run once per
    read with that read returning fewer bytes than asked; -> {byte: [(read index, exc or None, result)]}"""
    it = repo.memo('codec-interp', lambda: CodecInterp(repo))
    it.env['compatibility'] = compat
    unpack = it.env.get('unpack')
    if not isinstance(unpack, FuncVal):
        raise AnalysisError('umsgpack.unpack is not bound to a function by __init')
    table = {}
    for b in range(256):
        first = bytes([b])

        def run(first=first):
            return it.call(unpack, [it.reader_fp(first)], {})
        it.short_at = None
        try:
            paths = explore(it, run)
        except Uninterpretable as e:
            raise AnalysisError('unpack of first byte 0x%02x is outside the interpretable subset: %s' % (b, e))
        rows = [{'reads': s['reads'], 'result': r, 'exc': x, 'cons': s['cons'], 'repeat': s['repeat'], 'decisions': d}
                for d, r, x, s in paths]
        if short:
            cuts = []
            nreads = max(len([r for r in row['reads'] if r[0] != 'nested']) for row in rows)
            for k in range(nreads):
                it.short_at = k
                try:
                    ps = explore(it, run)
                except Uninterpretable as e:
                    raise AnalysisError('unpack of 0x%02x with a short read is outside the interpretable subset: %s' % (b, e))
                for d, r, x, s in ps:
                    if any(rd[0] == 'short' for rd in s['reads']):
                        cuts.append((k, x, r))
            it.short_at = None
            table[b] = cuts
        else:
            table[b] = rows
    return table


def map_with_key(repo, key):
    """unpack of a one-entry fixmap (0x81) whose nested unpack calls return `key` and then 'v' -> (result, exception)"""
    it = repo.memo('codec-interp', lambda: CodecInterp(repo))
    it.env['compatibility'] = False
    it.short_at = None
    unpack = it.env.get('unpack')
    it.reset_path([])
    it.nested_script = [key, 'v']
    try:
        return it.call(unpack, [it.reader_fp(b'\x81')], {}), None
    except InterpRaise as e:
        return None, e
    except Uninterpretable as e:
        raise AnalysisError('unpack of a map with a list key is outside the interpretable subset: %s' % e)
    finally:
        it.nested_script = None


def dumps_sequence(repo, values):
    """dumps() applied to each concrete value in turn on one interpreter -> list of bytes | exception name"""
    it = repo.memo('codec-interp', lambda: CodecInterp(repo))
    it.env['compatibility'] = False
    it.short_at = None
    dumps = it.env.get('dumps')
    out = []
    for v in values:
        it.reset_path([])
        if v == 'UNSUPPORTED':
            v = [1, 2, Obj(next(c for c in it.facts.classes.values() if c.name != 'Ext'), {}, 'an object')]
        try:
            out.append(it.call(dumps, [v], {}))
        except InterpRaise as e:
            out.append(e.exc_name)
        except Uninterpretable as e:
            raise AnalysisError('dumps is outside the interpretable subset: %s' % e)
    return out


def loads_value(repo, data):
    it = repo.memo('codec-interp', lambda: CodecInterp(repo))
    it.env['compatibility'] = False
    it.short_at = None
    it.reset_path([])
    it.concrete = True
    try:
        return it.call(it.env.get('loads'), [data], {}), None
    except InterpRaise as e:
        return None, e.exc_name
    except Uninterpretable as e:
        raise AnalysisError('loads is outside the interpretable subset: %s' % e)
    finally:
        it.concrete = False


def state_restoration(repo):
    """The module-level state of the codec (every int / bool / str / None variable and the size of every container of
    supp/umsgpack.py) before and after calls that fail part-way inside nested containers: it must be unchanged, whatever the
    call did - a later call must not see traces of an earlier one.  -> (ok, detail, n_calls)"""
    it = repo.memo('codec-interp', lambda: CodecInterp(repo))
    it.env['compatibility'] = False
    it.short_at = None

    def snap():
        out = {}
        for k, v in it.env.items():
            if isinstance(v, (bool, int, float, str, bytes, type(None))):
                out[k] = v
            elif isinstance(v, (list, dict, set, tuple)):
                out[k] = ('size', len(v))
        return out
    before = snap()
    unsupported = Obj(next(c for c in it.facts.classes.values() if c.name != 'Ext'), {}, 'an object')
    calls = [('loads', b'\x92\x91'), ('loads', b'\x81\x01\x92\x01'), ('loads', b'\x91\x81\x91\xa2\x41'), ('loads', b'\x91\xa1\xff'),
             ('loads', b'\x82\x01\x01\x01\x02'), ('loads', b'\x91\xc1'), ('dumps', [1, [2, {3: unsupported}]]), ('loads', b'\x92\x01\x02'),
             ('dumps', [1, {2: [3]}])]
    diffs = []
    it.concrete = True
    try:
        for fn, arg in calls:
            it.reset_path([])
            try:
                it.call(it.env.get(fn), [arg], {})
                outcome = 'returns'
            except InterpRaise as e:
                outcome = 'raises ' + e.exc_name
            except Uninterpretable as e:
                raise AnalysisError('%s is outside the interpretable subset: %s' % (fn, e))
            after = snap()
            changed = sorted(k for k in set(before) | set(after) if before.get(k) != after.get(k))
            if changed:
                diffs.append('%s(%r) %s and leaves %s' % (fn, arg if isinstance(arg, bytes) else '<nested value>', outcome,
                                                          ', '.join('%s = %r (was %r)' % (k, after.get(k), before.get(k)) for k in changed)))
                for k in changed:        # report each leak once
                    if k in after:
                        before[k] = after[k]
    finally:
        it.concrete = False
    return not diffs, '; '.join(diffs[:3]), len(calls)
