"""E0 -- program facts: module/alias tables, class table, function table,
resolved call graph (name-based CHA restricted to supp's own classes), small
path helpers.  Pure `ast`; never imports supp.
"""
import ast

from .core import AnalysisError, unparse, enclosing_class, enclosing_func, qualname

SUPP_MODULES = {
    'assistant': 'supp/assistant.py', 'compat': 'supp/compat.py', 'evaluator': 'supp/evaluator.py',
    'linter': 'supp/linter.py', 'merged_dict': 'supp/merged_dict.py', 'module': 'supp/module.py',
    'name': 'supp/name.py', 'nast': 'supp/nast.py', 'project': 'supp/project.py',
    'remote': 'supp/remote.py', 'scope': 'supp/scope.py', 'server': 'supp/server.py',
    'umsgpack': 'supp/umsgpack.py', 'util': 'supp/util.py',
}


class FuncInfo(object):
    def __init__(self, rel, node, cls=None):
        self.rel = rel
        self.node = node
        self.cls = cls          # ClassInfo or None
        self.name = node.name if not isinstance(node, ast.Lambda) else '<lambda>'
        self.qual = ('%s.%s' % (cls.name, self.name)) if cls else self.name
        self.decorators = [unparse(d) for d in getattr(node, 'decorator_list', [])]

    @property
    def key(self):
        return '%s:%s' % (self.rel, self.qual)

    user_property_decorators = frozenset()     # names of repository-defined decorators that return property(...) (set by Facts)

    @property
    def is_property(self):
        return any(d in ('property', 'cached_property') or d.endswith('.setter') or d in self.user_property_decorators
                   for d in self.decorators)

    @property
    def is_context_property(self):
        return 'context_property' in self.decorators

    def params(self):
        a = self.node.args
        pos = [x.arg for x in a.posonlyargs + a.args]
        return pos

    def __repr__(self):
        return 'Func(%s)' % self.key


class ClassInfo(object):
    def __init__(self, rel, node):
        self.rel = rel
        self.node = node
        self.name = node.name
        self.base_names = [unparse(b) for b in node.bases]
        self.bases = []        # ClassInfo list (resolved, supp classes only)
        self.methods = {}      # name -> FuncInfo (own)
        self.class_attrs = {}  # name -> node (own class-body assignments)
        self.init_attrs = set()   # self.X assigned in __init__
        self.other_attrs = set()  # self.X assigned in other methods
        self.subclasses = []

    def mro(self):
        out, seen = [], set()

        def walk(c):
            if c.name in seen:
                return
            seen.add(c.name)
            out.append(c)
            for b in c.bases:
                walk(b)
        walk(self)
        return out

    def lookup(self, name):
        for c in self.mro():
            if name in c.methods:
                return c.methods[name]
        return None

    def provides(self, attr):
        """Does every instance have `attr` (method, descriptor, class attr, or
        assigned in __init__ of the class that actually runs)?"""
        for c in self.mro():
            if attr in c.methods or attr in c.class_attrs:
                return True
        # __init__: the first __init__ in the MRO runs; explicit Base.__init__(self) calls chain
        return attr in self.init_attr_closure()

    def init_attr_closure(self):
        out = set()
        init = self.lookup('__init__')
        seen = set()

        def follow(fi):
            if fi is None or fi.key in seen:
                return
            seen.add(fi.key)
            out.update(fi.cls.init_attrs_of(fi))
            for n in ast.walk(fi.node):
                if isinstance(n, ast.Call) and isinstance(n.func, ast.Attribute) \
                        and n.func.attr == '__init__' and isinstance(n.func.value, ast.Name):
                    for c in self.mro():
                        if c.name == n.func.value.id:
                            follow(c.methods.get('__init__') or c.lookup('__init__'))
        follow(init)
        return out

    def init_attrs_of(self, fi):
        out = set()
        for n in ast.walk(fi.node):
            if isinstance(n, ast.Attribute) and isinstance(n.ctx, ast.Store) \
                    and isinstance(n.value, ast.Name) and n.value.id == 'self':
                out.add(n.attr)
        return out

    def all_subclasses(self):
        out = []
        for s in self.subclasses:
            out.append(s)
            out.extend(s.all_subclasses())
        return out

    def __repr__(self):
        return 'Class(%s)' % self.name


class Facts(object):
    def __init__(self, repo):
        self.repo = repo
        self.classes = {}      # name -> ClassInfo (supp class names are unique)
        self.funcs = {}        # key -> FuncInfo
        self.module_funcs = {}  # rel -> {name: FuncInfo}
        self.aliases = {}      # rel -> {local name: set of targets}
        self.imports = {}      # rel -> {local name: (rel2, name2) or ('module', rel2)}
        self._build()

    # ------------------------------------------------------------------
    def _build(self):
        ups = set()
        for rel, tree in self.repo.trees.items():
            for fn in tree.body:
                if isinstance(fn, ast.FunctionDef) and fn.name not in ('cached_property', 'context_property') and any(
                        isinstance(r, ast.Return) and isinstance(r.value, ast.Call) and unparse(r.value.func) == 'property'
                        for r in ast.walk(fn)):
                    ups.add(fn.name)
        self.user_property_decorators = frozenset(ups)
        self._build_all()
        for fi in self.funcs.values():
            fi.user_property_decorators = self.user_property_decorators

    def _build_all(self):
        for rel, tree in self.repo.trees.items():
            self.module_funcs[rel] = {}
            self.imports[rel] = {}
            self.aliases[rel] = {}
            for n in ast.walk(tree):
                if isinstance(n, ast.ClassDef):
                    if n.name in self.classes and self.classes[n.name].rel != rel:
                        # same class name in two modules (e.g. Starred fallback): keep first real one
                        pass
                    ci = ClassInfo(rel, n)
                    if n.name not in self.classes or len(n.body) > len(self.classes[n.name].node.body):
                        self.classes[n.name] = ci
                    for st in n.body:
                        self._class_member(ci, st, rel)
            for n in tree.body:
                self._module_stmt(rel, n)
            # functions nested in `if`/`try` at module level
            for n in ast.walk(tree):
                if isinstance(n, (ast.FunctionDef, ast.AsyncFunctionDef)) \
                        and enclosing_class(n) is None and enclosing_func(n) is None:
                    fi = FuncInfo(rel, n)
                    self.module_funcs[rel].setdefault(n.name, fi)
                    self.funcs.setdefault(fi.key, fi)
        for ci in self.classes.values():
            for b in ci.base_names:
                b = b.split('.')[-1]
                if b in self.classes and self.classes[b] is not ci:
                    ci.bases.append(self.classes[b])
                    self.classes[b].subclasses.append(ci)

    def _class_member(self, ci, st, rel):
        if isinstance(st, (ast.FunctionDef, ast.AsyncFunctionDef)):
            fi = FuncInfo(rel, st, ci)
            ci.methods[st.name] = fi
            self.funcs[fi.key] = fi
            for n in ast.walk(st):
                if isinstance(n, ast.Attribute) and isinstance(n.ctx, ast.Store) \
                        and isinstance(n.value, ast.Name) and n.value.id == 'self':
                    (ci.init_attrs if st.name == '__init__' else ci.other_attrs).add(n.attr)
        elif isinstance(st, ast.Assign):
            for t in st.targets:
                if isinstance(t, ast.Name):
                    ci.class_attrs[t.id] = st.value
                    # method alias: visit_Try = visit_TryExcept
                    if isinstance(st.value, ast.Name) and st.value.id in ci.methods:
                        ci.methods[t.id] = ci.methods[st.value.id]
        elif isinstance(st, ast.AnnAssign) and isinstance(st.target, ast.Name):
            ci.class_attrs[st.target.id] = st.value
        elif isinstance(st, ast.If):
            # `if False:` blocks hold type-only declarations: not real attributes
            try:
                const = ast.literal_eval(st.test)
            except Exception:
                const = None
            if const is False:
                return
            for s in st.body + st.orelse:
                self._class_member(ci, s, rel)

    def _module_stmt(self, rel, n):
        if isinstance(n, ast.ImportFrom):
            mod = n.module or ''
            base = mod.split('.')[-1] if mod else ''
            for a in n.names:
                local = a.asname or a.name
                if (n.level >= 1 or mod.startswith('supp')) and base in SUPP_MODULES:
                    self.imports[rel][local] = (SUPP_MODULES[base], a.name)
                elif (n.level >= 1 and not mod) or mod == 'supp':
                    if a.name in SUPP_MODULES:
                        self.imports[rel][local] = ('module', SUPP_MODULES[a.name])
        elif isinstance(n, ast.Import):
            for a in n.names:
                parts = a.name.split('.')
                if parts[0] == 'supp' and len(parts) == 2 and parts[1] in SUPP_MODULES and a.asname:
                    self.imports[rel][a.asname] = ('module', SUPP_MODULES[parts[1]])
        elif isinstance(n, ast.Assign) and len(n.targets) == 1 and isinstance(n.targets[0], ast.Name):
            self.aliases[rel].setdefault(n.targets[0].id, []).append(n.value)
        elif isinstance(n, (ast.If, ast.Try)):
            for s in ast.iter_child_nodes(n):
                if isinstance(s, ast.stmt):
                    self._module_stmt(rel, s)
            for h in getattr(n, 'handlers', []):
                for s in h.body:
                    self._module_stmt(rel, s)

    # ------------------------------------------------------------------
    def resolve_name(self, rel, name, depth=0):
        """Module-level name -> list of FuncInfo/ClassInfo it may denote."""
        if depth > 4:
            return []
        out = []
        if name in self.module_funcs.get(rel, {}):
            out.append(self.module_funcs[rel][name])
        ci = self.classes.get(name)
        if ci is not None and (ci.rel == rel or self.imports[rel].get(name, (None,))[0] == ci.rel):
            out.append(ci)
        imp = self.imports.get(rel, {}).get(name)
        if imp and imp[0] != 'module':
            out.extend(self.resolve_name(imp[0], imp[1], depth + 1))
        for v in self.aliases.get(rel, {}).get(name, []):
            # extract = visitor(extract_visitor) ; dumps = None (then set in __init)
            if isinstance(v, ast.Name):
                out.extend(self.resolve_name(rel, v.id, depth + 1))
            elif isinstance(v, ast.Call) and unparse(v.func) == 'visitor' and v.args \
                    and isinstance(v.args[0], ast.Name):
                c = self.classes.get(v.args[0].id)
                if c and c.lookup('process'):
                    out.append(c.lookup('process'))
        # globals rebound inside functions: `global dumps; dumps = _packb3`
        for fi in self.module_funcs.get(rel, {}).values():
            globs = set()
            for n in ast.walk(fi.node):
                if isinstance(n, ast.Global):
                    globs.update(n.names)
            if name in globs:
                for n in ast.walk(fi.node):
                    if isinstance(n, ast.Assign) and any(isinstance(t, ast.Name) and t.id == name
                                                         for t in n.targets) \
                            and isinstance(n.value, ast.Name):
                        out.extend(self.resolve_name(rel, n.value.id, depth + 1))
        seen, uniq = set(), []
        for o in out:
            if id(o) not in seen:
                seen.add(id(o))
                uniq.append(o)
        return uniq

    def resolve_module_attr(self, rel, modlocal, attr):
        imp = self.imports.get(rel, {}).get(modlocal)
        if imp and imp[0] == 'module':
            return self.resolve_name(imp[1], attr)
        return []

    def func_of(self, node):
        """FuncInfo enclosing an ast node."""
        fn = node if isinstance(node, (ast.FunctionDef, ast.AsyncFunctionDef)) else enclosing_func(node)
        while fn is not None and isinstance(fn, ast.Lambda):
            fn = enclosing_func(fn)
        if fn is None:
            return None
        if not hasattr(self, '_by_node'):
            self._by_node = {id(fi.node): fi for fi in self.funcs.values()}
        fi = self._by_node.get(id(fn))
        if fi is None:
            # nested function: attribute it to the enclosing known function
            return self.func_of(getattr(fn, '_parent', None)) if getattr(fn, '_parent', None) is not None else None
        return fi


def get_facts(repo):
    return repo.memo('facts', lambda: Facts(repo))


# ---------------------------------------------------------------------------
# path helpers (syntax-directed; enough for the short functions they are used on)
# ---------------------------------------------------------------------------

def always_exits(stmts, kinds=(ast.Break, ast.Return, ast.Raise)):
    """Every path through the statement list ends in one of `kinds`
    (conservative: loops and try bodies are not assumed to exit)."""
    for st in stmts:
        if isinstance(st, kinds):
            return True
        if isinstance(st, ast.If):
            if st.orelse and always_exits(st.body, kinds) and always_exits(st.orelse, kinds):
                return True
        if isinstance(st, ast.With):
            if always_exits(st.body, kinds):
                return True
        if isinstance(st, ast.Try):
            if st.finalbody and always_exits(st.finalbody, kinds):
                return True
            if always_exits(st.body, kinds) and all(always_exits(h.body, kinds) for h in st.handlers):
                return True
    return False


def may_exit(stmts, kinds=(ast.Break, ast.Return, ast.Raise), into_loops=False):
    """Some path through the list may execute one of `kinds` (not looking into
    nested function definitions; `break` inside a nested loop belongs to it)."""
    for st in stmts:
        if isinstance(st, kinds):
            return st
        if isinstance(st, (ast.FunctionDef, ast.AsyncFunctionDef, ast.ClassDef)):
            continue
        if isinstance(st, (ast.For, ast.While, ast.AsyncFor)):
            k2 = tuple(k for k in kinds if k not in (ast.Break, ast.Continue))
            r = may_exit(st.body + st.orelse, k2) if k2 else None
            if r:
                return r
            continue
        for field in ('body', 'orelse', 'finalbody'):
            sub = getattr(st, field, None)
            if isinstance(sub, list):
                r = may_exit(sub, kinds)
                if r:
                    return r
        for h in getattr(st, 'handlers', []):
            r = may_exit(h.body, kinds)
            if r:
                return r
    return None


def handler_catches(handler, names=('Exception', 'BaseException')):
    if handler.type is None:
        return True
    ts = handler.type.elts if isinstance(handler.type, ast.Tuple) else [handler.type]
    return any(unparse(t).split('.')[-1] in names for t in ts)


def enclosing_try_bodies(node, stop=None):
    """Try statements whose *body* (not handlers/else/finally) contains node."""
    out = []
    child, cur = node, getattr(node, '_parent', None)
    while cur is not None and cur is not stop:
        if isinstance(cur, ast.Try) and any(child is s for s in cur.body):
            out.append(cur)
        child, cur = cur, getattr(cur, '_parent', None)
    return out


def enclosing_withs(node, stop=None):
    out = []
    child, cur = node, getattr(node, '_parent', None)
    while cur is not None and cur is not stop:
        if isinstance(cur, (ast.With, ast.AsyncWith)) and any(child is s for s in cur.body):
            out.append(cur)
        child, cur = cur, getattr(cur, '_parent', None)
    return out


def calls_in(node):
    return [n for n in ast.walk(node) if isinstance(n, ast.Call)]


def stmt_of(node):
    n = node
    while n is not None and not isinstance(n, ast.stmt):
        n = getattr(n, '_parent', None)
    return n
