"""Abstract interpretation of supp's *resolution* functions (scope.py: Flow.names,
Flow.parent_names, Flow.names_at, LoopFlow.names, ClassScope.names, FuncScope.names;
name.py: MultiName; merged_dict.py: MergedDict) on small symbolic region graphs.

The region graphs are built here (not by supp); the functions are interpreted
from supp's source by sa.absint.  The results are compared with the ideal
resolution semantics the templates (E2) assume:
  * own bindings located at or before the query position shadow inherited ones,
    the later of two own bindings wins;
  * a region with one parent inherits its table; with several parents the union
    over *all* parents, one alternative per distinct binding, plus the undefined
    marker when a parent lacks the name; equal entries collapse to the plain name;
  * an entry region of a function inherits the enclosing scope's names minus its
    own locals; of a class body all of them; nested scopes skip class bodies.
"""
from .core import AnalysisError
from .facts import get_facts
from .absint import Interp, Obj, FuncVal, ClassRef, InterpRaise, Uninterpretable, Unknown, explore, Native

SCOPE = 'supp/scope.py'
NAME = 'supp/name.py'


class Model(object):
    def __init__(self, repo):
        self.repo = repo
        self.facts = get_facts(repo)
        self.it = Interp(repo, self.facts)
        self.it.reset_path([])
        for need in ('Flow', 'LoopFlow', 'MultiName', 'UndefinedName', 'AssignedName', 'MergedDict',
                     'FuncScope', 'ClassScope', 'SourceScope', 'Location'):
            if need not in self.facts.classes:
                raise AnalysisError('class %s vanished' % need)

    def cls(self, name):
        return self.facts.classes[name]

    def new(self, cname, *args):
        return self.it.instantiate(self.cls(cname), list(args), {})

    def name(self, ident, loc):
        return self.new('AssignedName', ident, loc, loc, None)

    def scope(self, kind, parent, top=None):
        """A scope object initialised by supp's own Scope.__init__ (interpreted)."""
        if kind == 'SourceScope':
            o = self.new('SourceScope', Unknown('source'))      # supp's own __init__ creates the bookkeeping containers
            o.attrs['parent'] = parent
            return o
        o = Obj(self.cls(kind), {}, kind)
        init = self.cls('Scope').methods.get('__init__')
        if init is None:
            raise AnalysisError('Scope.__init__ vanished')
        self.it.call(FuncVal(init.rel, init.node, None, o, init.cls), [parent, top or o], {})
        return o

    def flow(self, hint, scope, parents=None):
        return self.new('Flow', hint, scope, list(parents) if parents else None)

    def add(self, flow, name):
        self.it.call(self.it.getattr(flow, 'add_name'), [name], {})

    def get(self, obj, attr):
        return self.it.getattr(obj, attr)

    def names_at(self, flow, loc):
        return self.it.call(self.it.getattr(flow, 'names_at'), [loc], {})

    def lookup(self, table, key):
        """table[key] through supp's own MergedDict/dict; returns None when absent."""
        if isinstance(table, dict):
            return table.get(key)
        m = table.cls.lookup('__getitem__')
        try:
            return self.it.call(FuncVal(m.rel, m.node, None, table, m.cls), [key], {})
        except InterpRaise as e:
            if e.exc_name == 'KeyError':
                return None
            raise

    def keys(self, table):
        return set(str(k) for k in self.it.iterate(table))

    def describe(self, entry):
        """-> frozenset of alternatives: binding objects' ids or 'UNDEF'."""
        if entry is None:
            return None
        if isinstance(entry, Obj) and entry.cls.name == 'MultiName':
            out = set()
            for a in entry.attrs['alt_names']:
                out |= self.describe(a)
            return frozenset(out)
        if isinstance(entry, Obj) and entry.cls.name == 'UndefinedName':
            return frozenset(['UNDEF'])
        return frozenset([entry.oid])


def get_model(repo):
    return repo.memo('resolve-model', lambda: Model(repo))


def _guard(fn, res, rule, key, file, msg):
    """Run one scenario; an exception inside interpreted supp code is a failure of the obligation."""
    try:
        ok, detail = fn()
    except InterpRaise as e:
        ok, detail = False, 'supp code raises %s' % e
    res.check(rule, key, ok, file, 0, '%s (%s)' % (msg, detail), sample='%s: %s' % (key, detail))


def check_union(repo, res, rule):
    """C02-R4: the predecessor union is total; own bindings shadow."""
    m = get_model(repo)
    top = m.scope('SourceScope', Obj(m.cls('BaseScope'), {'names': {}}, 'builtins'))
    n = 0
    for k in ((1, 2, 3, 4, 5) if getattr(repo, 'tier', 'quick') == 'thorough' else (1, 2, 3)):
        def scenario(k=k):
            parents = []
            binds = []
            for i in range(k):
                p = m.flow('p%d' % i, top)
                b = m.name('x', (1 + i, 0))
                m.add(p, b)
                binds.append(b)
                parents.append(p)
            j = m.flow('join', top, parents)
            got = m.describe(m.lookup(m.get(j, 'names'), 'x'))
            want = frozenset(b.oid for b in binds)
            return got == want, '%d predecessors each binding x: alternatives %s, expected all %d' % (
                k, sorted(got or []), k)
        _guard(scenario, res, rule, 'union over %d predecessors' % k, SCOPE,
               'Flow.parent_names must return one alternative per predecessor binding')
        n += 1

    def shadow():
        p = m.flow('p', top)
        old = m.name('x', (1, 0))
        m.add(p, old)
        f = m.flow('f', top, [p])
        new = m.name('x', (3, 0))
        m.add(f, new)
        a = m.describe(m.lookup(m.names_at(f, (2, 0)), 'x'))
        b = m.describe(m.lookup(m.names_at(f, (3, 0)), 'x'))
        c = m.describe(m.lookup(m.get(f, 'names'), 'x'))
        return (a == frozenset([old.oid]) and b == frozenset([new.oid]) and c == frozenset([new.oid]),
                'before own binding -> inherited %s, at/after -> own %s, full table -> own %s' % (
                    sorted(a or []), sorted(b or []), sorted(c or [])))
    _guard(shadow, res, rule, 'own binding shadows inherited from its location on', SCOPE,
           'names_at must cut the region at the query position and own bindings must shadow inherited ones')

    def later_wins():
        f = m.flow('f', top)
        a1 = m.name('x', (1, 0))
        a2 = m.name('x', (2, 0))
        m.add(f, a2)
        m.add(f, a1)       # inserted out of order: _names must stay ordered by location
        g = m.describe(m.lookup(m.names_at(f, (5, 0)), 'x'))
        h = m.describe(m.lookup(m.names_at(f, (1, 5)), 'x'))
        return g == frozenset([a2.oid]) and h == frozenset([a1.oid]), \
            'after both -> later binding %s, between -> earlier %s' % (sorted(g or []), sorted(h or []))
    _guard(later_wins, res, rule, 'later binding in a region shadows the earlier one', SCOPE,
           'bindings of one region must be kept ordered by location; the last one at or before the query wins')

    def chain():
        p0 = m.flow('p0', top)
        b = m.name('y', (1, 0))
        m.add(p0, b)
        p1 = m.flow('p1', top, [p0])
        p2 = m.flow('p2', top, [p1])
        g = m.describe(m.lookup(m.get(p2, 'names'), 'y'))
        return g == frozenset([b.oid]), 'binding two regions up: %s' % sorted(g or [])
    _guard(chain, res, rule, 'single-parent chain inherits transitively', SCOPE,
           'a region with one parent must inherit its complete table')

    def deep_chain():
        # ten single-parent regions; `y` is bound in regions 0, 3 and 6, `z` only in region 0
        flows = [m.flow('p0', top)]
        bound = {}
        for i in range(1, 10):
            flows.append(m.flow('p%d' % i, top, [flows[-1]]))
        for i in (0, 3, 6):
            bound[i] = m.name('y', (i + 1, 0))
            m.add(flows[i], bound[i])
        z = m.name('z', (1, 4))
        m.add(flows[0], z)
        wb = {}
        for i in (1, 4):            # `w`: both bindings far above the last readers
            wb[i] = m.name('w', (i + 1, 8))
            m.add(flows[i], wb[i])
        bad = []
        for i in range(1, 10):
            want = wb[max(k for k in wb if k <= i)].oid
            g = m.describe(m.lookup(m.get(flows[i], 'names'), 'w'))
            if g != frozenset([want]):
                bad.append('w from region %d: %s instead of the binding in region %d' % (i, sorted(g or []), max(k for k in wb if k <= i)))
        for i in range(10):
            want = bound[max(k for k in bound if k <= i)].oid
            g = m.describe(m.lookup(m.get(flows[i], 'names'), 'y'))
            if g != frozenset([want]):
                bad.append('from region %d: %s' % (i, sorted(g or [])))
            gz = m.describe(m.lookup(m.get(flows[i], 'names'), 'z'))
            if gz != frozenset([z.oid]):
                bad.append('z from region %d: %s' % (i, sorted(gz or [])))
        return not bad, 'a name rebound in regions 0, 3 and 6 of a chain of ten: the nearest binding above the reader must win; %s' \
            % ('; '.join(bad[:3]) or 'ok')
    _guard(deep_chain, res, rule, 'the nearest binding wins along a long single-parent chain', SCOPE,
           'along a chain of nested regions the binding of the nearest enclosing region shadows the outer ones, at any depth')

    def nested_multi():
        a, b, c = m.flow('a', top), m.flow('b', top), m.flow('c', top)
        ba, bb, bc = m.name('x', (1, 0)), m.name('x', (2, 0)), m.name('x', (3, 0))
        m.add(a, ba)
        m.add(b, bb)
        m.add(c, bc)
        j1 = m.flow('j1', top, [a, b])
        j2 = m.flow('j2', top, [j1, c])
        g = m.describe(m.lookup(m.get(j2, 'names'), 'x'))
        return g == frozenset([ba.oid, bb.oid, bc.oid]), 'join of a join: alternatives %s' % sorted(g or [])
    _guard(nested_multi, res, rule, 'alternatives of nested joins are flattened', NAME,
           'MultiName must flatten the alternatives of nested joins')

    def loop_edge():
        pre = m.flow('pre', top)
        b0 = m.name('y', (1, 0))
        m.add(pre, b0)
        head = m.flow('loop', top, [pre])
        b1 = m.name('y', (3, 0))
        m.add(head, b1)
        m.it.call(m.it.getattr(head, 'loop'), [head], {})
        g = m.describe(m.lookup(m.names_at(head, (2, 0)), 'y'))
        return g == frozenset([b0.oid, b1.oid]), \
            'read at loop head before the loop-carried rebinding sees %s, expected both' % sorted(g or [])
    _guard(loop_edge, res, rule, 'back edge contributes the loop-carried definition', SCOPE,
           'a loop head must inherit from the pre-loop region and, through the back edge, from the body end')
    res.count(rule + '_scenarios', n + 5, floor=8)


def check_star_imports(repo, res, rule):
    """SourceScope.resolve_star_imports interpreted with three recorded star imports, the first and the last of which
    cannot be resolved: every public name of the resolvable one must be bound (as a star copy), private ones not, and
    the failures must be skipped, not end the loop."""
    from .absint import Native
    m = get_model(repo)

    def scenario():
        top = m.scope('SourceScope', Obj(m.cls('BaseScope'), {'names': {}}, 'builtins'))
        top.attrs['source'] = Obj(m.cls('Source'), {'filename': '/p/main.py'}, 'source') if 'Source' in m.facts.classes \
            else Unknown('source')
        f = m.flow('top', top)
        top.attrs['flow'] = f
        mod = Obj(m.cls('SourceModule'), {'_attrs': {'pub1': 1, 'pub2': 2, '_priv': 3}}, 'module b')

        def get_nmodule(it, args, kwargs):
            if args[0] in ('missing_first', 'missing_last'):
                raise InterpRaise('ImportError', args[0])
            return mod
        project = Obj(m.cls('Project'), {'get_nmodule': Native('get_nmodule', get_nmodule)}, 'project')
        # the importing module rebinds pub1 further down (pub1 = traced(pub1)): the star copy must still be there for the reads
        # between the import and the rebinding
        later = m.name('pub1', (9, 0))
        m.add(f, later)
        top.attrs['_star_imports'] = [((1, 20), (1, 19), 'missing_first', f), ((2, 20), (2, 14), 'b', f),
                                      ((3, 20), (3, 19), 'missing_last', f)]
        m.it.call(m.it.getattr(top, 'resolve_star_imports'), [project], {})
        bound = {str(n.attrs['name']): n for n in f.attrs['_names'] if n is not later}
        at5 = m.describe(m.lookup(m.names_at(f, (5, 0)), 'pub1'))
        ok = set(bound) == {'pub1', 'pub2'} and all(n.cls.name == 'ImportedName' and n.attrs.get('is_star') is True
                                                     and n.attrs.get('module') == 'b' for n in bound.values()) \
            and at5 == frozenset([bound['pub1'].oid])
        return ok, 'names bound from `from missing_first import *; from b import *; from missing_last import *`: %s' % sorted(bound)
    _guard(scenario, res, rule, 'star imports: an unresolvable one is skipped, the others are expanded', SCOPE,
           'every public name of every resolvable star import must be bound (marked is_star); an unresolvable star import must '
           'not stop the expansion of the following ones')


    def dunder_all():
        # a module that declares __all__: a source module's literal may list underscore names (and may be extended at run time,
        # so the public names stay); a live module's list is exact
        import ast as _ast
        top = m.scope('SourceScope', Obj(m.cls('BaseScope'), {'names': {}}, 'builtins'))
        top.attrs['source'] = Obj(m.cls('Source'), {'filename': '/p/main.py'}, 'source') if 'Source' in m.facts.classes else Unknown('source')
        f = m.flow('top', top)
        top.attrs['flow'] = f
        from .exprend import from_ast
        # (elements that are not string literals - a name, a call, an attribute - are legal in the display and say nothing here)
        lit = from_ast(_ast.parse("['pub', NAME, '_listed', base.__name__, f('x'), *more]").body[0].value)
        decl = m.new('AssignedName', '__all__', (1, 0), (1, 0), lit)
        src_mod = Obj(m.cls('SourceModule'), {'_attrs': {'pub': 1, '_listed': 2, '_hidden': 3, 'other': 4, '__all__': decl}}, 'source module')
        live_all = m.new('RuntimeName', '__all__', ['exact', '_also'])
        live_mod = Obj(m.cls('ImportedModule'), {'_attrs': {'exact': 1, '_also': 2, 'helper': 3, '__all__': live_all}}, 'live module')

        def get_nmodule(it, args, kwargs):
            return src_mod if args[0] == 'src' else live_mod
        project = Obj(m.cls('Project'), {'get_nmodule': Native('get_nmodule', get_nmodule)}, 'project')
        top.attrs['_star_imports'] = [((1, 20), (1, 19), 'src', f), ((2, 20), (2, 19), 'live', f)]
        try:
            m.it.call(m.it.getattr(top, 'resolve_star_imports'), [project], {})
        except InterpRaise as e:
            return False, 'from src import * where src declares __all__ = [\'pub\', NAME, \'_listed\', base.__name__, f(\'x\'), *more] raises %s: ' \
                'the elements of the display that are not string literals must be skipped' % e
        got = {}
        for n in f.attrs['_names']:
            got.setdefault(str(n.attrs.get('module')), set()).add(str(n.attrs['name']))
        ok = {'pub', '_listed', 'other'} <= got.get('src', set()) and '_hidden' not in got.get('src', set()) \
            and got.get('live') == {'exact', '_also'}
        return ok, 'from src import * (source module, __all__ = [\'pub\', \'_listed\'], also defining other and _hidden) binds %s; from live ' \
            'import * (a live module whose __all__ is [\'exact\', \'_also\'], also holding helper) binds %s' % (
                sorted(got.get('src', ())), sorted(got.get('live', ())))
    _guard(dunder_all, res, rule, 'star imports honour __all__', SCOPE,
           'an underscore name listed in __all__ is bound by the star import (it is bound at run time); a live module\'s __all__ is the '
           'exact list of names the star import binds')

    def exported():
        # the exporting side: what a module offers to `from m import *` / `from m import name`
        bl = m.name('len', (0, 0))
        builtins = Obj(m.cls('BaseScope'), {'names': {'len': bl}}, 'builtins')
        top = m.scope('SourceScope', builtins)
        entry = m.flow('top', top)
        always = m.name('always', (1, 0))
        m.add(entry, always)
        branch = m.flow('if', top, [entry])
        other = m.flow('else', top, [entry])
        maybe = m.name('maybe', (3, 4))             # if c: maybe = 1        (no else)
        both1, both2 = m.name('both', (4, 4)), m.name('both', (6, 4))
        m.add(branch, maybe)
        m.add(branch, both1)
        m.add(other, both2)
        join = m.flow('join', top, [branch, other])
        top.attrs['flow'] = join
        exp = m.get(top, 'exported_names')
        keys = set(str(k) for k in m.keys(exp))
        kinds = {k: m.lookup(exp, k) for k in ('maybe', 'both')}
        ok = {'always', 'maybe', 'both'} <= keys and 'len' not in keys and \
            all(v is not None and getattr(v, 'cls', None) is not None and v.cls.name != 'MultiName' for v in kinds.values())
        return ok, 'a module binding `always` unconditionally, `maybe` in one branch, `both` in both branches exports %s ' \
            '(builtins such as len must not be exported; each exported entry is one binding, not a union)' % sorted(keys)
    _guard(exported, res, rule, 'a module exports every name it may bind at top level', SCOPE,
           'names bound on some paths only (if without else, try body, loop body) are bound at run time whenever that path is '
           'taken: they must be offered to star imports and from-imports like unconditionally bound ones')


def check_dotted_imports(repo, res, rule):
    """Writer / reader agreement on dotted imports: supp's own visit_Import is run (E1) on `import a.b.c, a.d`, and what it leaves
    in the module scope's tables is handed to supp's own ImportedName.resolve: the module bound as `a` must offer b and d as
    attributes, the module a.b must offer c (Python binds every package on the way as an attribute of its parent)."""
    from .e1 import get_extractor, ShapeBuilder
    from .absint import SymNode, SymIdent
    from . import rules_e1 as R
    m = get_model(repo)

    def scenario():
        ex = get_extractor(repo)
        b = ShapeBuilder({}, 'max')
        aliases = []
        for i, text in enumerate(('a.b.c', 'a.d')):
            p = 'node.names[%d]' % i
            aliases.append(SymNode('alias', p, 'alias', {'name': SymIdent(text, p + '.name'), 'asname': None}))
        root = SymNode('Import', 'node', 'stmt', {'names': aliases})
        sm = ex.summarise('Import', 'import a.b.c, a.d', root, b)
        bp = R.base_path(sm)
        if bp is None or bp.raised is not None:
            return False, 'visit_Import raises on `import a.b.c, a.d`: %s' % (bp.raised if bp else 'no path')
        tables = bp.top_state.get('tables', {})
        got = {}
        for module, want in (('a', {'b', 'd'}), ('a.b', {'c'})):
            builtins = Obj(m.cls('BaseScope'), {'names': {}}, 'builtins')
            top = m.scope('SourceScope', builtins)
            for k, v in tables.items():
                top.attrs[k] = v
            top.attrs['source'] = Obj(m.cls('Source'), {'filename': '/p/main.py'}, 'source')
            name = m.new('ImportedName', module.split('.')[0], (1, 0), (1, 7), module, None)
            name.attrs['scope'] = top
            mod = Obj(m.cls('SourceModule'), {'_attrs': {}}, 'module ' + module)
            project = Obj(m.cls('Project'), {'get_nmodule': Native('get_nmodule', lambda it, a, k, _m=mod: _m)}, 'project')
            ctx = Obj(m.cls('EvalCtx'), {'project': project}, 'ctx')
            r = m.it.call(m.it.getattr(name, 'resolve'), [ctx], {})
            extra = set()
            if isinstance(r, Obj) and r is not mod:
                for v in r.attrs.values():
                    if isinstance(v, dict):
                        extra |= {str(x) for x in v}
            got[module] = (extra, want)
        ok = all(want <= extra for extra, want in got.values())
        return ok, 'after `import a.b.c, a.d` (tables left by visit_Import: %s) the value of `a` offers the submodules %s (must include b and d), ' \
            'the value of a.b offers %s (must include c)' % (tables, sorted(got['a'][0]), sorted(got['a.b'][0]))
    _guard(scenario, res, rule, 'dotted imports make every package on the way an attribute of its parent', NAME,
           'what visit_Import records for `import a.b.c` and what ImportedName.resolve reads must agree: a.b (and a.b.c) are reachable '
           'through the name a')


def check_from_import_precedence(repo, res, rule):
    """`from pkg import name`: Python takes the attribute `name` of the package when the package has one (what its __init__ binds,
    e.g. `from .name import name`), and imports the submodule pkg.name only otherwise.  supp's own ImportedName.resolve is
    interpreted on a project stub that knows both the package (with or without the attribute) and the submodule."""
    m = get_model(repo)

    def scenario():
        got = {}
        for bound in (True, False):
            builtins = Obj(m.cls('BaseScope'), {'names': {}}, 'builtins')
            top = m.scope('SourceScope', builtins)
            top.attrs['source'] = Obj(m.cls('Source'), {'filename': '/p/main.py'}, 'source')
            name = m.new('ImportedName', 'config', (1, 0), (1, 16), 'pkg', 'config')
            name.attrs['scope'] = top
            inst = Obj(m.cls('Object'), {}, 'what pkg/__init__.py binds as config')
            sub = Obj(m.cls('SourceModule'), {'_attrs': {}}, 'submodule pkg.config')
            pkg = Obj(m.cls('SourceModule'), {'_attrs': ({'config': inst} if bound else {})}, 'package pkg')

            def get_nmodule(it, a, k, _sub=sub, _pkg=pkg):
                if a[0] == 'pkg.config':
                    return _sub
                if a[0] == 'pkg':
                    return _pkg
                raise InterpRaise('ImportError', str(a[0]))
            project = Obj(m.cls('Project'), {'get_nmodule': Native('get_nmodule', get_nmodule)}, 'project')
            ctx = Obj(m.cls('EvalCtx'), {'project': project}, 'ctx')
            r = m.it.call(m.it.getattr(name, 'resolve'), [ctx], {})
            got[bound] = (r, inst if bound else sub)
        ok = all(r is want for r, want in got.values())
        return ok, '`from pkg import config` with a submodule pkg/config.py: when pkg/__init__.py binds config itself the name resolves to %s ' \
            '(Python: the attribute of the package), when it does not to %s (Python: the submodule)' % (got[True][0], got[False][0])
    _guard(scenario, res, rule, 'from-import takes the attribute of the package before the submodule', NAME,
           '`from pkg import name` is getattr(pkg, name) first; the submodule pkg.name is imported only when the package has no such '
           'attribute')


def check_module_level_globals(repo, res, rule):
    """A name bound only under a `global` declaration inside a function is a module-level name: reads at module level (in the
    first region and in regions that follow it) and in other functions see it; a module-level binding of its own shadows it."""
    m = get_model(repo)

    def scenario():
        bl = m.name('len', (0, 0))
        builtins = Obj(m.cls('BaseScope'), {'names': {'len': bl}}, 'builtins')
        top = m.scope('SourceScope', builtins)
        entry = m.flow('top', top)
        top.attrs['flow'] = entry
        own = m.name('own', (1, 0))
        m.add(entry, own)
        fs = m.scope('FuncScope', top, top)
        ff = m.flow('func', fs)
        fs.attrs['flow'] = ff
        fs.attrs['globals'].update({'conf', 'own'})
        conf = m.name('conf', (4, 4))
        own_in_func = m.name('own', (5, 4))
        m.add(ff, conf)
        m.add(ff, own_in_func)
        later = m.flow('if', top, [entry])
        at_entry = m.describe(m.lookup(m.names_at(entry, (8, 0)), 'conf'))
        at_later = m.describe(m.lookup(m.names_at(later, (9, 4)), 'conf'))
        own_entry = m.describe(m.lookup(m.names_at(entry, (8, 0)), 'own'))
        ln = m.describe(m.lookup(m.names_at(later, (9, 4)), 'len'))
        other = m.scope('FuncScope', top, top)
        of = m.flow('func', other)
        other.attrs['flow'] = of
        in_other = m.describe(m.lookup(m.names_at(of, (12, 4)), 'conf'))
        ok = at_entry == frozenset([conf.oid]) and at_later == frozenset([conf.oid]) and in_other == frozenset([conf.oid]) \
            and own_entry == frozenset([own.oid]) and ln == frozenset([bl.oid])
        return ok, 'def init(): global conf, own; conf = 1; own = 2 - reads of conf at module level resolve to %s / %s (a later region), in ' \
            'another function to %s (all must be the binding made in init, %s); own (also bound at module level) -> %s (the ' \
            'module-level binding %s); len -> the builtin: %s' % (sorted(at_entry or []), sorted(at_later or []), sorted(in_other or []),
                                                                  conf.oid, sorted(own_entry or []), own.oid, ln == frozenset([bl.oid]))
    _guard(scenario, res, rule, 'a name bound under `global` in a function is visible at module level', SCOPE,
           'names created by a function through a global declaration are module-level names: reads at module level must find them')


def check_merged_dict(repo, res, rule):
    """MergedDict (the table type of every region): lookup prefers the earlier mapping, iteration yields each key once
    with the value lookup would give, membership and get agree with lookup, nested MergedDicts are flattened in order."""
    m = get_model(repo)
    MD = 'supp/merged_dict.py'

    def scenario():
        own = {'a': 'own-a', 'b': 'own-b'}
        mid = {'b': 'mid-b', 'c': 'mid-c'}
        far = {'c': 'far-c', 'd': 'far-d', 'a': 'far-a'}
        inner = m.new('MergedDict', mid, far)
        md = m.new('MergedDict', own, inner)
        want = {'a': 'own-a', 'b': 'own-b', 'c': 'mid-c', 'd': 'far-d'}
        got = {k: m.lookup(md, k) for k in 'abcd'}
        items = m.it.iterate(m.it.call(m.it.getattr(md, 'items'), [], {}))
        keys = [str(k) for k in m.it.iterate(md)]
        vals = sorted(str(v) for v in m.it.iterate(m.it.call(m.it.getattr(md, 'values'), [], {})))
        contains = [m.it.compare(__import__('ast').In(), k, md, None) for k in ('a', 'd', 'zz')]
        getd = m.it.call(m.it.getattr(md, 'get'), ['zz', 'dflt'], {})
        ok = (got == want and dict(items) == want and sorted(keys) == ['a', 'b', 'c', 'd'] and len(keys) == 4
              and vals == sorted(want.values()) and contains == [True, True, False] and getd == 'dflt'
              and m.lookup(md, 'zz') is None)
        return ok, 'lookup %s, items %s, keys %s, membership %s' % (got, dict(items), sorted(keys), contains)
    _guard(scenario, res, rule, 'MergedDict precedence, iteration and membership', MD,
           'a region table must give its own bindings precedence over inherited ones in lookup *and* in iteration, and list every '
           'visible name exactly once')


def check_same_line(repo, res, rule):
    """Two queries on one physical line of one region, with a binding taking effect between them, asked in both orders."""
    m = get_model(repo)
    top = m.scope('SourceScope', Obj(m.cls('BaseScope'), {'names': {}}, 'builtins'))
    for order in ('left-to-right', 'right-to-left'):
        def scenario(order=order):
            pre = m.flow('pre', top)
            old = m.name('a', (1, 0))
            m.add(pre, old)
            f = m.flow('f', top, [pre])
            new = m.name('a', (3, 10))          # a = f(x); g(a)   -- binding takes effect at column 10
            m.add(f, new)
            cols = [(3, 4), (3, 14)] if order == 'left-to-right' else [(3, 14), (3, 4)]
            got = {}
            for c in cols:
                got[c] = m.describe(m.lookup(m.names_at(f, c), 'a'))
            ok = got[(3, 4)] == frozenset([old.oid]) and got[(3, 14)] == frozenset([new.oid])
            return ok, 'line 3: read at column 4 -> %s (want the earlier binding), at column 14 -> %s (want the one made at ' \
                'column 10), asked %s' % (sorted(got[(3, 4)] or []), sorted(got[(3, 14)] or []), order)
        _guard(scenario, res, rule, 'two reads on one line around a binding (%s)' % order, SCOPE,
               'names_at must decide visibility by (line, column): statements joined on one line are analysed like separate lines')


def check_undefined(repo, res, rule):
    """C03-R2: the undefined marker and the collapse rule."""
    m = get_model(repo)
    top = m.scope('SourceScope', Obj(m.cls('BaseScope'), {'names': {}}, 'builtins'))

    def missing_in_one():
        a, b = m.flow('a', top), m.flow('b', top)
        ba = m.name('x', (1, 0))
        m.add(a, ba)
        m.add(b, m.name('other', (1, 0)))
        j = m.flow('j', top, [a, b])
        e = m.lookup(m.get(j, 'names'), 'x')
        g = m.describe(e)
        hu = isinstance(e, Obj) and e.cls.name == 'MultiName' and m.it.truth(m.get(e, 'has_undefined'), None)
        vn = [x.oid for x in m.get(e, 'valid_names')] if isinstance(e, Obj) and e.cls.name == 'MultiName' else None
        return g == frozenset([ba.oid, 'UNDEF']) and hu and vn == [ba.oid], \
            'x bound on one of two paths: %s has_undefined=%s valid=%s' % (sorted(map(str, g or [])), hu, vn)
    _guard(missing_in_one, res, rule, 'name missing in one predecessor is possibly undefined', SCOPE,
           'a name bound in only some predecessors must carry the undefined marker')

    def same_binding():
        pre = m.flow('pre', top)
        b = m.name('x', (1, 0))
        m.add(pre, b)
        a, c = m.flow('a', top, [pre]), m.flow('c', top, [pre])
        j = m.flow('j', top, [a, c])
        e = m.lookup(m.get(j, 'names'), 'x')
        plain = isinstance(e, Obj) and e.cls.name != 'MultiName'
        return plain and e.oid == b.oid, 'same binding through both branches collapses to the plain name: %r' % (e,)
    _guard(same_binding, res, rule, 'identical alternatives collapse', SCOPE,
           'a single-element row must collapse to the plain name (no phantom undefined marker)')

    def nowhere():
        a, b = m.flow('a', top), m.flow('b', top)
        m.add(a, m.name('p', (1, 0)))
        m.add(b, m.name('q', (1, 0)))
        j = m.flow('j', top, [a, b])
        e = m.lookup(m.get(j, 'names'), 'zzz')
        return e is None, 'a name bound in no predecessor is absent from the table: %r' % (e,)
    _guard(nowhere, res, rule, 'never-bound name is absent', SCOPE,
           'a name bound on no path must be absent (lint turns the KeyError into E02)')

    def not_after():
        f = m.flow('f', top)
        b = m.name('x', (5, 0))
        m.add(f, b)
        e = m.lookup(m.names_at(f, (4, 9)), 'x')
        return e is None, 'binding located after the query position is invisible: %r' % (e,)
    _guard(not_after, res, rule, 'binding after the query position is invisible', SCOPE,
           'names_at must not return bindings located after the query position')

    def ordered_insert():
        f = m.flow('f', top)
        a1 = m.name('x', (1, 0))
        a2 = m.name('x', (2, 0))
        m.add(f, a2)
        m.add(f, a1)       # registered out of source order (a walrus inside the value of a later binding)
        g = m.describe(m.lookup(m.names_at(f, (5, 0)), 'x'))
        h = m.describe(m.lookup(m.names_at(f, (1, 5)), 'x'))
        e = m.lookup(m.names_at(f, (0, 5)), 'x')
        return g == frozenset([a2.oid]) and h == frozenset([a1.oid]) and e is None, \
            'bindings registered out of order: after both -> %s (want the later), between -> %s (want the earlier), before -> %r' % (
                sorted(g or []), sorted(h or []), e)
    _guard(ordered_insert, res, rule, 'a region stays ordered by location whatever the registration order', SCOPE,
           'insert_loc must keep the binding list sorted: names_at cuts it by bisect')

    def undefined_lt():
        # the marker sorts before every binding so that MultiName.name is defined
        u = m.new('UndefinedName', 'x')
        return m.it.truth(m.it.compare(__import__('ast').Lt(), u, m.name('x', (1, 0)), None), None) is True, \
            'UndefinedName.__lt__ is constant'
    _guard(undefined_lt, res, rule, 'undefined marker ordering is position independent', NAME,
           'UndefinedName ordering must not depend on layout')
    res.count(rule + '_scenarios', 6, floor=6)


def check_scopes(repo, res, rule_entry, rule_methods):
    """C05-R2 / C05-R3: entry-region masking and class-body skipping."""
    m = get_model(repo)
    builtins = Obj(m.cls('BaseScope'), {'names': {}}, 'builtins')
    bl = m.name('len', (0, 0))
    builtins.attrs['names'] = {'len': bl}

    def build():
        top = m.scope('SourceScope', builtins)
        tf = m.flow('top', top)
        top.attrs['flow'] = tf
        gx = m.name('x', (1, 0))
        gy = m.name('y', (2, 0))
        m.add(tf, gx)
        m.add(tf, gy)
        return top, tf, gx, gy

    def func_masks():
        top, tf, gx, gy = build()
        fs = m.scope('FuncScope', top, top)
        ff = m.flow('func', fs)
        fs.attrs['flow'] = ff
        lx = m.name('x', (5, 4))
        m.add(ff, lx)
        before = m.lookup(m.names_at(ff, (4, 4)), 'x')   # read before the local assignment
        y = m.describe(m.lookup(m.names_at(ff, (4, 4)), 'y'))
        after = m.describe(m.lookup(m.names_at(ff, (6, 0)), 'x'))
        return before is None and y == frozenset([gy.oid]) and after == frozenset([lx.oid]), \
            'local x read before assignment -> %r (must not fall back to the global), y -> global, later x -> local' % (before,)
    _guard(func_masks, res, rule_entry, 'function-local name is never satisfied by an outer binding', SCOPE,
           'the entry region of a function must inherit the outer names minus the function\'s own locals')

    def lambda_masks():
        # a lambda is a function scope: a walrus inside it makes the target local to the lambda
        top, tf, gx, gy = build()
        fs = m.scope('FuncScope', top, top)
        fs.attrs['name'] = 'lambda'
        ff = m.flow('func', fs)
        fs.attrs['flow'] = ff
        lx = m.name('x', (5, 30))
        m.add(ff, lx)
        before = m.lookup(m.names_at(ff, (5, 20)), 'x')
        y = m.describe(m.lookup(m.names_at(ff, (5, 20)), 'y'))
        return before is None and y == frozenset([gy.oid]), \
            'lambda: (x := x + 1): the right-hand x is read before the local x is bound -> %r (must not fall back to the ' \
            'module-level x); y -> module' % (before,)
    _guard(lambda_masks, res, rule_entry, 'a name bound inside a lambda (walrus) is local to the lambda', SCOPE,
           'the entry region of a lambda must inherit the outer names minus the lambda\'s own locals, like any function')

    def func_masks_branch_local():
        top, tf, gx, gy = build()
        fs = m.scope('FuncScope', top, top)
        entry = m.flow('func', fs)
        fs.attrs['flow'] = entry
        branch = m.flow('if', fs, [entry])
        other = m.flow('else', fs, [entry])
        lx = m.name('x', (6, 8))
        m.add(branch, lx)                       # x is bound only inside a branch of the function
        join = m.flow('join', fs, [branch, other])
        got = m.describe(m.lookup(m.names_at(join, (9, 4)), 'x'))
        return got == frozenset([lx.oid, 'UNDEF']), \
            'x bound only in one branch of the function and also at module level: read after the join sees %s, must be the ' \
            'local binding plus "possibly undefined" (never the global %s)' % (sorted(map(str, got or [])), gx.oid)
    _guard(func_masks_branch_local, res, rule_entry, 'a local bound in any region of the function masks the outer binding', SCOPE,
           'the masking set is the set of all names the function binds (scope.locals), not the names of its entry region')

    def builtin_masked():
        top, tf, gx, gy = build()
        fs = m.scope('FuncScope', top, top)
        ff = m.flow('func', fs)
        fs.attrs['flow'] = ff
        m.add(ff, m.name('len', (5, 4)))
        e = m.lookup(m.names_at(ff, (4, 4)), 'len')
        return e is None, 'local named like a builtin, read before assignment -> %r' % (e,)
    _guard(builtin_masked, res, rule_entry, 'function-local name is never satisfied by a builtin', SCOPE,
           'builtins reach a function only through the enclosing scopes and are masked by its locals')

    def class_sees_all():
        top, tf, gx, gy = build()
        cs = m.scope('ClassScope', top, top)
        cf = m.flow('class', cs)
        cs.attrs['flow'] = cf
        cx = m.name('x', (5, 4))
        m.add(cf, cx)
        before = m.describe(m.lookup(m.names_at(cf, (4, 4)), 'x'))
        return before == frozenset([gx.oid]), \
            'class-body read of x before the class rebinding sees the global: %s' % sorted(before or [])
    _guard(class_sees_all, res, rule_entry, 'class body sees all outer names', SCOPE,
           'the entry region of a class body inherits every outer name (no masking by class locals)')

    def method_skips_class():
        top, tf, gx, gy = build()
        cs = m.scope('ClassScope', top, top)
        cf = m.flow('class', cs)
        cs.attrs['flow'] = cf
        cattr = m.name('attr', (5, 4))
        cx = m.name('x', (6, 4))
        m.add(cf, cattr)
        m.add(cf, cx)
        ms = m.scope('FuncScope', cs, top)
        mf = m.flow('func', ms)
        ms.attrs['flow'] = mf
        a = m.lookup(m.names_at(mf, (8, 8)), 'attr')
        x = m.describe(m.lookup(m.names_at(mf, (8, 8)), 'x'))
        return a is None and x == frozenset([gx.oid]), \
            'inside a method: class attribute -> %r (must be invisible), x -> %s (must be the global)' % (
                a, sorted(x or []))
    _guard(method_skips_class, res, rule_methods, 'class-body bindings are invisible in methods', SCOPE,
           'ClassScope.names must delegate to the enclosing scope so that methods skip the class body')

    def closure():
        top, tf, gx, gy = build()
        outer = m.scope('FuncScope', top, top)
        of = m.flow('func', outer)
        outer.attrs['flow'] = of
        ov = m.name('v', (4, 4))
        m.add(of, ov)
        inner = m.scope('FuncScope', outer, top)
        inf = m.flow('func', inner)
        inner.attrs['flow'] = inf
        v = m.describe(m.lookup(m.names_at(inf, (6, 8)), 'v'))
        return v == frozenset([ov.oid]), 'closure variable resolves to the enclosing function: %s' % sorted(v or [])
    _guard(closure, res, rule_methods, 'closure variable resolves to the owning function', SCOPE,
           'a nested function inherits the bindings of the enclosing function')

    def global_route():
        top, tf, gx, gy = build()
        fs = m.scope('FuncScope', top, top)
        ff = m.flow('func', fs)
        fs.attrs['flow'] = ff
        fs.attrs['globals'].add('g')
        gname = m.name('g', (5, 4))
        m.add(ff, gname)
        in_mod = m.describe(m.lookup(m.get(top, 'names'), 'g'))
        is_local = 'g' in fs.attrs['locals']
        return in_mod == frozenset([gname.oid]) and not is_local, \
            'assignment under `global g` lands in the module table (%s) and is not a local (%s)' % (
                sorted(in_mod or []), is_local)
    _guard(global_route, res, rule_methods, 'global-declared binding goes to the module', SCOPE,
           'Flow.add_name must route global-declared names to the module table')

    def every_registered_name_knows_its_scope():
        # ImportedName.resolve, Name.filename and lint read name.scope on every binding they meet
        top, tf, gx, gy = build()
        fs = m.scope('FuncScope', top, top)
        ff = m.flow('func', fs)
        fs.attrs['flow'] = ff
        fs.attrs['globals'].add('g')
        gname = m.name('g', (5, 4))
        lname = m.name('loc', (6, 4))
        m.add(ff, gname)
        m.add(ff, lname)
        sg, sl = gname.attrs.get('scope'), lname.attrs.get('scope')
        return sg is fs and sl is fs, 'after add_name the local binding has scope %r and the binding made under `global g` has scope ' \
            '%r (both must be the function scope the statement is in)' % (sl, sg)
    _guard(every_registered_name_knows_its_scope, res, rule_methods, 'add_name stamps the scope on every binding, global-declared or not', SCOPE,
           'every registered binding must carry .scope: ImportedName.resolve and Name.filename dereference it (a lazy `global json; '
           'import json` would raise AttributeError in assist/location)')

    def nested_class_skips_outer_body():
        top, tf, gx, gy = build()
        a = m.scope('ClassScope', top, top)
        af = m.flow('class', a)
        a.attrs['flow'] = af
        ax = m.name('x', (5, 4))
        m.add(af, ax)
        b = m.scope('ClassScope', a, top)
        bf = m.flow('class', b)
        b.attrs['flow'] = bf
        meth = m.scope('FuncScope', b, top)
        mf = m.flow('func', meth)
        meth.attrs['flow'] = mf
        x = m.describe(m.lookup(m.names_at(mf, (9, 12)), 'x'))
        return x == frozenset([gx.oid]), \
            'method of a class nested in a class: x (bound in the outer class body and globally) resolves to %s, must be the ' \
            'global %s' % (sorted(x or []), gx.oid)
    _guard(nested_class_skips_outer_body, res, rule_methods, 'methods of a nested class skip every enclosing class body', SCOPE,
           'ClassScope.names must delegate to the names its parent *exposes to nested scopes* (parent.names), not to the '
           'parent\'s own region table')

    def nested_class_body_skips_outer_body():
        # class Settings: default = 1;  class Meta: value = default   -> the compiler resolves `default` globally
        top, tf, gx, gy = build()
        a = m.scope('ClassScope', top, top)
        af = m.flow('class', a)
        a.attrs['flow'] = af
        ax = m.name('x', (5, 4))
        only_outer = m.name('only_in_outer_class', (6, 4))
        m.add(af, ax)
        m.add(af, only_outer)
        b = m.scope('ClassScope', a, top)
        bf = m.flow('class', b)
        b.attrs['flow'] = bf
        bz = m.name('z', (8, 8))
        m.add(bf, bz)
        x = m.describe(m.lookup(m.names_at(bf, (9, 8)), 'x'))
        o = m.lookup(m.names_at(bf, (9, 8)), 'only_in_outer_class')
        z = m.describe(m.lookup(m.names_at(bf, (9, 8)), 'z'))
        y = m.describe(m.lookup(m.names_at(bf, (9, 8)), 'y'))
        return x == frozenset([gx.oid]) and o is None and z == frozenset([bz.oid]) and y == frozenset([gy.oid]), \
            'body of a class nested in a class: x (bound in the outer class body and globally) resolves to %s, must be the global %s; a ' \
            'name bound only in the outer class body resolves to %r, must be unknown; own z -> %s; global y -> %s' \
            % (sorted(x or []), gx.oid, o, sorted(z or []), sorted(y or []))
    _guard(nested_class_body_skips_outer_body, res, rule_methods, 'the body of a nested class does not see the enclosing class body', SCOPE,
           'a class body is not an enclosing scope for the classes nested in it: their bodies resolve free names globally')

    def method_sees_global_declared_binding():
        top, tf, gx, gy = build()
        fs = m.scope('FuncScope', top, top)
        ff = m.flow('func', fs)
        fs.attrs['flow'] = ff
        fs.attrs['globals'].add('g')
        gname = m.name('g', (5, 4))
        m.add(ff, gname)
        cs = m.scope('ClassScope', top, top)
        cf = m.flow('class', cs)
        cs.attrs['flow'] = cf
        meth = m.scope('FuncScope', cs, top)
        mf = m.flow('func', meth)
        meth.attrs['flow'] = mf
        g = m.describe(m.lookup(m.names_at(mf, (12, 8)), 'g'))
        return g == frozenset([gname.oid]), \
            'a name bound only under `global g` in some function, read in a method: %s' % sorted(g or [])
    _guard(method_sees_global_declared_binding, res, rule_methods, 'methods see module names created under a global declaration',
           SCOPE, 'names assigned under `global` belong to the module and are visible through the scope chain')

    def global_does_not_leak():
        top, tf, gx, gy = build()
        outer = m.scope('FuncScope', top, top)
        of = m.flow('func', outer)
        outer.attrs['flow'] = of
        outer.attrs['globals'].add('g')
        inner = m.scope('FuncScope', outer, top)
        inf = m.flow('func', inner)
        inner.attrs['flow'] = inf
        own = m.name('g', (7, 8))
        m.add(inf, own)
        e = m.describe(m.lookup(m.names_at(inf, (8, 8)), 'g'))
        is_local = 'g' in inner.attrs['locals']
        return e == frozenset([own.oid]) and is_local, \
            'nested function binding g under an outer `global g`: read resolves to %s, g local to the nested function: %s' % (
                sorted(e or []), is_local)
    _guard(global_does_not_leak, res, rule_methods, 'a global declaration does not extend into nested scopes', SCOPE,
           'a `global` declaration affects only the scope that contains it; a nested function binding the name has its own local')
    def global_read_skips_enclosing_function():
        # x = 0 / def outer(): x = 1; def inner(): global x; return x   -> the compiler emits LOAD_GLOBAL for inner's x
        top, tf, gx, gy = build()
        outer = m.scope('FuncScope', top, top)
        of = m.flow('func', outer)
        outer.attrs['flow'] = of
        ox = m.name('x', (4, 4))
        only_outer = m.name('w', (5, 4))
        m.add(of, ox)
        m.add(of, only_outer)
        inner = m.scope('FuncScope', outer, top)
        inf = m.flow('func', inner)
        inner.attrs['flow'] = inf
        inner.attrs['globals'].add('x')
        inner.attrs['globals'].add('w')
        x = m.describe(m.lookup(m.names_at(inf, (8, 8)), 'x'))
        w = m.lookup(m.names_at(inf, (8, 8)), 'w')
        y = m.describe(m.lookup(m.names_at(inf, (8, 8)), 'y'))
        return x == frozenset([gx.oid]) and w is None and y == frozenset([gy.oid]), \
            'nested function declaring `global x, w` inside a function that has locals x and w: x resolves to %s, must be the ' \
            'module-level %s (never the enclosing function\'s %s); w (bound only in the enclosing function) resolves to %r, must be ' \
            'unknown; undeclared y -> %s' % (sorted(x or []), gx.oid, ox.oid, w, sorted(y or []))
    _guard(global_read_skips_enclosing_function, res, rule_methods, 'a name declared global skips the enclosing functions', SCOPE,
           'a read of a name the scope declares global resolves at module level: bindings of enclosing functions are not candidates')
    def nonlocal_route():
        # def outer(): v = 0; def inner(): nonlocal v; print(v); v = 1; print(v)
        top, tf, gx, gy = build()
        outer = m.scope('FuncScope', top, top)
        of = m.flow('func', outer)
        outer.attrs['flow'] = of
        ov = m.name('v', (4, 4))
        m.add(of, ov)
        inner = m.scope('FuncScope', outer, top)
        inf = m.flow('func', inner)
        inner.attrs['flow'] = inf
        decl = [k for k, v in inner.attrs.items() if 'nonlocal' in k and isinstance(v, set)]
        if not decl:
            return True, 'the scope keeps no table of nonlocal declarations (decided by the declaration rule)'
        inner.attrs[decl[0]].add('v')
        own = m.name('v', (7, 8))
        m.add(inf, own)
        before = m.describe(m.lookup(m.names_at(inf, (6, 8)), 'v'))
        after = m.describe(m.lookup(m.names_at(inf, (8, 8)), 'v'))
        is_local = 'v' in inner.attrs['locals']
        in_mod = m.lookup(m.get(top, 'names'), 'v')
        ok = before == frozenset([ov.oid]) and after and after <= frozenset([ov.oid, own.oid]) and not is_local and in_mod is None
        return ok, 'inner function with `nonlocal v`: the read before its assignment resolves to %s (must be the owner\'s %s), the ' \
            'read after it to %s (the owner\'s or its own binding), v local to the inner function: %s, v at module level: %r' % (
                sorted(before or []), ov.oid, sorted(after or []), is_local, in_mod)
    _guard(nonlocal_route, res, rule_methods, 'a binding under a nonlocal declaration belongs to the enclosing function', SCOPE,
           'an assignment under `nonlocal` must not create a local of the declaring function nor a module-level name')
    def class_global_stays_in_class_body():
        # def outer(): x = 1; class C: global x; def m(self): return x   -> in m, x is a free variable owned by outer
        top, tf, gx, gy = build()
        outer = m.scope('FuncScope', top, top)
        of = m.flow('func', outer)
        outer.attrs['flow'] = of
        ox = m.name('x', (4, 4))
        m.add(of, ox)
        cs = m.scope('ClassScope', outer, top)
        cf = m.flow('class', cs)
        cs.attrs['flow'] = cf
        cs.attrs['globals'].add('x')
        meth = m.scope('FuncScope', cs, top)
        mf = m.flow('func', meth)
        meth.attrs['flow'] = mf
        x = m.describe(m.lookup(m.names_at(mf, (9, 12)), 'x'))
        lam = m.scope('FuncScope', meth, top)
        lf = m.flow('func', lam)
        lam.attrs['flow'] = lf
        xl = m.describe(m.lookup(m.names_at(lf, (9, 30)), 'x'))
        return x == frozenset([ox.oid]) and xl == frozenset([ox.oid]), \
            'class nested in a function declares `global x` in its body; a method (and a lambda inside it) reading x resolves to %s / %s, ' \
            'must be the enclosing function\'s %s: a class body\'s declarations do not extend to its methods' % (
                sorted(x or []), sorted(xl or []), ox.oid)
    _guard(class_global_stays_in_class_body, res, rule_methods, 'a global declaration in a class body does not reach its methods', SCOPE,
           'a `global` declaration affects only the block that contains it: methods resolve the name through the enclosing functions')
    def class_body_global_read():
        # def outer(): x = 1; class C: global x; y = x     -> the class body's x is the module's
        top, tf, gx, gy = build()
        outer = m.scope('FuncScope', top, top)
        of = m.flow('func', outer)
        outer.attrs['flow'] = of
        ox = m.name('x', (4, 4))
        ow = m.name('w', (5, 4))
        m.add(of, ox)
        m.add(of, ow)
        cs = m.scope('ClassScope', outer, top)
        cf = m.flow('class', cs)
        cs.attrs['flow'] = cf
        cs.attrs['globals'].add('x')
        x = m.describe(m.lookup(m.names_at(cf, (8, 8)), 'x'))
        w = m.describe(m.lookup(m.names_at(cf, (8, 8)), 'w'))
        y = m.describe(m.lookup(m.names_at(cf, (8, 8)), 'y'))
        return x == frozenset([gx.oid]) and w == frozenset([ow.oid]) and y == frozenset([gy.oid]), \
            'body of a class nested in a function, declaring `global x`: x resolves to %s (must be the module-level %s, not the ' \
            'enclosing function\'s %s); undeclared w -> %s (the enclosing function\'s), y -> %s (the module\'s)' % (
                sorted(x or []), gx.oid, ox.oid, sorted(w or []), sorted(y or []))
    _guard(class_body_global_read, res, rule_methods, 'a name declared global in a class body skips the enclosing functions', SCOPE,
           'a read of a name the class body declares global resolves at module level')
    def sibling_global_isolated():
        # x = 0 / def outer(): x = 1; def a(): global x; return x; def b(): return x   -> a reads the module's x, b the closure variable,
        # in whichever order the two reads are resolved (the tables of sibling scopes must not be one shared object that one of them edits)
        results = []
        for order in (('a', 'b', 'a', 'b'), ('b', 'a', 'b')):
            top, tf, gx, gy = build()
            outer = m.scope('FuncScope', top, top)
            of = m.flow('func', outer)
            outer.attrs['flow'] = of
            ox = m.name('x', (4, 4))
            m.add(of, ox)
            flows = {}
            for label in ('a', 'b'):
                sc = m.scope('FuncScope', outer, top)
                fl = m.flow('func', sc)
                sc.attrs['flow'] = fl
                if label == 'a':
                    sc.attrs['globals'].add('x')
                flows[label] = fl
            for i, label in enumerate(order):
                got = m.describe(m.lookup(m.names_at(flows[label], (8 + i, 8)), 'x'))
                want = frozenset([gx.oid]) if label == 'a' else frozenset([ox.oid])
                results.append((order, i, label, got == want, sorted(got or [])))
        bad = [r for r in results if not r[3]]
        return not bad, 'two functions nested in one function, the first declares `global x`, both read x: resolved in the order %s, read %d ' \
            '(in %s) gives %s' % ((bad[0][0], bad[0][1] + 1, bad[0][2], bad[0][4]) if bad else ('', 0, '', ''))
    _guard(sibling_global_isolated, res, rule_methods, 'a global declaration does not change what a sibling scope reads', SCOPE,
           'the table a function starts from is its own: a `global` declaration of one nested function must not re-route the name in the '
           'functions next to it, whichever is resolved first')
    def module_level_global_is_a_no_op():
        # global x / x = 1 / print(x)  at module level: legal, and x is the module's x
        top, tf, gx, gy = build()
        # the declaration as supp's own visit_Global records it when the current scope is the module
        from .absint import SymNode as _SN
        vcls = m.facts.classes.get('extract_visitor')
        vg = vcls.lookup('visit_Global') if vcls is not None else None
        if vg is None:
            raise AnalysisError('extract_visitor.visit_Global vanished')
        vis = Obj(vcls, {'top': top, 'flow': tf}, 'visitor at module level')
        m.it.call(FuncVal(vg.rel, vg.node, None, vis, vg.cls), [_SN('Global', 'node', 'stmt', {'names': ['x']})], {})
        try:
            x = m.describe(m.lookup(m.names_at(tf, (9, 0)), 'x'))
            y = m.describe(m.lookup(m.names_at(tf, (9, 0)), 'y'))
        except Uninterpretable as e:
            if 'depth' in str(e) or 'budget' in str(e):
                return False, 'a `global x` statement at module level: the lookup of x at module level does not terminate (%s)' % e
            raise
        return x == frozenset([gx.oid]) and y == frozenset([gy.oid]), \
            'a `global x` statement at module level: x resolves to %s (must be the module\'s own %s), y to %s' % (sorted(x or []), gx.oid, sorted(y or []))
    _guard(module_level_global_is_a_no_op, res, rule_methods, 'a global declaration at module level changes nothing', SCOPE,
           '`global x` is legal at module level and has no effect there: the module\'s names are looked up as without it')
    def method_global_in_nested_class():
        # x = 0 / def outer(): x = 1; class C: def m(self): global x; return x     -> the method's x is the module's: its immediate
        # parent is the class, whose table is the enclosing function's
        top, tf, gx, gy = build()
        outer = m.scope('FuncScope', top, top)
        of = m.flow('func', outer)
        outer.attrs['flow'] = of
        ox = m.name('x', (4, 4))
        ow = m.name('w', (5, 4))
        m.add(of, ox)
        m.add(of, ow)
        cs = m.scope('ClassScope', outer, top)
        cf = m.flow('class', cs)
        cs.attrs['flow'] = cf
        results = []
        for kind in ('FuncScope', 'ClassScope'):
            inner = m.scope(kind, cs, top)
            fl = m.flow('func' if kind == 'FuncScope' else 'class', inner)
            inner.attrs['flow'] = fl
            inner.attrs['globals'].add('x')
            x = m.describe(m.lookup(m.names_at(fl, (9, 12)), 'x'))
            w = m.describe(m.lookup(m.names_at(fl, (9, 12)), 'w'))
            results.append((kind, x == frozenset([gx.oid]) and w == frozenset([ow.oid]), sorted(x or []), sorted(w or [])))
        bad = [r for r in results if not r[1]]
        return not bad, 'a %s whose immediate parent is a class nested in a function declares `global x`: x resolves to %s (must be the ' \
            'module-level %s, not the enclosing function\'s %s), undeclared w -> %s (the enclosing function\'s %s)' % (
                (bad[0][0], bad[0][2], gx.oid, ox.oid, bad[0][3], ow.oid) if bad else ('', '', '', '', '', ''))
    _guard(method_global_in_nested_class, res, rule_methods, 'a global declaration in a method skips the function around its class', SCOPE,
           'a scope directly inside a class inherits the table of the function around the class: a name it declares global must still '
           'be re-routed to the module')
    res.count(rule_entry + '_scenarios', 17, floor=17)


def check_name_scope(repo, res, rule):
    """Flow.add_name interpreted for a plain local and for a binding made under a `global` declaration: both must carry .scope."""
    m = get_model(repo)

    def scenario():
        builtins = Obj(m.cls('BaseScope'), {'names': {}}, 'builtins')
        top = m.scope('SourceScope', builtins)
        fs = m.scope('FuncScope', top, top)
        ff = m.flow('func', fs)
        fs.attrs['flow'] = ff
        fs.attrs['globals'].add('g')
        gname = m.name('g', (5, 4))
        lname = m.name('loc', (6, 4))
        m.add(ff, gname)
        m.add(ff, lname)
        sg, sl = gname.attrs.get('scope'), lname.attrs.get('scope')
        return sg is fs and sl is fs, 'local -> %r, global-declared -> %r' % (sl, sg)
    _guard(scenario, res, rule, 'every registered binding carries .scope (also under a global declaration)', SCOPE,
           'Flow.add_name must stamp name.scope on every binding it registers: ImportedName.resolve and Name.filename dereference it, '
           'so `global json; import json` followed by a completion on json would raise AttributeError')


# ---------------------------------------------------------------------------
# C04-R1 instances: which loop shapes answer differently depending on what was asked first
# ---------------------------------------------------------------------------

LOOP_ALONE_WRONG = []     # filled by loop_order_records: (cls, mode, asked, wanted (x, y), answered) where a lone lookup disagrees with the graph


def loop_order_records(repo):
    """For every loop construct (for / async for / while) the region graph the extractor builds (E1, base path of the largest
    shape) is rebuilt from supp's own Flow / LoopFlow objects, once with every body statement a compound one (it leaves a region of
    its own) and once with simple body statements (they stay in the region they start in).  One name is bound before the loop and
    again at the end of the body (a loop-carried definition), another only at the end of the body.  Every read position of the
    construct (test or iterable, each body statement, the else block, the code after the loop) is asked alone on a fresh graph and
    after each other position: a different answer is an order dependence of that shape.
    -> list of (cls, mode, asked, first, alone, after_first)"""
    from . import rules_e1 as R
    from .templates import Template
    wrong = LOOP_ALONE_WRONG

    def build():
        m = get_model(repo)
        out = []
        n = 0
        saved = m.it.MAX_STEPS, m.it.memoise_cached
        m.it.MAX_STEPS = 3000000
        m.it.MAX_CALL_DEPTH = 150          # the lookups recurse through every region of the loop; helpers add frames
        m.it.memoise_cached = True        # the subject: what supp's own memo attributes keep between two lookups
        try:
            return explore_loops(m)
        finally:
            m.it.MAX_STEPS, m.it.memoise_cached = saved
            m.it.MAX_CALL_DEPTH = 40

    def explore_loops(m):
        out = []
        n = 0
        del wrong[:]
        for cls in ('For', 'AsyncFor', 'While'):
            summs = R.summaries(repo).get(cls) or []
            s = next((x for x in summs if x.variant == 'max'), None)
            bp = R.base_path(s) if s is not None else None
            if bp is None or bp.raised is not None:
                raise AnalysisError('no base summary for %s' % cls)
            for mode in ('compound', 'simple', 'nested loop', 'two-armed'):
                t = Template(s.root, bp)
                alias = dict(t.alias)
                if mode == 'simple':
                    for tok, r in bp.regions.items():
                        if r.get('exit_of') and t.sort_of(r['exit_of'][0]) == 'stmt':
                            alias[tok] = r['exit_of'][1]

                def canon(tok):
                    seen = set()
                    while tok in alias and tok not in seen:
                        seen.add(tok)
                        tok = alias[tok]
                    return tok
                reads = []         # (label, region token, line)
                for i, (path, reg, _l) in enumerate(bp.visits):
                    reads.append((path[5:] if path.startswith('node.') else path, canon(reg), 10 * (i + 1)))
                final = canon(bp.final_flow)
                reads.append(('after the loop', final, 10 * (len(bp.visits) + 2)))
                if mode != 'simple':
                    for lab, _reg, line in list(reads):
                        if 'exit(node.%s)' % lab in bp.regions and t.sort_of('node.' + lab) == 'stmt':
                            reads.append(('inside ' + lab, 'inside ' + lab, line + 3))
                            if mode == 'two-armed':
                                reads.append(('inside the else of ' + lab, 'inside the else of ' + lab, line + 5))
                body_reads = [r for r in reads if r[0].startswith('body')]
                if not body_reads:
                    raise AnalysisError('%s: no body statement in the summary' % cls)
                last_label, last_reg, last_line = body_reads[-1]
                # where a binding made by the last body statement lives: its exit region (compound) or its own region (simple)
                last_path = 'node.' + last_label
                late_reg = canon('exit(%s)' % last_path) if mode != 'simple' else last_reg

                def fresh():
                    m.it.steps = 0
                    builtins = Obj(m.cls('BaseScope'), {'names': {}}, 'builtins')
                    top = m.scope('SourceScope', builtins)
                    tf = m.flow('top', top)
                    top.attrs['flow'] = tf
                    fs = m.scope('FuncScope', top, top)
                    toks = sorted({canon(k) for k in bp.regions} | {canon(p) for r in bp.regions.values() for p in r['parents'] + r['loops']}
                                  | {'CUR', final})
                    flows = {tok: m.flow(tok, fs) for tok in toks}
                    fs.attrs['flow'] = flows['CUR']
                    for tok, r in bp.regions.items():
                        if canon(tok) != tok:
                            continue
                        ps = [flows[canon(p)] for p in r['parents'] if canon(p) != tok]
                        if mode != 'simple' and r.get('exit_of') and t.sort_of(r['exit_of'][0]) == 'stmt' and len(ps) == 1:
                            # a compound statement: a branch inside it (entered from where the statement starts) and the region
                            # it leaves behind, reached through the branch or around it
                            inner = m.flow('inside ' + r['exit_of'][0], fs, [ps[0]])
                            if mode == 'nested loop':
                                # ... which is itself a loop whose body stays in one region (the back edge returns to its start)
                                m.it.call(m.it.getattr(inner, 'loop'), [inner], {})
                            flows['inside ' + r['exit_of'][0][5:]] = inner
                            if mode == 'two-armed':
                                # ... an if/else: two arms entered from where the statement starts, its exit reached through either
                                # (the second arm finds the tables of the regions above it already computed by the first)
                                other = m.flow('inside the else of ' + r['exit_of'][0], fs, [ps[0]])
                                flows['inside the else of ' + r['exit_of'][0][5:]] = other
                                ps = [inner, other]
                            else:
                                ps = [inner, ps[0]]
                        flows[tok].attrs['parents'] = ps
                        for lp in r['loops']:
                            m.it.call(m.it.getattr(flows[tok], 'loop'), [flows[canon(lp)]], {})
                    labels = {}
                    pre = m.name('x', (1, 0))
                    m.add(flows['CUR'], pre)
                    late_x = m.name('x', (last_line + 1, 8))
                    late_y = m.name('y', (last_line + 2, 8))
                    m.add(flows[late_reg], late_x)
                    m.add(flows[late_reg], late_y)
                    labels[pre.oid], labels[late_x.oid], labels[late_y.oid] = 'x before the loop', 'x at the end of the body', 'y at the end of the body'
                    return flows, labels

                def ask(flows, labels, read):
                    _label, reg, line = read
                    m.it.steps = 0
                    tab = m.names_at(flows[reg], (line, 0))
                    ans = []
                    for ident in ('x', 'y'):
                        d = m.describe(m.lookup(tab, ident))
                        ans.append(None if d is None else tuple(sorted(labels.get(x, str(x)) for x in d)))
                    return tuple(ans)
                alone = {}
                for r in reads:
                    flows, labels = fresh()
                    alone[r] = ask(flows, labels, r)
                    n += 1
                    # what the region graph itself says (parents and back edges followed upwards): the binding made at the end of the
                    # body is visible wherever its region is an ancestor of the reader's region - through the back edge, inside the loop
                    def up(fl):
                        return [p.attrs['parent'] if p.cls.name == 'LoopFlow' else p for p in fl.attrs.get('parents') or []]
                    anc, work = set(), up(flows[r[1]])
                    while work:
                        fl = work.pop()
                        if id(fl) in anc:
                            continue
                        anc.add(id(fl))
                        work.extend(up(fl))
                    want_x = set()
                    if id(flows['CUR']) in anc or r[1] == 'CUR':
                        want_x.add('x before the loop')
                    late_vis = id(flows[late_reg]) in anc or (r[1] == late_reg and r[2] > last_line + 2)
                    if late_vis:
                        want_x.add('x at the end of the body')
                    want_y = {'y at the end of the body'} if late_vis else set()
                    got_x = set(alone[r][0] or ()) - {'UNDEF'}
                    got_y = set(alone[r][1] or ()) - {'UNDEF'}
                    if late_vis and 'x before the loop' in want_x and late_reg != 'CUR':
                        pass
                    if not (want_x - {'x before the loop'} <= got_x <= want_x and got_y == want_y):
                        wrong.append((cls, mode, r[0], (sorted(want_x), sorted(want_y)), alone[r]))
                for q in reads:
                    for first in reads:
                        if first == q:
                            continue
                        flows, labels = fresh()
                        ask(flows, labels, first)
                        got = ask(flows, labels, q)
                        n += 1
                        if got != alone[q]:
                            out.append((cls, mode, q[0], first[0], alone[q], got))
        return out, n
    return repo.memo('loop-order-model', build)


# ---------------------------------------------------------------------------
# the lookups honour the region graph (C01-R5 / C02-R1 / C03-R1): the graph the extractor builds for a construct, rebuilt from supp's
# own Flow / LoopFlow objects in the state the extractor leaves them in, asked through supp's own names_at
# ---------------------------------------------------------------------------

FLOW_STRUCT_ATTRS = ('hint', 'scope', '_names', 'parents')


def lookup_reach_records(repo):
    """For every construct with blocks (reference CFG of pyref) and every structural path of its shapes: the regions of the E1
    summary are rebuilt as real Flow objects (parents, loops, and whatever further primitive state the extractor wrote on them, e.g.
    a flag), one name is bound at the end of every block, and at the start of every block (and after the construct) supp's own
    names_at/lookup is interpreted on a fresh graph.  What the lookup answers is compared with what the region graph says under the
    resolution semantics the templates assume (sa/templates.py): a binding is visible iff its region is the reader's or an ancestor,
    certain iff it is on every route.  Loop constructs are included (back edges are built with supp's own Flow.loop).
    -> (records, n_queries)"""
    from . import rules_e1 as R
    from . import pyref
    from .templates import Template, reach_relations

    def build():
        m = get_model(repo)
        saved = m.it.MAX_STEPS
        m.it.MAX_STEPS = 3000000
        m.it.MAX_CALL_DEPTH = 150
        try:
            return explore(m)
        finally:
            m.it.MAX_STEPS = saved
            m.it.MAX_CALL_DEPTH = 40

    def explore(m):
        out = []
        nq = 0
        for cls, summs in sorted(R.summaries(repo).items()):
            if cls in R.DOMAIN_EXCLUDED:
                continue
            for s in summs:
                ref = pyref.block_cfg(s.root)
                if ref is None:
                    continue
                blocks, _preds = ref
                for sp in R.structural_paths(s):
                    if any(r['scope'] != 'CURSCOPE' for tok, r in sp.regions.items() if r['hint'] != 'top' or r['parents']):
                        continue            # regions of a nested scope: the scope chain is decided by the C05 scenarios
                    t = Template(s.root, sp)
                    nodes, succ, unvisited = t.block_graph(blocks)
                    smay, sdom = reach_relations(nodes, succ, True)
                    # places: (region, position) of each block's entry and exit, as the templates put them
                    places = {}
                    for name, lv in blocks.items():
                        if name in unvisited:
                            continue
                        regs = [t.visit_region.get(x.path) for x in lv]
                        places[(name, 'in')] = (regs[0], t.start(lv[0].path))
                        last = lv[-1]
                        if last.sort == 'stmt':
                            places[(name, 'out')] = (t.canon('exit(%s)' % last.path), ())
                        else:
                            places[(name, 'out')] = (regs[-1], t.start(last.path) + pyref.AFTER_ALL)
                    order = sorted({pos for _r, pos in places.values()})
                    line_of = {pos: 10 * (i + 1) for i, pos in enumerate(order)}
                    toks = sorted({tok for tok in t.parents if sp.regions[tok]['scope'] == 'CURSCOPE'} | {'CUR', t.final}
                                  | {r for r, _ in places.values()} | {p for ps in t.parents.values() for p in ps})
                    names = {name: 'n%d' % i for i, name in enumerate(sorted(n for n in blocks if n not in unvisited))}

                    def fresh():
                        m.it.steps = 0
                        builtins = Obj(m.cls('BaseScope'), {'names': {}}, 'builtins')
                        top = m.scope('SourceScope', builtins)
                        tf = m.flow('top', top)
                        top.attrs['flow'] = tf
                        fs = m.scope('FuncScope', top, top)
                        flows = {tok: m.flow(tok, fs) for tok in toks}
                        fs.attrs['flow'] = flows['CUR']
                        for tok in toks:
                            info = sp.regions.get(tok) or {}
                            loops = {t.canon(lp) for lp in info.get('loops', [])}
                            flows[tok].attrs['parents'] = [flows[p] for p in t.parents.get(tok, []) if p != tok and p not in loops]
                        for tok in toks:
                            # back edges through supp's own Flow.loop (a LoopFlow object per edge)
                            for lp in (sp.regions.get(tok) or {}).get('loops', []):
                                m.it.call(m.it.getattr(flows[tok], 'loop'), [flows[t.canon(lp)]], {})
                        defaults = {tok: dict(flows[tok].attrs) for tok in toks}
                        # the state the extractor wrote on a region; a region an expression child "leaves" is the region it was
                        # visited in (an expression creates none), so what was written there was written on that region
                        for tok, info in sp.regions.items():
                            c = t.canon(tok)
                            o = info.get('obj')
                            if c not in flows or o is None:
                                continue
                            for k, v in o.attrs.items():
                                if k in FLOW_STRUCT_ATTRS:
                                    continue
                                if isinstance(v, (set, frozenset, list, tuple)) and all(isinstance(x, (bool, int, str)) or x is None for x in v):
                                    v = type(v)(str(x) if isinstance(x, str) else x for x in v)     # a table of names / flags
                                elif not (isinstance(v, (bool, int, str)) or v is None):
                                    continue
                                if tok != c and defaults[c].get(k, v) == v:
                                    continue
                                flows[c].attrs[k] = v
                        ids = {}
                        for name, ident in names.items():
                            reg, pos = places[(name, 'out')]
                            nm = m.name(ident, (line_of[pos] + 5, 0))
                            m.add(flows[reg], nm)
                            ids[ident] = nm.oid
                        return flows, ids
                    readers = [(b, places[(b, 'in')]) for b in sorted(names)] + [('after', (t.final, None))]
                    for b, (reg, pos) in readers:
                        flows, ids = fresh()
                        line = line_of[pos] if pos is not None else 10 * (len(order) + 5)
                        nq += 1
                        b_in = (b, 'in') if b != 'after' else 'after'
                        try:
                            tab = m.names_at(flows[reg], (line, 0))
                            found = {ident: m.describe(m.lookup(tab, ident)) for ident in names.values()}
                        except InterpRaise as e:
                            # the lookup itself raises: nothing is found (the crash is reported by the lookup scenarios / C08)
                            found = {ident: None for ident in names.values()}
                        for a, ident in names.items():
                            d = found[ident]
                            sem_may = d is not None and ids[ident] in d
                            sem_dom = sem_may and 'UNDEF' not in d
                            a_out = (a, 'out')
                            out.append({'cls': cls, 'variant': s.variant, 'a': R.gen(a), 'b': R.gen(b),
                                        'struct_may': b_in in smay.get(a_out, ()), 'sem_may': sem_may,
                                        'struct_dom': a_out in sdom.get(b_in, ()), 'sem_dom': sem_dom,
                                        'line': R.method_line(repo, cls)})
        return out, nq
    return repo.memo('lookup-reach-model', build)
