"""MessagePack format table, written from the specification
(https://github.com/msgpack/msgpack/blob/master/spec.md, "Formats" overview
table and the per-family layouts).  Nothing here is read from supp.

Each row: name, family, first-byte range (lo, hi), kind:
  'inline'   value is in the first byte: value = first & mask (unsigned) or the
             byte reinterpreted as int8 ('signed')
  'value'    a big-endian number of `width` bytes follows (struct format `fmt`)
  'len'      a big-endian unsigned length of `width` bytes follows, then payload
  'fixlen'   length is in the low bits of the first byte (mask), then payload
  'fixext'   ext with implied data length `n`
  'const'    no payload
"""

SPEC = [
    # name,            family,   lo,   hi,   kind,     params
    ('positive fixint', 'int',   0x00, 0x7f, 'inline', {'mask': 0x7f, 'signed': False}),
    ('fixmap',          'map',   0x80, 0x8f, 'fixlen', {'mask': 0x0f}),
    ('fixarray',        'array', 0x90, 0x9f, 'fixlen', {'mask': 0x0f}),
    ('fixstr',          'str',   0xa0, 0xbf, 'fixlen', {'mask': 0x1f}),
    ('nil',             'nil',   0xc0, 0xc0, 'const',  {'value': None}),
    ('(never used)',    'reserved', 0xc1, 0xc1, 'reserved', {}),
    ('false',           'bool',  0xc2, 0xc2, 'const',  {'value': False}),
    ('true',            'bool',  0xc3, 0xc3, 'const',  {'value': True}),
    ('bin 8',           'bin',   0xc4, 0xc4, 'len',    {'width': 1, 'fmt': 'B'}),
    ('bin 16',          'bin',   0xc5, 0xc5, 'len',    {'width': 2, 'fmt': '>H'}),
    ('bin 32',          'bin',   0xc6, 0xc6, 'len',    {'width': 4, 'fmt': '>I'}),
    ('ext 8',           'ext',   0xc7, 0xc7, 'len',    {'width': 1, 'fmt': 'B'}),
    ('ext 16',          'ext',   0xc8, 0xc8, 'len',    {'width': 2, 'fmt': '>H'}),
    ('ext 32',          'ext',   0xc9, 0xc9, 'len',    {'width': 4, 'fmt': '>I'}),
    ('float 32',        'float', 0xca, 0xca, 'value',  {'width': 4, 'fmt': '>f'}),
    ('float 64',        'float', 0xcb, 0xcb, 'value',  {'width': 8, 'fmt': '>d'}),
    ('uint 8',          'int',   0xcc, 0xcc, 'value',  {'width': 1, 'fmt': 'B', 'signed': False}),
    ('uint 16',         'int',   0xcd, 0xcd, 'value',  {'width': 2, 'fmt': '>H', 'signed': False}),
    ('uint 32',         'int',   0xce, 0xce, 'value',  {'width': 4, 'fmt': '>I', 'signed': False}),
    ('uint 64',         'int',   0xcf, 0xcf, 'value',  {'width': 8, 'fmt': '>Q', 'signed': False}),
    ('int 8',           'int',   0xd0, 0xd0, 'value',  {'width': 1, 'fmt': 'b', 'signed': True}),
    ('int 16',          'int',   0xd1, 0xd1, 'value',  {'width': 2, 'fmt': '>h', 'signed': True}),
    ('int 32',          'int',   0xd2, 0xd2, 'value',  {'width': 4, 'fmt': '>i', 'signed': True}),
    ('int 64',          'int',   0xd3, 0xd3, 'value',  {'width': 8, 'fmt': '>q', 'signed': True}),
    ('fixext 1',        'ext',   0xd4, 0xd4, 'fixext', {'n': 1}),
    ('fixext 2',        'ext',   0xd5, 0xd5, 'fixext', {'n': 2}),
    ('fixext 4',        'ext',   0xd6, 0xd6, 'fixext', {'n': 4}),
    ('fixext 8',        'ext',   0xd7, 0xd7, 'fixext', {'n': 8}),
    ('fixext 16',       'ext',   0xd8, 0xd8, 'fixext', {'n': 16}),
    ('str 8',           'str',   0xd9, 0xd9, 'len',    {'width': 1, 'fmt': 'B'}),
    ('str 16',          'str',   0xda, 0xda, 'len',    {'width': 2, 'fmt': '>H'}),
    ('str 32',          'str',   0xdb, 0xdb, 'len',    {'width': 4, 'fmt': '>I'}),
    ('array 16',        'array', 0xdc, 0xdc, 'len',    {'width': 2, 'fmt': '>H'}),
    ('array 32',        'array', 0xdd, 0xdd, 'len',    {'width': 4, 'fmt': '>I'}),
    ('map 16',          'map',   0xde, 0xde, 'len',    {'width': 2, 'fmt': '>H'}),
    ('map 32',          'map',   0xdf, 0xdf, 'len',    {'width': 4, 'fmt': '>I'}),
    ('negative fixint', 'int',   0xe0, 0xff, 'inline', {'mask': 0xff, 'signed': True}),
]

assert sum(hi - lo + 1 for _, _, lo, hi, _, _ in SPEC) == 256

BY_BYTE = {}
for _row in SPEC:
    for _b in range(_row[2], _row[3] + 1):
        BY_BYTE[_b] = _row

# struct format -> (byte width, min, max) for the integer formats
INT_FMT = {
    'B': (1, 0, 2**8 - 1), 'b': (1, -2**7, 2**7 - 1),
    '>H': (2, 0, 2**16 - 1), '>h': (2, -2**15, 2**15 - 1),
    '>I': (4, 0, 2**32 - 1), '>i': (4, -2**31, 2**31 - 1),
    '>Q': (8, 0, 2**64 - 1), '>q': (8, -2**63, 2**63 - 1),
}
FLOAT_FMT = {'>f': 4, '>d': 8}

# domain of the data model (property statement)
INT_DOMAIN = (-2**63, 2**64 - 1)
LEN_DOMAIN = (0, 2**32 - 1)
