"""A small abstract interpreter for the subset of Python that supp's extractor
(nast.py visit_* methods, scope.py constructors, name.py constructors, a few
util.py helpers) is written in.

It evaluates *supp's source* (ASTs from core.Repo), never supp itself, over
abstract values:

  SymNode   a symbolic ast node reached by an access path from the root `node`
            of the construct under analysis; children of sort expr/stmt are
            opaque leaves (any expression / any statement)
  SymIdent  an identifier string with provenance (a str subclass carrying the
            access path it was read from; every identifier has a unique text)
  SymPos    a symbolic line or column of a SymNode
  Obj       an instance of one of supp's classes; methods are interpreted from
            source, attributes live in a dict
  SymSet    a set with unknown prior contents (scope.locals / scope.globals of
            the enclosing scope); membership forks the analysis
  Unknown   anything else

Conditions on unknown values fork: the driver re-runs the function for every
sequence of decisions (path-sensitive abstract interpretation, no solver).
Anything outside the modelled subset raises Uninterpretable -> ANALYSIS-ERROR.
"""
import ast
import re as _re
import builtins as _builtins

from .core import AnalysisError, unparse
from . import grammar as G
from .facts import SUPP_MODULES


class Uninterpretable(AnalysisError):
    pass


class InterpRaise(Exception):
    """A `raise` (or a modelled runtime error) inside interpreted supp code."""

    def __init__(self, exc_name, msg='', node=None, attrs=None, value=None):
        Exception.__init__(self, '%s: %s' % (exc_name, msg))
        self.exc_name = exc_name
        self.msg = msg
        self.node = node
        self.attrs = attrs or {}
        self.value = value        # the raised object when it is an interpreted instance


class ExcVal(object):
    """The object bound by `except X as e` for a modelled exception."""
    def __init__(self, exc_name, msg, attrs):
        self.exc_name = exc_name
        self.msg = msg
        self.attrs = dict(attrs)

    def __repr__(self):
        return '%s(%r)' % (self.exc_name, self.msg)


class _Return(Exception):
    def __init__(self, value):
        self.value = value


class _Break(Exception):
    pass


class _Continue(Exception):
    pass


# ---------------------------------------------------------------------------
# values
# ---------------------------------------------------------------------------

class Unknown(object):
    def __init__(self, tag='?'):
        self.tag = tag

    def __repr__(self):
        return 'Unknown(%s)' % self.tag


class SymIdent(str):
    """Identifier text with provenance."""
    def __new__(cls, text, path, derived=None):
        o = str.__new__(cls, text)
        o.path = path
        o.derived = derived
        return o


class IdentLen(int):
    """len() of an identifier of the analysed statement: the number is the placeholder's, the provenance is what counts."""
    def __new__(cls, n, path):
        o = int.__new__(cls, n)
        o.path = path
        return o


class SymPos(object):
    __slots__ = ('path', 'part', 'delta', 'lens')

    def __init__(self, path, part, delta=0, lens=()):
        self.path = path
        self.part = part      # 'line' | 'col' | 'end_line' | 'end_col'
        self.delta = delta
        self.lens = lens      # ((sign, identifier path), ...): lengths of identifiers added to / subtracted from the component

    def shifted(self, sign, b):
        if isinstance(b, IdentLen):
            return SymPos(self.path, self.part, self.delta, self.lens + ((sign, b.path),))
        return SymPos(self.path, self.part, self.delta + sign * b, self.lens)

    def __eq__(self, other):
        return isinstance(other, SymPos) and (self.path, self.part, self.delta, self.lens) == (other.path, other.part, other.delta, other.lens)

    def __hash__(self):
        return hash((self.path, self.part, self.delta, self.lens))

    def __repr__(self):
        d = '' if not self.delta else '%+d' % self.delta
        d += ''.join('%slen(%s)' % ('+' if sg > 0 else '-', p) for sg, p in self.lens)
        return '%s(%s)%s' % (self.part, self.path, d)


class SymPosMix(object):
    """A position component computed by comparing/combining the positions of several nodes (max, min)."""
    def __init__(self, op, parts):
        self.op = op
        self.parts = parts

    def __repr__(self):
        return '%s(%s)' % (self.op, ', '.join(repr(p) for p in self.parts))


class LocExpr(object):
    """A location produced by a summarised helper (get_expr_end, find_id_loc,
    get_first_body_node_loc)."""
    def __init__(self, kind, path, extra=None):
        self.kind = kind      # 'expr_end' | 'text_search' | 'first_body'
        self.path = path
        self.extra = extra

    def __eq__(self, other):
        return isinstance(other, LocExpr) and (self.kind, self.path) == (other.kind, other.path)

    def __hash__(self):
        return hash((self.kind, self.path))

    def __repr__(self):
        return '%s(%s%s)' % (self.kind, self.path, ', %r' % (self.extra,) if self.extra else '')


class LocPart(object):
    """One component (0 = line, 1 = column) of a summarised location."""
    def __init__(self, loc, index):
        self.loc = loc
        self.index = index

    def __repr__(self):
        return '%r[%d]' % (self.loc, self.index)


class SymNode(object):
    def __init__(self, cls, path, sort, fields=None):
        self.cls = cls            # grammar class name or None (opaque)
        self.path = path
        self.sort = sort
        self.fields = fields or {}
        self.extra = {}           # attributes set by supp (e.g. .flow)

    def __repr__(self):
        return '<%s %s>' % (self.cls or ('any ' + self.sort), self.path)


class AstClass(object):
    """A class of the stdlib `ast` module (from ast import Attribute, ...)."""
    _cache = {}

    def __new__(cls, name):
        if name not in cls._cache:
            o = object.__new__(cls)
            o.name = name
            cls._cache[name] = o
        return cls._cache[name]

    def __repr__(self):
        return 'ast.%s' % self.name


class ExcClassVal(object):
    def __init__(self, name):
        self.name = name


class OpaqueTypeName(str):
    """type(x).__name__ of an arbitrary node."""
    def __new__(cls, text, opaque):
        o = str.__new__(cls, text)
        o.opaque = opaque
        return o


class OpaqueType(object):
    def __init__(self, sort, path=None):
        self.sort = sort
        self.path = path


class ClassRef(object):
    def __init__(self, info):
        self.info = info

    def __eq__(self, other):          # a class is one object however often it is looked up (keys of dispatch tables)
        return isinstance(other, ClassRef) and other.info is self.info

    def __ne__(self, other):
        return not self.__eq__(other)

    def __hash__(self):
        return hash(('ClassRef', id(self.info)))

    def __repr__(self):
        return 'class %s' % self.info.name


class Obj(object):
    _n = 0

    def __init__(self, cls, attrs=None, label=None):
        self.cls = cls            # ClassInfo
        self.attrs = attrs if attrs is not None else {}
        Obj._n += 1
        self.oid = Obj._n
        self.label = label
        self.astcls = None        # set for a stub standing for a node of the stdlib ast (type(o) is ast.<astcls>)

    def __repr__(self):
        return '<%s#%s%s>' % (self.astcls or self.cls.name, self.oid, ' ' + self.label if self.label else '')


class SymDict(object):
    """Mapping with unknown contents (sys.modules): membership forks, lookups give the entry's stand-in."""
    def __init__(self, label):
        self.label = label

    def __repr__(self):
        return 'SymDict(%s)' % self.label


class Record(object):
    """A plain result object of a modelled library call (os.stat): attributes only."""
    def __init__(self, label, **attrs):
        self.label = label
        self.attrs = attrs

    def __repr__(self):
        return '<%s>' % self.label


class ModStub(object):
    """The runtime module object sys.modules[name] (what __import__ leaves there)."""
    def __init__(self, name):
        self.name = name

    def __eq__(self, other):
        return isinstance(other, ModStub) and other.name == self.name

    def __hash__(self):
        return hash(('ModStub', self.name))

    def __repr__(self):
        return '<runtime module %s>' % self.name


class SymSet(object):
    """Set with unknown prior contents.  A copy (set(S), S.copy()) shares the unknown part with its base."""
    def __init__(self, label, base=None):
        self.label = label
        self.added = list(base.added) if base is not None else []
        self.base = base

    def __repr__(self):
        return 'SymSet(%s)' % self.label


class FuncVal(object):
    def __init__(self, rel, node, closure=None, bound=None, cls=None, name=None):
        self.rel = rel
        self.node = node
        self.closure = closure    # dict or None
        self.bound = bound        # self object or None
        self.cls = cls            # ClassInfo the function was found in
        self.name = name or getattr(node, 'name', '<lambda>')
        self.attrs = {}

    def bind(self, obj):
        return FuncVal(self.rel, self.node, self.closure, obj, self.cls, self.name)

    def __repr__(self):
        return '<func %s>' % self.name


class PropertyVal(object):
    """The result of the builtin property(getter) in interpreted code."""
    def __init__(self, getter):
        self.getter = getter

    def __repr__(self):
        return '<property %r>' % (self.getter,)


class Native(object):
    def __init__(self, name, fn, model=True):
        self.name = name
        self.fn = fn
        self.model = model     # fn is a model that understands abstract values

    def __repr__(self):
        return '<native %s>' % self.name


def _memoising(fn):
    """What functools.lru_cache(...)(fn) is: fn with one table for the whole process, keyed by the arguments."""
    def call(it, a, k):
        table = it.__dict__.setdefault('_lru_tables', {})
        key = ('wrapped', id(fn), repr([getattr(x, 'oid', x) if isinstance(x, Obj) else x for x in a]), repr(sorted(k.items())))
        if key in table:
            return table[key]
        r = it.call(fn, list(a), dict(k))
        table[key] = r
        return r
    return Native('lru_cache-wrapped %r' % (fn,), call)


def _nat_lru_cache(it, a, k):
    if a and isinstance(a[0], (FuncVal, Native)):          # @lru_cache without parentheses
        return _memoising(a[0])
    return Native('lru_cache decorator', lambda it2, a2, k2: _memoising(a2[0]))


def _nat_namedtuple(it, a, k):
    """collections.namedtuple(name, fields): the real class; its instances are tuples whose fields are also attributes."""
    import collections
    cls = collections.namedtuple(str(a[0]), a[1] if not isinstance(a[1], str) else a[1].replace(',', ' ').split(), **k)
    return Native('namedtuple class %s' % a[0], lambda it2, a2, k2: cls(*a2, **k2))


def _nat_wraps(it, a, k):
    return Native('wraps decorator', lambda it2, a2, k2: a2[0])


def _nat_cached_property(it, a, k):
    raise Uninterpretable('functools.cached_property applied by a call (as a decorator of a method it is handled by name)')


class LazyGen(object):
    """An interpreted generator that runs in a helper thread, one item per request (exactly one of the two threads runs at a time)."""
    def __init__(self, it, fv, frame):
        import threading
        self.it, self.fv, self.frame = it, fv, frame
        self.to_gen = threading.Semaphore(0)
        self.to_main = threading.Semaphore(0)
        self.msg = None
        self.inject = None
        self.started = False
        self.done = False
        frame.gen_thread = self
        self.thread = None

    def run(self):
        self.to_gen.acquire()
        try:
            self.it.exec_block(list(self.fv.node.body), self.frame)
            self.msg = ('return', None)
        except _Return as r:
            self.msg = ('return', r.value)
        except BaseException as e:
            self.msg = ('raise', e)
        self.to_main.release()

    def yielded(self, value):            # called in the generator thread by e_Yield
        self.msg = ('yield', value)
        self.to_main.release()
        self.to_gen.acquire()
        if self.inject is not None:
            e, self.inject = self.inject, None
            raise e

    def _resume(self):
        import threading
        if not self.started:
            self.started = True
            old = threading.stack_size()
            try:
                threading.stack_size(512 * 1024 * 1024)
            except (ValueError, RuntimeError):
                pass
            try:
                self.thread = threading.Thread(target=self.run, daemon=True)
                self.thread.start()
            finally:
                try:
                    threading.stack_size(old)
                except (ValueError, RuntimeError):
                    pass
        self.to_gen.release()
        self.to_main.acquire()
        return self.msg

    def stream(self):
        while not self.done:
            kind, v = self._resume()
            if kind == 'yield':
                yield v
                continue
            self.done = True
            if kind == 'raise':
                raise v

    def __repr__(self):
        return '<generator %s>' % self.fv.name


class NativeModule(object):
    def __init__(self, name, mod):
        self.name = name
        self.mod = mod


class NullLogger(object):
    """logging.getLogger(...): every method is a no-op (log output is not part of any property)."""
    def __repr__(self):
        return '<logger>'


class SuppModule(object):
    def __init__(self, rel):
        self.rel = rel


# ---------------------------------------------------------------------------

def _canon_key(x):
    if isinstance(x, Obj):
        return (0, x.oid, '')
    if isinstance(x, str):
        return (1, 0, x)
    return (2, 0, repr(x))


class Interp(object):
    MAX_STEPS = 200000
    MAX_CALL_DEPTH = 40
    set_order = 'fwd'

    def __init__(self, repo, facts):
        self.repo = repo
        self.facts = facts
        self.globals = {}          # rel -> dict
        self.effects = []
        self.objs = []             # every Obj allocated on this path
        self.decisions = []        # decisions taken on this path
        self.prefix = []
        self.steps = 0
        self.natives = {}          # (rel, funcname) -> python callable(interp, args, kwargs)
        self.method_natives = {}   # (classname, method) -> callable(interp, self, args, kwargs)
        self.attr_hooks = {}       # classname -> callable(interp, obj, attr) for missing attrs
        self.on_setattr = None     # callable(target, attr, value)
        self.call_depth = 0
        self.current_line = None
        self.sys_path = ['<sys.path[0]>']
        self.sys_modules = None       # a concrete dict replaces the symbolic sys.modules when set
        self._class_attr_values = {}
        self.mtimes = None            # path -> modification time, for os.path.getmtime
        self.import_overrides = {}    # (module, name) -> value bound by a function-level import
        self.files = None             # path -> text, for open(path).read()
        self.position_order = None    # (path a, delta), (path b, delta) -> -1/0/1/None: textual order of two symbolic nodes
        self.fs_dirs = None           # directory -> listing, for os.listdir
        self.memoise_cached = False
        self.nodevisitor_model = False
        self.guarded_getattr = 0
        self.current_exc = None
        self.fs = None             # concrete fake file system (set of paths) or None = symbolic

    # ---- path exploration ------------------------------------------------
    def reset_path(self, prefix):
        self.__dict__.pop('_lru_tables', None)      # a scenario starts in a new process
        self.effects = []
        self.objs = []
        self.decisions = []
        self.prefix = list(prefix)
        self.steps = 0

    def decide(self, tag):
        if getattr(self, 'membership_policy', None) == 'single' and isinstance(tag, tuple) and tag and tag[0] == 'in':
            # the same question asked twice on one path has one answer; and (policy of the extractor summaries) at most one
            # identifier is taken to be declared global / nonlocal on a path - the per-identifier code is the same for each
            for t, v in self.decisions:
                if t == tag:
                    return v
        i = len(self.decisions)
        v = self.prefix[i][1] if i < len(self.prefix) else False
        self.decisions.append((tag, v))
        return v

    def effect(self, *e):
        self.effects.append(e + (self.current_line,))

    # ---- module environments ----------------------------------------------
    def module_env(self, rel):
        if rel in self.globals:
            return self.globals[rel]
        env = self.globals[rel] = {}
        tree = self.repo.tree(rel)
        self._exec_module_block(rel, tree.body, env)
        return env

    def _exec_module_block(self, rel, stmts, env):
        for st in stmts:
            try:
                self._exec_module_stmt(rel, st, env)
            except (Uninterpretable, InterpRaise):
                # irrelevant module-level statement; names it binds stay unknown
                for n in ast.walk(st):
                    if isinstance(n, ast.Name) and isinstance(n.ctx, ast.Store):
                        env.setdefault(n.id, Unknown('module-level %s' % n.id))

    def _exec_module_stmt(self, rel, st, env):
        if isinstance(st, ast.ImportFrom):
            mod = st.module or ''
            base = mod.split('.')[-1]
            for a in st.names:
                local = a.asname or a.name
                if mod == 'ast' and a.name in ('walk', 'iter_child_nodes'):
                    env[local] = Native('ast.' + a.name, _sym_walk if a.name == 'walk' else _sym_children)
                elif mod == 'ast':
                    env[local] = AstClass(a.name) if (a.name[0].isupper() or isinstance(getattr(ast, a.name, None), type)) \
                        else Unknown('ast.' + a.name)
                elif st.level >= 1 and base in SUPP_MODULES:
                    env[local] = ('lazy', SUPP_MODULES[base], a.name)
                elif st.level >= 1 and not mod and a.name in SUPP_MODULES:
                    env[local] = SuppModule(SUPP_MODULES[a.name])
                elif mod == '__future__':
                    pass
                elif mod == 'collections' and a.name == 'namedtuple':
                    env[local] = Native('namedtuple', _nat_namedtuple)
                elif mod == 'functools' and a.name in ('lru_cache', 'cache', 'wraps', 'cached_property'):
                    env[local] = Native('functools.' + a.name, {'lru_cache': _nat_lru_cache, 'cache': _nat_lru_cache,
                                                                'wraps': _nat_wraps, 'cached_property': _nat_cached_property}[a.name])
                elif mod == 'operator' and a.name in ('attrgetter', 'itemgetter'):
                    if a.name == 'attrgetter':
                        env[local] = Native('operator.attrgetter', lambda it, a_, k_: (
                            lambda names: Native('attrgetter(%s)' % ', '.join(names), lambda it2, b_, k2: (
                                it2.getattr(b_[0], names[0]) if len(names) == 1 else tuple(it2.getattr(b_[0], n_) for n_ in names))))(
                                    [str(x) for x in a_]))
                    else:
                        env[local] = Native('operator.itemgetter', lambda it, a_, k_: (
                            lambda keys: Native('itemgetter', lambda it2, b_, k2: (
                                b_[0][keys[0]] if len(keys) == 1 else tuple(b_[0][k3] for k3 in keys))))(list(a_)))
                elif mod == 'weakref' and a.name in ('WeakKeyDictionary', 'WeakValueDictionary'):
                    # objects of the interpreted program are never collected during a model run: a weak mapping is a mapping
                    env[local] = Native(a.name, lambda it, a_, k_: dict(*a_, **k_))
                elif mod == 'collections' and a.name in ('OrderedDict', 'defaultdict') and a.name == 'OrderedDict':
                    env[local] = Native(a.name, lambda it, a_, k_: dict(*a_, **k_))
                else:
                    try:
                        m = __import__(mod, fromlist=[a.name]) if mod in ('bisect', 'string', 'sys', 'builtins', 'os.path', 'os', 'contextlib') else None
                    except ImportError:
                        m = None
                    env[local] = self.wrap_native(getattr(m, a.name)) if m is not None and hasattr(m, a.name) \
                        else Unknown('%s.%s' % (mod, a.name))
        elif isinstance(st, ast.Import):
            for a in st.names:
                local = a.asname or a.name.split('.')[0]
                if a.name == 'logging':
                    env[local] = NullLogger()
                elif a.name in ('sys', 'string', 'builtins', 'os', 'os.path', 're', 'struct', 'io', 'errno', 'datetime'):
                    env[local] = NativeModule(a.name.split('.')[0], __import__(a.name.split('.')[0]))
                else:
                    env[local] = Unknown('module ' + a.name)
        elif isinstance(st, (ast.FunctionDef, ast.AsyncFunctionDef)):
            fv = FuncVal(rel, st)
            if getattr(self, 'apply_module_decorators', False):
                # a module-level function wrapped by a decorator defined in the same module is what callers get
                for d in reversed(st.decorator_list):
                    dec = env.get(d.id) if isinstance(d, ast.Name) else None
                    if isinstance(dec, FuncVal):
                        fv = self.call(dec, [fv], {})
            env[st.name] = fv
        elif isinstance(st, ast.ClassDef):
            ci = self.facts.classes.get(st.name)
            if ci is not None and ci.node is st:
                env[st.name] = ClassRef(ci)
            else:
                env[st.name] = Unknown('class ' + st.name)
        elif isinstance(st, ast.Assign):
            frame = Frame(rel, env, env)
            v = self.eval(st.value, frame)
            for t in st.targets:
                self.assign(t, v, frame)
        elif isinstance(st, ast.If):
            frame = Frame(rel, env, env)
            try:
                c = self.truth(self.eval(st.test, frame), st.test)
            except Uninterpretable:
                return
            self._exec_module_block(rel, st.body if c else st.orelse, env)
        elif isinstance(st, ast.Try):
            self._exec_module_block(rel, st.body, env)
        # everything else at module level is irrelevant here

    def lookup_global(self, rel, name):
        env = self.module_env(rel)
        if name in env:
            v = env[name]
            if isinstance(v, tuple) and len(v) == 3 and v[0] == 'lazy':
                v = self.lookup_global(v[1], v[2])
                env[name] = v
            return v
        if name in ('True', 'False', 'None'):
            return {'True': True, 'False': False, 'None': None}[name]
        if hasattr(_builtins, name):
            return self.wrap_native(getattr(_builtins, name), name)
        raise Uninterpretable('%s: unknown global %r' % (rel, name))

    def wrap_native(self, v, name=None):
        if callable(v) and not isinstance(v, type):
            return Native(name or getattr(v, '__name__', '?'), (lambda it, a, k, _v=v: _v(*a, **k)), False)
        if isinstance(v, type):
            return Native(name or v.__name__, lambda it, a, k, _v=v: _v(*a, **k), False)
        return v

    # ---- calls ----------------------------------------------------------------
    def call(self, fn, args, kwargs, node=None):
        self.steps += 1
        if self.steps > self.MAX_STEPS:
            raise Uninterpretable('step budget exceeded (non-terminating abstract execution?)')
        if isinstance(fn, FuncVal):
            nat = self.natives.get((fn.rel, fn.name))
            if nat is not None and fn.bound is None:
                return nat(self, args, kwargs)
            decs = getattr(fn.node, 'decorator_list', None)
            if decs and any(unparse(d).split('(')[0] in ('lru_cache', 'functools.lru_cache', 'cache', 'functools.cache') for d in decs):
                # functools.lru_cache: one table per decorated function for the whole process, keyed by the arguments (the object a
                # method is called on among them); results of every kind are remembered; the size bound is not modelled
                table = self.__dict__.setdefault('_lru_tables', {})
                key = (id(fn.node), getattr(fn.bound, 'oid', id(fn.bound)) if fn.bound is not None else None,
                       repr(args), repr(sorted(kwargs.items())))
                if key in table:
                    return table[key]
                r = self.call_func(fn, args, kwargs)
                table[key] = r
                return r
            if fn.bound is not None and fn.cls is not None:
                mn = self.method_natives.get((fn.cls.name, fn.name))
                if mn is not None:
                    return mn(self, fn.bound, args, kwargs)
            return self.call_func(fn, args, kwargs)
        if isinstance(fn, Native):
            if fn.fn is None:
                raise Uninterpretable('native %s has no model' % fn.name)
            return self.call_native(fn, args, kwargs)
        if isinstance(fn, ClassRef):
            return self.instantiate(fn.info, args, kwargs)
        if isinstance(fn, AstClass):
            raise Uninterpretable('construction of ast.%s' % fn.name)
        raise Uninterpretable('call of %r at line %s' % (fn, getattr(node, 'lineno', '?')))

    def call_native(self, fn, args, kwargs):
        name = fn.name
        h = getattr(self, 'nat_' + name, None) if name.isidentifier() else None
        if h is not None:
            return h(args, kwargs)
        if fn.model:
            return fn.fn(self, args, kwargs)
        for a in list(args) + list(kwargs.values()):
            if isinstance(a, (SymNode, Obj, Unknown, SymSet, SymPos, LocExpr, SymDict)):
                raise Uninterpretable('native %s applied to abstract value %r' % (name, a))
        try:
            return fn.fn(self, args, kwargs)
        except (UnicodeError, LookupError, OverflowError, ZeroDivisionError, ValueError) as e:
            # a builtin applied to concrete values raised: that is the interpreted program's exception
            raise InterpRaise(type(e).__name__, str(e))

    def instantiate(self, ci, args, kwargs):
        o = Obj(ci)
        self.objs.append(o)
        init = ci.lookup('__init__')
        if init is not None:
            fv = FuncVal(init.rel, init.node, None, o, init.cls)
            mn = self.method_natives.get((init.cls.name, '__init__'))
            if mn is not None:
                mn(self, o, args, kwargs)
            else:
                self.call_func(fv, args, kwargs)
        elif args or kwargs:
            if 'str' in ci.base_names and len(args) == 1 and isinstance(args[0], str):
                o.attrs['__strval__'] = args[0]
            elif any(b in ('Exception', 'BaseException') for b in ci.base_names):
                o.attrs['args'] = tuple(args)
            else:
                raise InterpRaise('TypeError', '%s() takes no arguments' % ci.name)
        return o

    def call_func(self, fv, args, kwargs):
        node = fv.node
        if not isinstance(node, ast.Lambda) and any(unparse(d).split('.')[-1] == 'contextmanager' for d in node.decorator_list) \
                and not getattr(self, '_raw_generator', False):
            return self.context_manager(fv, args, kwargs)
        if self.call_depth > self.MAX_CALL_DEPTH:
            raise Uninterpretable('call depth exceeded in %s' % fv.name)
        a = node.args
        params = [x.arg for x in a.posonlyargs + a.args]
        local = {}
        args = list(args)
        if fv.bound is not None:
            args = [fv.bound] + args
        if len(args) > len(params) and a.vararg is None:
            raise InterpRaise('TypeError', '%s() takes %d positional arguments but %d were given'
                              % (fv.name, len(params), len(args)))
        for p, v in zip(params, args):
            local[p] = v
        if a.vararg is not None:
            local[a.vararg.arg] = tuple(args[len(params):])
        kwargs = dict(kwargs)
        defaults = dict(zip(params[len(params) - len(a.defaults):], a.defaults))
        genv = self.module_env(fv.rel)
        for p in params[len(args):]:
            if p in kwargs:
                local[p] = kwargs.pop(p)
            elif p in defaults:
                local[p] = self.eval(defaults[p], Frame(fv.rel, genv, {}))
            else:
                raise InterpRaise('TypeError', '%s() missing argument %r' % (fv.name, p))
        for x, d in zip(a.kwonlyargs, a.kw_defaults):
            if x.arg in kwargs:
                local[x.arg] = kwargs.pop(x.arg)
            elif d is not None:
                local[x.arg] = self.eval(d, Frame(fv.rel, genv, {}))
            else:
                raise InterpRaise('TypeError', 'missing keyword-only %r' % x.arg)
        if a.kwarg is not None:
            local[a.kwarg.arg] = kwargs
        elif kwargs:
            raise InterpRaise('TypeError', '%s() got unexpected keyword %r' % (fv.name, sorted(kwargs)[0]))
        frame = Frame(fv.rel, genv, local, fv.closure, fv)
        gen = not isinstance(node, ast.Lambda) and _is_generator(node)
        if gen and any(isinstance(x, ast.While) for x in ast.walk(node)):
            # a producer loop (`while True: ... yield request`): what it does between two items interleaves with its consumer, so it
            # runs lazily, in a helper thread that is handed control for one item at a time
            return LazyGen(self, fv, frame)
        if gen:
            frame.yielded = []      # the other generators are run eagerly: sound for the side-effect-free ones of supp
        self.call_depth += 1
        try:
            if isinstance(node, ast.Lambda):
                return self.eval(node.body, frame)
            self.exec_block(node.body, frame)
        except _Return as r:
            return frame.yielded if gen else r.value
        finally:
            self.call_depth -= 1
        return frame.yielded if gen else None

    def context_manager(self, fv, args, kwargs):
        """@contextmanager generator function: the generator body runs in a helper thread that is handed control at __enter__ (up to
        its first yield) and at __exit__ (from that yield on, with the exception of the with-body thrown in at the yield, as
        contextlib does); exactly one of the two threads runs at any time, so the interpreter state needs no locking."""
        import threading
        it = self
        state = {}

        class Gen(object):
            def __init__(g):
                g.to_gen = threading.Semaphore(0)
                g.to_main = threading.Semaphore(0)
                g.msg = None
                g.inject = None
                g.frame = it._bind_frame(fv, args, kwargs)
                g.frame.gen_thread = g
                g.thread = threading.Thread(target=g.run, daemon=True)

            def run(g):
                g.to_gen.acquire()
                try:
                    it.exec_block(list(fv.node.body), g.frame)
                    g.msg = ('return', None)
                except _Return as r:
                    g.msg = ('return', r.value)
                except BaseException as e:     # InterpRaise / Uninterpretable / anything: re-raised in the caller's thread
                    g.msg = ('raise', e)
                g.to_main.release()

            def resume(g, inject=None):
                g.inject = inject
                g.to_gen.release()
                g.to_main.acquire()
                return g.msg

            def yielded(g, value):            # called in the generator thread by e_Yield
                g.msg = ('yield', value)
                g.to_main.release()
                g.to_gen.acquire()
                if g.inject is not None:
                    e, g.inject = g.inject, None
                    raise e

        def enter(it_, a, k):
            old = threading.stack_size()
            try:
                threading.stack_size(512 * 1024 * 1024)
            except (ValueError, RuntimeError):
                pass
            try:
                g = state['gen'] = Gen()
                g.thread.start()
            finally:
                try:
                    threading.stack_size(old)
                except (ValueError, RuntimeError):
                    pass
            kind, v = g.resume()
            if kind == 'yield':
                return v
            if kind == 'raise':
                raise v
            raise InterpRaise('RuntimeError', "generator didn't yield")

        def exit_(it_, a, k):
            g = state['gen']
            failed = bool(a) and a[0] is not None
            if failed:
                exc = a[1] if len(a) > 1 and isinstance(a[1], InterpRaise) else InterpRaise(str(a[0]), 'raised in the body of the with')
                kind, v = g.resume(exc)
                if kind == 'yield':
                    raise InterpRaise('RuntimeError', "generator didn't stop after throw()")
                if kind == 'raise':
                    if v is exc:
                        return False          # the generator let it through: the with statement re-raises it
                    raise v
                return True                   # the generator swallowed the exception
            kind, v = g.resume()
            if kind == 'yield':
                raise InterpRaise('RuntimeError', "generator didn't stop")
            if kind == 'raise':
                raise v
            return False
        ci = self.facts.classes.get('Unresolved') or next(iter(self.facts.classes.values()))
        return Obj(ci, {'__enter__': Native('__enter__', enter), '__exit__': Native('__exit__', exit_)}, 'context manager ' + fv.name)

    def _bind_frame(self, fv, args, kwargs):
        a = fv.node.args
        params = [x.arg for x in a.posonlyargs + a.args]
        local = {}
        args = list(args)
        if fv.bound is not None:
            args = [fv.bound] + args
        for p_, v in zip(params, args):
            local[p_] = v
        for k_, v in kwargs.items():
            local[k_] = v
        return Frame(fv.rel, self.module_env(fv.rel), local, fv.closure, fv)

    def e_Yield(self, e, f):
        g = getattr(f, 'gen_thread', None)
        if g is not None:
            g.yielded(self.eval(e.value, f) if e.value is not None else None)
            return None
        if getattr(f, 'yielded', None) is None:
            raise Uninterpretable('yield outside an interpreted generator')
        f.yielded.append(self.eval(e.value, f) if e.value is not None else None)
        return None

    def e_YieldFrom(self, e, f):
        if getattr(f, 'yielded', None) is None:
            raise Uninterpretable('yield from outside an interpreted generator')
        f.yielded.extend(self.iterate(self.eval(e.value, f)))
        return None

    # ---- attribute access ----------------------------------------------------
    def getattr(self, v, attr, node=None):
        if isinstance(v, Record):
            if attr in v.attrs:
                return v.attrs[attr]
            raise InterpRaise('AttributeError', '%r has no attribute %r' % (v, attr), node)
        if isinstance(v, ast.AST):
            try:
                return getattr(v, attr)
            except AttributeError:
                raise InterpRaise('AttributeError', '%s has no attribute %r' % (type(v).__name__, attr), node)
        if isinstance(v, Obj):
            if attr in v.attrs:
                return v.attrs[attr]
            if attr == '__class__':
                return ClassRef(v.cls)
            if attr == '__dict__':
                return v.attrs
            m = v.cls.lookup(attr)
            if m is not None and m.decorators:
                pv = self.user_property(m)
                if pv is not None:
                    return self.call(pv.getter, [v], {})
            if m is not None:
                if 'staticmethod' in m.decorators:
                    return FuncVal(m.rel, m.node, None, None, m.cls)
                if 'classmethod' in m.decorators:
                    return FuncVal(m.rel, m.node, None, ClassRef(v.cls), m.cls)
                fv = FuncVal(m.rel, m.node, None, v, m.cls)
                if m.is_property:
                    val = self.call(fv, [], {})
                    if 'cached_property' in m.decorators and self.memoise_cached:
                        v.attrs[attr] = val
                    return val
                return fv
            for c in v.cls.mro():
                if attr in c.class_attrs:
                    return self.class_attr(c, attr)
            hook = self.attr_hooks.get(v.cls.name)
            if hook is not None:
                r = hook(self, v, attr)
                if r is not NotImplemented:
                    return r
            if self.nodevisitor_model and any('NodeVisitor' in b for c in v.cls.mro() for b in c.base_names):
                if attr == 'visit':
                    return Native('NodeVisitor.visit', lambda it, a, k, o=v: it.nv_visit(o, a[0]))
                if attr == 'generic_visit':
                    return Native('NodeVisitor.generic_visit', lambda it, a, k, o=v: it.nv_generic_visit(o, a[0]))
            ga = v.cls.lookup('__getattr__')
            if ga is not None and not attr.startswith('__'):
                return self.call(FuncVal(ga.rel, ga.node, None, v, ga.cls), [attr], {})
            raise InterpRaise('AttributeError', '%s object has no attribute %r' % (v.cls.name, attr), node)
        if isinstance(v, SymNode):
            if attr in v.extra:
                return v.extra[attr]
            if attr == 'lineno':
                return SymPos(v.path, 'line')
            if attr == 'col_offset':
                return SymPos(v.path, 'col')
            if attr == 'end_lineno':
                return SymPos(v.path, 'end_line')
            if attr == 'end_col_offset':
                return SymPos(v.path, 'end_col')
            if v.cls is None:
                raise InterpRaise('AttributeError',
                                  'attribute %r read on an arbitrary %s (%s)' % (attr, v.sort, v.path), node)
            if attr in v.fields:
                return v.fields[attr]
            if attr == '_fields':
                return tuple(f.name for f in G.fields(v.cls))
            raise InterpRaise('AttributeError', 'ast.%s has no attribute %r (%s)' % (v.cls, attr, v.path), node)
        if isinstance(v, FuncVal):
            if attr in v.attrs:
                return v.attrs[attr]
            if attr == '__name__':
                return v.name
            raise InterpRaise('AttributeError', 'function has no attribute %r' % attr, node)
        if isinstance(v, ClassRef):
            m = v.info.lookup(attr)
            if m is not None:
                if 'classmethod' in m.decorators:
                    return FuncVal(m.rel, m.node, None, v, m.cls)
                return FuncVal(m.rel, m.node, None, None, m.cls)
            for c in v.info.mro():
                if attr in c.class_attrs:
                    return self.class_attr(c, attr)
            if attr == '__name__':
                return v.info.name
            raise InterpRaise('AttributeError', 'class %s has no attribute %r' % (v.info.name, attr), node)
        if isinstance(v, SuppModule):
            return self.lookup_global(v.rel, attr)
        if isinstance(v, NativeModule):
            if v.mod is __import__('sys') and attr == 'modules':
                return self.sys_modules if self.sys_modules is not None else SymDict('sys.modules')
            if v.mod is __import__('sys') and attr == 'path':
                return self.sys_path
            x = getattr(v.mod, attr)
            if type(x).__name__ == 'module':
                return NativeModule(attr, x)
            return self.wrap_native(x, attr)
        if isinstance(v, SymDict) and attr == 'get':
            def sd_get(it, a, k, _d=v):
                if it.decide(('in', str(a[0]), _d.label)):
                    return ModStub(str(a[0])) if _d.label == 'sys.modules' else Unknown('%s[%s]' % (_d.label, a[0]))
                return a[1] if len(a) > 1 else None
            return Native('SymDict.get', sd_get)
        if isinstance(v, SymSet):
            return Native('symset_' + attr, lambda it, a, k, s=v, at=attr: it.symset_method(s, at, a))
        if isinstance(v, tuple) and attr in getattr(type(v), '_fields', ()):
            return getattr(v, attr)          # a field of a namedtuple
        if isinstance(v, (list, dict, set, str, tuple, bytes)):
            return Native('%s.%s' % (type(v).__name__, attr),
                          lambda it, a, k, _v=v, _a=attr: it.native_method(_v, _a, a, k))
        if isinstance(v, Native) and isinstance(getattr(_builtins, v.name, None), type) \
                and callable(getattr(getattr(_builtins, v.name), attr, None)):
            um = getattr(getattr(_builtins, v.name), attr)       # unbound method of a builtin type: str.lower, dict.get ...
            def unbound(it, a, k, _m=um):
                try:
                    return _m(*a, **k)
                except Exception as e:       # the builtin's own exception, raised inside the interpreted program
                    raise InterpRaise(type(e).__name__, str(e))
            return Native('%s.%s' % (v.name, attr), unbound, False)
        if isinstance(v, Native) and attr in ('__name__', '__doc__'):
            return v.name if attr == '__name__' else None
        if isinstance(v, FuncVal) and attr in ('__name__', '__doc__') and attr not in v.attrs:
            return v.name if attr == '__name__' else None
        if isinstance(v, NullLogger):
            if attr == 'getLogger':
                return Native('getLogger', lambda it, a, k: NullLogger())
            return Native('log.' + attr, lambda it, a, k: None)
        if isinstance(v, (_re.Match, _re.Pattern)):
            if attr in ('group', 'groups', 'start', 'end', 'span', 'search', 'match', 'fullmatch', 'findall', 'sub', 'split'):
                return Native('re.%s' % attr, lambda it, a, k, _m=getattr(v, attr): _m(*a, **k), model=True)
            if attr in ('pattern', 'string', 'pos', 'endpos', 'lastindex'):
                return getattr(v, attr)
        if isinstance(v, tuple) and attr in getattr(type(v), '_fields', ()):
            return getattr(v, attr)
        if isinstance(v, ExcVal):
            if attr in v.attrs:
                return v.attrs[attr]
            if attr == '__class__':
                return ExcClassVal(v.exc_name)
            if attr == 'args':
                return (v.msg,)
            raise InterpRaise('AttributeError', '%s has no attribute %r' % (v.exc_name, attr), node)
        if isinstance(v, ExcClassVal):
            if attr == '__name__':
                return v.name
            if attr in ('__mro__', '__bases__'):
                real = getattr(_builtins, v.name, None)
                if isinstance(real, type):
                    seq = real.__mro__ if attr == '__mro__' else real.__bases__
                    return tuple(ExcClassVal(c.__name__) for c in seq)
                # a class of the analysed / evaluated code: an Exception subclass
                return tuple(ExcClassVal(n) for n in ((v.name, 'Exception', 'BaseException', 'object') if attr == '__mro__' else ('Exception',)))
        if isinstance(v, AstClass):
            if attr == '__name__':
                return v.name
        if isinstance(v, OpaqueType) and attr == '__name__':
            # the class name of an arbitrary node: none of the names the code compares it with (each comparison is recorded and the
            # shapes are generated again with a node of that class there); every pattern class is called Match...
            return OpaqueTypeName('Match<arbitrary pattern>' if v.sort == 'pattern' else '<arbitrary %s>' % v.sort, v)
        if isinstance(v, Unknown):
            raise Uninterpretable('attribute %r of %r' % (attr, v))
        if v is None:
            raise InterpRaise('AttributeError', "'NoneType' object has no attribute %r" % attr, node)
        raise Uninterpretable('attribute %r of %r' % (attr, v))

    def user_property(self, m):
        """A method under a decorator defined in supp itself (a module-level function) whose application gives a property:
        the decorator is applied (once per method) and the property's getter is what attribute access runs."""
        cache = self.__dict__.setdefault('_user_props', {})
        key = id(m.node)
        if key in cache:
            return cache[key]
        cache[key] = None
        if len(m.decorators) == 1 and m.decorators[0] not in ('property', 'cached_property', 'context_property', 'staticmethod',
                                                               'classmethod', 'contextmanager'):
            try:
                dec = self.lookup_global(m.rel, m.decorators[0])
            except Uninterpretable:
                dec = None
            if isinstance(dec, FuncVal) and dec.cls is None:
                r = self.call(dec, [FuncVal(m.rel, m.node, None, None, m.cls)], {})
                if isinstance(r, PropertyVal):
                    cache[key] = r
        return cache[key]

    def setattr(self, v, attr, value):
        if isinstance(v, Obj):
            v.attrs[attr] = value
        elif isinstance(v, SymNode):
            v.extra[attr] = value
            self.effect('setattr', v.path, attr, value)
        elif isinstance(v, FuncVal):
            v.attrs[attr] = value
        elif isinstance(v, ast.AST):        # a concrete parse tree handed to interpreted code (column-unit model)
            setattr(v, attr, value)
        else:
            raise Uninterpretable('attribute store on %r' % (v,))
        if self.on_setattr is not None:
            self.on_setattr(v, attr, value)

    def native_method(self, v, attr, args, kwargs):
        try:
            return self._native_method(v, attr, args, kwargs)
        except AttributeError as e:
            raise InterpRaise('AttributeError', str(e))
        except (IndexError, KeyError, ValueError) as e:
            # the concrete container/str method raises: that is the interpreted program's exception, not ours
            raise InterpRaise(type(e).__name__, str(e))

    def _native_method(self, v, attr, args, kwargs):
        if isinstance(v, list) and attr == 'sort':
            v[:] = self.nat_sorted([list(v)], kwargs)
            return None
        args = [self.iterate(a) if isinstance(a, Obj) and a.cls.lookup('__iter__') is not None
                and attr in ('update', 'extend', 'difference', 'union') else a for a in args]
        if isinstance(v, (list, set, dict)) and attr in ('append', 'add', 'extend', 'update', 'insert',
                                                          'setdefault', 'remove', 'clear', 'pop', 'copy', 'discard',
                                                          'intersection', 'issubset', 'issuperset', 'count', 'popitem', 'isdisjoint',
                                                          'symmetric_difference', 'difference_update', 'intersection_update',
                                                          'get', 'items', 'keys', 'values', 'index',
                                                          'difference', 'union', 'sort', 'reverse'):
            r = getattr(v, attr)(*args, **kwargs)
            if attr in ('items', 'keys', 'values'):
                return list(r)
            return r
        if isinstance(v, str):
            r = getattr(str, attr)(v, *args, **kwargs)
            if isinstance(v, SymIdent):
                if attr == 'partition' and isinstance(r, tuple):
                    return (SymIdent(r[0], v.path, 'head') if r[0] else r[0], r[1],
                            SymIdent(r[2], v.path, 'tail') if r[2] else r[2])
                if isinstance(r, str) and r and attr in ('strip', 'lstrip', 'rstrip'):
                    return SymIdent(r, v.path, v.derived)
            return r
        if isinstance(v, tuple):
            return getattr(v, attr)(*args, **kwargs)
        if isinstance(v, bytes) and attr in ('decode', 'startswith', 'endswith', 'find', 'count', 'split', 'strip', 'hex'):
            try:
                return getattr(v, attr)(*args, **kwargs)
            except UnicodeError as e:
                raise InterpRaise(type(e).__name__, str(e))
        raise Uninterpretable('method %s.%s' % (type(v).__name__, attr))

    def symset_method(self, s, attr, args):
        if attr in ('add', 'update'):
            items = list(args[0]) if attr == 'update' else [args[0]]
            s.added.extend(items)
            self.effect('symset_' + attr, s.label, tuple(items))
            return None
        if attr == 'remove':
            self.effect('symset_remove', s.label, args[0])
            return None
        raise Uninterpretable('SymSet.%s' % attr)

    # ---- natives on abstract values ------------------------------------------------
    def class_attr(self, c, attr):
        """A class attribute is evaluated once: a mutable value is one object shared by all instances."""
        key = (c.rel, c.name, attr)
        if key not in self._class_attr_values:
            self._class_attr_values[key] = self.eval(c.class_attrs[attr], Frame(c.rel, self.module_env(c.rel), {}))
        return self._class_attr_values[key]

    def nat_isinstance(self, args, kwargs):
        v, c = args
        classes = c if isinstance(c, tuple) else (c,)
        if isinstance(v, SymNode):
            if v.cls is None:
                # arbitrary expression / statement: fork over "is one of these classes" - unless no class asked about belongs to
                # the leaf's sort (an arbitrary expression is never an ast.arg)
                names = tuple(sorted(getattr(k, 'name', repr(k)) for k in classes))
                possible = [k for k in classes if not isinstance(k, AstClass) or k.name == 'AST' or k.name == v.sort
                            or G.SORT_OF.get(k.name) == v.sort or k.name not in G.SORT_OF]
                if not possible:
                    return False
                if getattr(self, 'opaque_policy', 'fork') == 'none':
                    return self.asked_class(v.path, v.sort, possible)
                return self.decide(('isinstance', v.path, names))
            for k in classes:
                if isinstance(k, AstClass):
                    if k.name == v.cls or k.name == G.SORT_OF.get(v.cls) or k.name == 'AST':
                        return True
                    real = getattr(ast, k.name, None)
                    mine = getattr(ast, v.cls, None)
                    if real is not None and mine is not None and issubclass(mine, real):
                        return True
            return False
        if isinstance(v, Obj):
            if v.astcls is not None:
                mine = getattr(ast, v.astcls)
                for k in classes:
                    if isinstance(k, AstClass) and issubclass(mine, getattr(ast, k.name, ()) or ()):
                        return True
                return False
            for k in classes:
                if isinstance(k, ClassRef) and any(m is k.info for m in v.cls.mro()):
                    return True
            return False
        if isinstance(v, (Unknown, SymSet)):
            raise Uninterpretable('isinstance on %r' % (v,))
        for k in classes:
            if isinstance(k, Native):
                t = getattr(_builtins, k.name, None)
                if isinstance(t, type) and isinstance(v, t):
                    return True
        return False

    def nat_type(self, args, kwargs):
        v, = args
        if isinstance(v, SymNode):
            return AstClass(v.cls) if v.cls else OpaqueType(v.sort, v.path)
        if isinstance(v, Obj):
            return AstClass(v.astcls) if v.astcls is not None else ClassRef(v.cls)
        if isinstance(v, Unknown):
            raise Uninterpretable('type() of %r' % v)
        return Native(type(v).__name__, None)

    def nat_hasattr(self, args, kwargs):
        v, a = args
        if isinstance(v, SymNode):
            if v.cls is None:
                raise Uninterpretable('hasattr on an arbitrary node')
            return a in v.fields or a in v.extra or a in ('lineno', 'col_offset', 'end_lineno', 'end_col_offset')
        if isinstance(v, Obj):
            try:
                self.getattr(v, a)
                return True
            except InterpRaise:
                return False
        raise Uninterpretable('hasattr on %r' % (v,))

    def nat_getattr(self, args, kwargs):
        v, a = args[0], args[1]
        if len(args) == 3:
            self.guarded_getattr += 1
        try:
            return self.getattr(v, a)
        except InterpRaise as e:
            if len(args) == 3 and e.exc_name == 'AttributeError':
                return args[2]
            raise
        finally:
            if len(args) == 3:
                self.guarded_getattr -= 1

    def nat_setattr(self, args, kwargs):
        self.setattr(args[0], args[1], args[2])

    def nat_bool(self, args, kwargs):
        return self.truth(args[0], None) if args else False

    def nat_len(self, args, kwargs):
        v, = args
        if isinstance(v, SymIdent) and v.derived is None:
            return IdentLen(len(v), v.path)
        if isinstance(v, (list, tuple, dict, set, str, bytes)):
            return len(v)
        raise Uninterpretable('len of %r' % (v,))

    def nat_id(self, args, kwargs):
        v, = args
        if isinstance(v, Obj):      # an address: unspecified, fixed by the same policy as set iteration
            return v.oid if self.set_order == 'fwd' else 10 ** 9 - v.oid
        raise Uninterpretable('id() of %r' % (v,))

    def nat_hash(self, args, kwargs):
        v, = args
        if isinstance(v, Obj):
            return v.oid if self.set_order == 'fwd' else 10 ** 9 - v.oid
        if isinstance(v, int):
            return hash(v)
        raise Uninterpretable('hash() of %r' % (v,))

    def nat_enumerate(self, args, kwargs):
        start = args[1] if len(args) > 1 else kwargs.get('start', 0)
        return list(enumerate(self.iterate(args[0]), start))

    def nat_reversed(self, args, kwargs):
        return list(reversed(self.iterate(args[0])))

    def nat_list(self, args, kwargs):
        return list(self.iterate(args[0])) if args else []

    def nat_tuple(self, args, kwargs):
        return tuple(self.iterate(args[0])) if args else ()

    def nat_dict(self, args, kwargs):
        return dict(*args, **kwargs)

    def nat_range(self, args, kwargs):
        for a in args:
            if not isinstance(a, int):
                raise Uninterpretable('range over %r' % (a,))
        return list(range(*args))

    def nat_filter(self, args, kwargs):
        f, it = args
        return [x for x in self.iterate(it) if (self.truth(x, None) if f is None else self.truth(self.call(f, [x], {}), None))]

    def nat_map(self, args, kwargs):
        f = args[0]
        return [self.call(f, list(xs), {}) for xs in zip(*[self.iterate(a) for a in args[1:]])]

    def nat_zip(self, args, kwargs):
        return list(zip(*[self.iterate(a) for a in args]))

    def nat_sorted(self, args, kwargs):
        items = self.iterate(args[0])
        key = kwargs.get('key')
        keyed = [(self.call(key, [x], {}) if key is not None else x, x) for x in items]
        out = []
        for k, x in keyed:          # stable insertion sort through the interpreter's own comparison
            i = len(out)
            while i > 0 and self._lt(k, out[i - 1][0]):
                i -= 1
            out.insert(i, (k, x))
        res = [x for _, x in out]
        if kwargs.get('reverse'):
            res.reverse()
        return res

    def nat_any(self, args, kwargs):
        return any(self.truth(x, None) for x in self.iterate(args[0]))

    def nat_all(self, args, kwargs):
        return all(self.truth(x, None) for x in self.iterate(args[0]))

    def _below_a_file(self, path):
        """some proper ancestor of the path is a regular file of the modelled file system (a zip or egg on the search path)"""
        files = getattr(self, 'fs_plain_files', None) or ()
        parts = str(path).split('/')
        return any('/'.join(parts[:i]) in files for i in range(1, len(parts)))

    def nat_exists(self, args, kwargs):
        self.effect('probe', args[0])
        if self.fs is not None:
            return str(args[0]) in self.fs and not self._below_a_file(args[0])
        return self.decide(('exists', str(args[0])))

    def nat_stat(self, args, kwargs):
        path = str(args[0])
        self.effect('probe', path)
        if self.fs is None:
            raise Uninterpretable('os.stat without a modelled file system')
        if self._below_a_file(path):
            raise InterpRaise('NotADirectoryError', path)      # an OSError, but not FileNotFoundError
        if path not in self.fs and path not in (getattr(self, 'fs_plain_files', None) or ()):
            raise InterpRaise('FileNotFoundError', path)
        return Record('stat result of %s' % path, st_mtime=(self.mtimes or {}).get(path, 0.0), st_size=0)

    def nat_isdir(self, args, kwargs):
        path = str(args[0])
        if self.fs is None:
            return self.decide(('isdir', path))
        return not self._below_a_file(path) and any(f.startswith(path + '/') for f in self.fs)

    def nat_isfile(self, args, kwargs):
        path = str(args[0])
        if self.fs is None:
            return self.decide(('isfile', path))
        return (path in self.fs or path in (getattr(self, 'fs_plain_files', None) or ())) and not self._below_a_file(path)

    def nat_open(self, args, kwargs):
        self.effect('open', args[0])
        if self.files is None:
            raise Uninterpretable('open() without a modelled file system')
        path = str(args[0])
        if path not in self.files:
            raise InterpRaise('FileNotFoundError', path)
        text = self.files[path]
        ci = self.facts.classes.get('Unresolved') or next(iter(self.facts.classes.values()))
        fobj = Obj(ci, {'read': Native('read', lambda it, a, k: text), 'close': Native('close', lambda it, a, k: None),
                        '__exit__': Native('__exit__', lambda it, a, k: False)}, 'file ' + path)
        fobj.attrs['__enter__'] = Native('__enter__', lambda it, a, k: fobj)      # `with open(...) as f` binds the file itself
        return fobj

    def nat_listdir(self, args, kwargs):
        self.effect('listdir', args[0])
        if self.fs_dirs is None:
            raise Uninterpretable('os.listdir without a modelled file system')
        d = str(args[0]).rstrip('/')
        if d not in self.fs_dirs:
            if d in (getattr(self, 'fs_plain_files', None) or ()) or (self.fs is not None and self._below_a_file(d)):
                raise InterpRaise('NotADirectoryError', d)      # a path entry that is an archive, a file inside a package
            raise InterpRaise('FileNotFoundError', d)
        return list(self.fs_dirs[d])

    def nat_getmtime(self, args, kwargs):
        self.effect('getmtime', args[0])
        if self.mtimes is not None:
            if str(args[0]) not in self.mtimes:
                raise InterpRaise('FileNotFoundError', str(args[0]))
            return self.mtimes[str(args[0])]
        return 0

    def nat___import__(self, args, kwargs):
        self.effect('import', args[0])
        if isinstance(args[0], str):
            if isinstance(getattr(self, 'sys_modules', None), dict):
                # a concrete table of loaded modules: importing registers the module and its parent packages
                parts = str(args[0]).split('.')
                for i in range(1, len(parts) + 1):
                    self.sys_modules.setdefault('.'.join(parts[:i]), ModStub('.'.join(parts[:i])))
            return ModStub(str(args[0]).partition('.')[0])      # __import__('a.b.c') returns the top-level package a
        return Unknown('module')

    def _is_loc(self, v):
        return isinstance(v, LocExpr) or (isinstance(v, tuple) and len(v) == 2 and any(isinstance(x, (SymPos, SymPosMix, LocPart)) for x in v))

    def nat_max(self, args, kwargs):
        vals = list(args[0]) if len(args) == 1 else list(args)
        if any(isinstance(v, (SymPos, SymPosMix)) for v in vals):
            return SymPosMix('max', vals)
        if any(self._is_loc(v) for v in vals):
            # the later of two symbolic positions: which one it is depends on the layout of the text
            return LocExpr('max', tuple(repr(v) for v in vals))
        return max(vals)

    def nat_min(self, args, kwargs):
        vals = list(args[0]) if len(args) == 1 else list(args)
        if any(isinstance(v, (SymPos, SymPosMix)) for v in vals):
            return SymPosMix('min', vals)
        if any(self._is_loc(v) for v in vals):
            return LocExpr('min', tuple(repr(v) for v in vals))
        return min(vals)

    def asked_class(self, path, sort, classes):
        """Policy 'none' for arbitrary (opaque) nodes: an arbitrary expression / statement is none of the node classes the code
        asks about - each class asked for is recorded, and the shapes are generated again with a real node of that class at that
        position (demand-driven refinement, sa/e1.py).  A question about the whole sort (`isinstance(x, ast.expr)`) is true."""
        names = []
        for k in classes:
            n = getattr(k, 'name', None)
            if n in ('AST', sort):
                return True
            if n is not None and G.SORT_OF.get(n) == sort and n in G.NODE_FIELDS:
                names.append(n)
        if names and path is not None:
            self.effect('asked-class', path, tuple(sorted(names)))
        return False

    def nat_property(self, args, kwargs):
        if not args or not isinstance(args[0], (FuncVal, Native)):
            raise Uninterpretable('property(%r)' % (args,))
        return PropertyVal(args[0])

    def nat_frozenset(self, args, kwargs):
        return frozenset(self.iterate(args[0])) if args else frozenset()

    def nat_next(self, args, kwargs):
        v = args[0]
        if isinstance(v, list):          # generator expressions are materialised: next() takes the first element
            if v:
                return v.pop(0)
            if len(args) > 1:
                return args[1]
            raise InterpRaise('StopIteration', '')
        raise Uninterpretable('next() of %r' % (v,))

    def _lt(self, a, b):
        return self.compare(ast.Lt(), a, b, None)

    def nat_bisect(self, args, kwargs):
        a, x = args[0], args[1]
        lo, hi = 0, len(a)
        while lo < hi:
            mid = (lo + hi) // 2
            if self._lt(x, a[mid]):
                hi = mid
            else:
                lo = mid + 1
        return lo

    nat_bisect_right = nat_bisect

    def nat_insort(self, args, kwargs):
        a, x = args[0], args[1]
        a.insert(self.nat_bisect([a, x], {}), x)

    nat_insort_right = nat_insort

    def nat_set(self, args, kwargs):
        if args and isinstance(args[0], SymSet):
            return SymSet(args[0].label, args[0])
        return set(self.iterate(args[0])) if args else set()

    def nat_str(self, args, kwargs):
        v, = args
        if isinstance(v, str):
            return v
        if isinstance(v, Obj) and '__strval__' in v.attrs:
            return v.attrs['__strval__']
        if isinstance(v, ExcVal):
            if v.attrs.get('__str_raises__'):
                # an exception class of the evaluated code whose __str__ raises
                raise InterpRaise(v.attrs['__str_raises__'], 'raised by __str__ of %s' % v.exc_name)
            return v.msg
        if isinstance(v, (int, float, bool, tuple)) or v is None:
            return str(v)
        raise Uninterpretable('str(%r)' % (v,))

    def nat_repr(self, args, kwargs):
        return repr(args[0])

    def iterate(self, v):
        if isinstance(v, LazyGen):
            return list(v.stream())
        if isinstance(v, (list, tuple)):
            return list(v)
        if isinstance(v, (set, frozenset)):
            # the iteration order of a set is unspecified (hash seed, addresses): it is fixed here by the policy
            # `set_order`, and order-observing analyses run every scenario under both policies
            items = sorted(v, key=_canon_key)
            if self.set_order == 'rev':
                items.reverse()
            return items
        if isinstance(v, dict):
            return list(v)
        if isinstance(v, str):
            return list(v)
        if type(v).__name__ in ('dict_keyiterator', 'list_iterator', 'tuple_iterator', 'dict_valueiterator', 'dict_itemiterator',
                                'list_reverseiterator', 'dict_keys', 'dict_values', 'dict_items', 'range', 'str_iterator'):
            return list(v)       # a native iterator over an ordered container
        if isinstance(v, Obj):
            m = v.cls.lookup('__iter__')
            if m is not None:
                return self.iterate(self.call(FuncVal(m.rel, m.node, None, v, m.cls), [], {}))
        raise Uninterpretable('iteration over %r' % (v,))

    # ---- ast.NodeVisitor semantics (for visitors other than the extractor, which has its own sink model) ----
    def nv_visit(self, vis, node):
        if not isinstance(node, SymNode):
            raise InterpRaise('AttributeError', 'NodeVisitor.visit(%r)' % (node,))
        name = 'visit_' + (node.cls or 'Opaque' + node.sort.capitalize())
        try:
            m = self.getattr(vis, name)
        except InterpRaise:
            return self.nv_generic_visit(vis, node)
        return self.call(m, [node], {})

    def nv_generic_visit(self, vis, node):
        from . import grammar as G
        if not isinstance(node, SymNode) or node.cls is None:
            return None
        for fld in G.NODE_FIELDS.get(node.cls, []):
            v = node.fields.get(fld.name)
            if isinstance(v, list):
                for x in v:
                    if isinstance(x, SymNode):
                        self.nv_visit(vis, x)
            elif isinstance(v, SymNode):
                self.nv_visit(vis, v)
        return None

    # ---- truthiness / comparison ------------------------------------------------
    def truth(self, v, node):
        if v is None or isinstance(v, (bool, int, str, list, tuple, dict, set, float)):
            return bool(v)
        if isinstance(v, (SymNode, Obj, FuncVal, ClassRef, AstClass, LocExpr, Native, _re.Match, _re.Pattern, ModStub)):
            return True
        if isinstance(v, Unknown):
            return self.decide(('truth', v.tag))
        if isinstance(v, SymPos):
            if v.part in ('line', 'end_line') and v.delta >= 0 and not v.lens:
                return True       # line numbers start at 1
            raise Uninterpretable('truth value of a position')
        raise Uninterpretable('truth value of %r' % (v,))

    def compare(self, op, a, b, node):
        if isinstance(op, (ast.Is, ast.IsNot)):
            if isinstance(a, (AstClass, OpaqueType)) or isinstance(b, (AstClass, OpaqueType)):
                if isinstance(a, OpaqueType) or isinstance(b, OpaqueType):
                    other = b if isinstance(a, OpaqueType) else a
                    op_ = a if isinstance(a, OpaqueType) else b
                    if getattr(self, 'opaque_policy', 'fork') == 'none':
                        r = self.asked_class(op_.path, op_.sort, [other])
                    else:
                        r = self.decide(('type-is', getattr(other, 'name', repr(other))))
                else:
                    r = a is b
            elif isinstance(a, ClassRef) and isinstance(b, ClassRef):
                r = a.info is b.info
            elif isinstance(a, Native) and isinstance(b, Native):
                r = a.name == b.name
            elif isinstance(a, (ClassRef, Native)) != isinstance(b, (ClassRef, Native)) and \
                    (isinstance(a, (ClassRef, Native, AstClass)) and isinstance(b, (ClassRef, Native, AstClass))):
                r = False
            else:
                r = a is b
            return r if isinstance(op, ast.Is) else not r
        if getattr(self, 'ident_policy', None) == 'fork' and isinstance(op, (ast.Eq, ast.NotEq, ast.In, ast.NotIn)):
            # an identifier of the analysed program compared with string constants: it may be any of them, or none
            ident, consts = None, None
            if isinstance(a, SymIdent) and a.derived is None and a.path is not None and not isinstance(b, SymIdent):
                if isinstance(op, (ast.Eq, ast.NotEq)) and type(b) is str:
                    ident, consts = a, (b,)
                elif isinstance(op, (ast.In, ast.NotIn)) and isinstance(b, (tuple, list, set, frozenset)) and b and \
                        all(type(x) is str for x in b):
                    ident, consts = a, tuple(sorted(b))
            elif isinstance(b, SymIdent) and b.derived is None and b.path is not None and type(a) is str and isinstance(op, (ast.Eq, ast.NotEq)):
                ident, consts = b, (a,)
            if ident is not None and str(ident) not in consts and all(c.isidentifier() for c in consts):
                r = self.decide(('ident-is', ident.path, consts))
                return r if isinstance(op, (ast.Eq, ast.In)) else not r
        if isinstance(op, (ast.Eq, ast.NotEq)) and (isinstance(a, OpaqueTypeName) or isinstance(b, OpaqueTypeName)):
            tn, other = (a, b) if isinstance(a, OpaqueTypeName) else (b, a)
            r = self.asked_class(tn.opaque.path, tn.opaque.sort, [AstClass(other)]) if type(other) is str and other in G.NODE_FIELDS else False
            return r if isinstance(op, ast.Eq) else not r
        if isinstance(op, (ast.Eq, ast.NotEq)):
            if isinstance(a, (Native, ClassRef, AstClass)) and isinstance(b, (Native, ClassRef, AstClass)):
                r = self.compare(ast.Is(), a, b, node)
            elif isinstance(a, (Unknown, SymSet)) or isinstance(b, (Unknown, SymSet)):
                r = self.decide(('eq', repr(a), repr(b)))
            else:
                r = (a == b)
            return r if isinstance(op, ast.Eq) else not r
        if isinstance(op, (ast.In, ast.NotIn)):
            if isinstance(b, SymDict):
                r = self.decide(('in', str(a), b.label))
            elif isinstance(b, SymSet):
                if any(x == a for x in b.added):
                    r = True
                else:
                    r = self.decide(('in', str(a), b.label))
            elif isinstance(b, (list, tuple, set, frozenset, dict, str)):
                if isinstance(a, (OpaqueType,)):
                    names = tuple(sorted(getattr(k, 'name', repr(k)) for k in b))
                    if getattr(self, 'opaque_policy', 'fork') == 'none':
                        r = self.asked_class(a.path, a.sort, list(b))
                    else:
                        r = self.decide(('type-in', names))
                elif isinstance(a, (AstClass, ClassRef, Native)):
                    r = any(self.compare(ast.Is(), a, x, node) for x in b)
                else:
                    r = a in b
            elif isinstance(b, Obj) and b.cls.lookup('__contains__') is not None:
                m = b.cls.lookup('__contains__')
                r = self.truth(self.call(FuncVal(m.rel, m.node, None, b, m.cls), [a], {}), None)
            else:
                raise Uninterpretable('membership in %r' % (b,))
            return r if isinstance(op, ast.In) else not r
        if isinstance(a, (int, str, tuple, float)) and isinstance(b, (int, str, tuple, float)) \
                and not _has_sym(a) and not _has_sym(b):
            return {ast.Lt: a < b, ast.LtE: a <= b, ast.Gt: a > b, ast.GtE: a >= b}[type(op)]
        if _has_sym(a) or _has_sym(b):
            if isinstance(a, (SymPos, SymPosMix, tuple, int)) and isinstance(b, (SymPos, SymPosMix, tuple, int)):
                wa, wb = _whole_position(a), _whole_position(b)
                if wa is not None and wb is not None and self.position_order is not None:
                    # two complete token positions: their lexicographic order is the textual order of the two nodes
                    self.effect('position-compare-whole', wa[0], wb[0])
                    c = self.position_order(wa, wb)
                    if c is not None:
                        return {ast.Lt: c < 0, ast.LtE: c <= 0, ast.Gt: c > 0, ast.GtE: c >= 0}[type(op)]
                self.effect('position-compare', repr(a), repr(b))
                return self.decide(('pos-cmp', repr(a), repr(b)))
        if isinstance(a, Obj) and isinstance(op, ast.Lt) and a.cls.lookup('__lt__') is not None:
            m = a.cls.lookup('__lt__')
            return self.truth(self.call(FuncVal(m.rel, m.node, None, a, m.cls), [b], {}), None)
        raise Uninterpretable('ordering comparison of %r and %r' % (a, b))

    # ---- expression evaluation -------------------------------------------------
    def eval(self, e, f):
        self.steps += 1
        if self.steps > self.MAX_STEPS:
            raise Uninterpretable('step budget exceeded')
        m = getattr(self, 'e_' + type(e).__name__, None)
        if m is None:
            raise Uninterpretable('%s:%s expression form %s' % (f.rel, getattr(e, 'lineno', '?'), type(e).__name__))
        return m(e, f)

    def e_Constant(self, e, f):
        return e.value

    def e_Name(self, e, f):
        return f.lookup(self, e.id)

    def e_Attribute(self, e, f):
        v = self.eval(e.value, f)
        self.current_line = (f.rel, e.lineno)
        return self.getattr(v, e.attr, e)

    def e_Tuple(self, e, f):
        out = []
        for x in e.elts:
            if isinstance(x, ast.Starred):
                out.extend(self.iterate(self.eval(x.value, f)))
            else:
                out.append(self.eval(x, f))
        return tuple(out)

    def e_List(self, e, f):
        return list(self.e_Tuple(e, f))

    def e_Set(self, e, f):
        return set(self.e_Tuple(e, f))

    def e_Dict(self, e, f):
        d = {}
        for k, v in zip(e.keys, e.values):
            if k is None:
                d.update(self.eval(v, f))
            else:
                d[self.eval(k, f)] = self.eval(v, f)
        return d

    def e_BoolOp(self, e, f):
        v = None
        for x in e.values:
            v = self.eval(x, f)
            t = self.truth(v, x)
            if isinstance(e.op, ast.And) and not t:
                return v
            if isinstance(e.op, ast.Or) and t:
                return v
        return v

    def e_UnaryOp(self, e, f):
        v = self.eval(e.operand, f)
        if isinstance(e.op, ast.Not):
            return not self.truth(v, e.operand)
        if isinstance(e.op, ast.USub) and isinstance(v, (int, float)):
            return -v
        raise Uninterpretable('unary %s on %r' % (type(e.op).__name__, v))

    def e_BinOp(self, e, f):
        a, b = self.eval(e.left, f), self.eval(e.right, f)
        if isinstance(e.op, ast.Add):
            if isinstance(a, SymPos) and isinstance(b, int):
                return a.shifted(1, b)
            if isinstance(a, int) and isinstance(b, SymPos):
                return b.shifted(1, a)
            if isinstance(a, str) and isinstance(b, str):
                r = a + b
                src = a if isinstance(a, SymIdent) else b if isinstance(b, SymIdent) else None
                if src is not None:
                    return SymIdent(r, src.path, 'concat')
                return r
            if type(a) in (list, tuple, int, float) and type(a) is type(b):
                return a + b
        if isinstance(e.op, ast.Sub):
            if isinstance(a, SymPos) and isinstance(b, int):
                return a.shifted(-1, b)
            if isinstance(a, (int, float)) and isinstance(b, (int, float)):
                return a - b
        if isinstance(e.op, ast.Mult) and isinstance(a, (str, int, list)) and isinstance(b, (int, str)):
            return a * b
        if isinstance(e.op, ast.BitOr) and isinstance(a, set) and isinstance(b, set):
            return a | b
        if isinstance(e.op, ast.Mod) and isinstance(a, str):
            return a
        raise Uninterpretable('%s:%s binary %s on %r, %r' % (f.rel, e.lineno, type(e.op).__name__, a, b))

    def e_Compare(self, e, f):
        left = self.eval(e.left, f)
        for op, c in zip(e.ops, e.comparators):
            right = self.eval(c, f)
            if not self.compare(op, left, right, e):
                return False
            left = right
        return True

    def e_IfExp(self, e, f):
        return self.eval(e.body if self.truth(self.eval(e.test, f), e.test) else e.orelse, f)

    def e_Subscript(self, e, f):
        v = self.eval(e.value, f)
        if isinstance(e.slice, ast.Slice):
            lo = self.eval(e.slice.lower, f) if e.slice.lower else None
            hi = self.eval(e.slice.upper, f) if e.slice.upper else None
            step = self.eval(e.slice.step, f) if e.slice.step else None
            if isinstance(v, (list, tuple, str, bytes)) and all(x is None or isinstance(x, int) for x in (lo, hi, step)):
                return v[lo:hi:step]
            raise Uninterpretable('slice of %r' % (v,))
        i = self.index_value(self.eval(e.slice, f))
        if isinstance(v, LocExpr) and i in (0, 1):
            return LocPart(v, i)
        if isinstance(v, (list, tuple, str, bytes)):
            if not isinstance(i, int):
                raise Uninterpretable('index %r' % (i,))
            try:
                return v[i]
            except IndexError:
                raise InterpRaise('IndexError', 'index %d out of range at %s:%s' % (i, f.rel, e.lineno), e)
        if isinstance(v, dict):
            try:
                return v[i]
            except KeyError:
                raise InterpRaise('KeyError', repr(i), e)
        if isinstance(v, SymDict):
            if v.label == 'sys.modules' and isinstance(i, str):
                return ModStub(str(i))
            return Unknown('%s[%s]' % (v.label, i))
        if isinstance(v, Obj):
            m = v.cls.lookup('__getitem__')
            if m is not None:
                return self.call(FuncVal(m.rel, m.node, None, v, m.cls), [i], {})
        raise Uninterpretable('%s:%s subscript of %r' % (f.rel, e.lineno, v))

    def index_value(self, i):
        return i

    def e_Call(self, e, f):
        fn = self.eval(e.func, f)
        args = []
        for a in e.args:
            if isinstance(a, ast.Starred):
                args.extend(self.iterate(self.eval(a.value, f)))
            else:
                args.append(self.eval(a, f))
        kwargs = {}
        for k in e.keywords:
            if k.arg is None:
                kwargs.update(self.eval(k.value, f))
            else:
                kwargs[k.arg] = self.eval(k.value, f)
        self.current_line = (f.rel, e.lineno)
        return self.call(fn, args, kwargs, e)

    def e_Lambda(self, e, f):
        return FuncVal(f.rel, e, f.all_locals(), None, None, '<lambda>')

    def _comp(self, gens, f, body):
        out = []

        def rec(i, frame):
            if i == len(gens):
                out.append(body(frame))
                return
            g = gens[i]
            for item in self.iterate(self.eval(g.iter, frame)):
                fr = frame.child()
                self.assign(g.target, item, fr)
                if all(self.truth(self.eval(c, fr), c) for c in g.ifs):
                    rec(i + 1, fr)
        rec(0, f.child())
        return out

    def e_ListComp(self, e, f):
        return self._comp(e.generators, f, lambda fr: self.eval(e.elt, fr))

    e_GeneratorExp = e_ListComp

    def e_SetComp(self, e, f):
        return set(self.e_ListComp(e, f))

    def e_DictComp(self, e, f):
        return dict(self._comp(e.generators, f, lambda fr: (self.eval(e.key, fr), self.eval(e.value, fr))))

    def e_JoinedStr(self, e, f):
        return '<fstring>'

    # ---- statements ------------------------------------------------------------
    def exec_block(self, stmts, f):
        for st in stmts:
            self.exec(st, f)

    def exec(self, st, f):
        self.steps += 1
        if self.steps > self.MAX_STEPS:
            raise Uninterpretable('step budget exceeded')
        self.current_line = (f.rel, st.lineno)
        m = getattr(self, 's_' + type(st).__name__, None)
        if m is None:
            raise Uninterpretable('%s:%s statement form %s' % (f.rel, st.lineno, type(st).__name__))
        m(st, f)

    def s_Expr(self, st, f):
        if isinstance(st.value, ast.Constant):
            return
        self.eval(st.value, f)

    def s_Pass(self, st, f):
        pass

    def s_Return(self, st, f):
        raise _Return(self.eval(st.value, f) if st.value else None)

    def s_Break(self, st, f):
        raise _Break()

    def s_Continue(self, st, f):
        raise _Continue()

    def s_Global(self, st, f):
        f.globals_decl.update(st.names)

    def s_Assign(self, st, f):
        v = self.eval(st.value, f)
        for t in st.targets:
            self.assign(t, v, f)

    def s_AnnAssign(self, st, f):
        if st.value is not None:
            self.assign(st.target, self.eval(st.value, f), f)

    def s_AugAssign(self, st, f):
        cur = self.eval(_load(st.target), f)
        v = self.eval(st.value, f)
        if isinstance(st.op, ast.Add) and isinstance(cur, list) and isinstance(v, (list, tuple, set, frozenset, dict, str)) \
                and not isinstance(v, SymIdent):
            cur.extend(self.iterate(v))      # list.__iadd__ takes any iterable
            return
        if isinstance(st.op, ast.Add) and isinstance(cur, (int, list, str, tuple)) and type(cur) is type(v):
            if isinstance(cur, list):
                cur.extend(v)
                return
            self.assign(st.target, cur + v, f)
            return
        if isinstance(st.op, ast.Sub) and isinstance(cur, int) and isinstance(v, int):
            self.assign(st.target, cur - v, f)
            return
        raise Uninterpretable('%s:%s augmented assignment on %r' % (f.rel, st.lineno, cur))

    def assign(self, t, v, f):
        if isinstance(t, ast.Name):
            f.store(t.id, v)
        elif isinstance(t, ast.Attribute):
            self.setattr(self.eval(t.value, f), t.attr, v)
        elif isinstance(t, (ast.Tuple, ast.List)):
            items = self.iterate(v)
            if len(items) != len(t.elts):
                raise InterpRaise('ValueError', 'unpack %d values into %d targets' % (len(items), len(t.elts)))
            for x, y in zip(t.elts, items):
                self.assign(x, y, f)
        elif isinstance(t, ast.Subscript):
            c = self.eval(t.value, f)
            if isinstance(t.slice, ast.Slice):
                if isinstance(c, list) and t.slice.step is None:
                    lo = self.eval(t.slice.lower, f) if t.slice.lower is not None else None
                    hi = self.eval(t.slice.upper, f) if t.slice.upper is not None else None
                    if (lo is None or isinstance(lo, int)) and (hi is None or isinstance(hi, int)):
                        c[lo:hi] = self.iterate(v)
                        return
                raise Uninterpretable('slice assignment')
            i = self.eval(t.slice, f)
            if isinstance(c, (list, dict)):
                try:
                    c[i] = v
                except TypeError as e:          # unhashable key: the interpreted program's own exception
                    raise InterpRaise('TypeError', str(e), t)
                except IndexError as e:
                    raise InterpRaise('IndexError', str(e), t)
            else:
                raise Uninterpretable('subscript store on %r' % (c,))
        else:
            raise Uninterpretable('assignment target %s' % type(t).__name__)

    def s_If(self, st, f):
        c = self.truth(self.eval(st.test, f), st.test)
        self.exec_block(st.body if c else st.orelse, f)

    def s_For(self, st, f):
        src = self.eval(st.iter, f)
        items = src.stream() if isinstance(src, LazyGen) else self.iterate(src)
        broke = False
        for it in items:
            self.assign(st.target, it, f)
            try:
                self.exec_block(st.body, f)
            except _Break:
                broke = True
                break
            except _Continue:
                continue
        if not broke:
            self.exec_block(st.orelse, f)

    def s_While(self, st, f):
        n = 0
        while self.truth(self.eval(st.test, f), st.test):
            n += 1
            if n > 64:
                raise Uninterpretable('%s:%s unbounded while loop' % (f.rel, st.lineno))
            try:
                self.exec_block(st.body, f)
            except _Break:
                return
            except _Continue:
                continue
        self.exec_block(st.orelse, f)

    def s_Try(self, st, f):
        try:
            try:
                self.exec_block(st.body, f)
            except InterpRaise as e:
                for h in st.handlers:
                    names = []
                    if h.type is not None:
                        ts = h.type.elts if isinstance(h.type, ast.Tuple) else [h.type]
                        names = [unparse(t).split('.')[-1] for t in ts]
                    if h.type is None or any(self.exc_matches(e.exc_name, n) for n in names):
                        if h.name:
                            f.store(h.name, e.value if e.value is not None else ExcVal(e.exc_name, e.msg, e.attrs))
                        saved = self.current_exc
                        self.current_exc = e
                        try:
                            self.exec_block(h.body, f)
                        finally:
                            self.current_exc = saved
                        break
                else:
                    raise
            else:
                self.exec_block(st.orelse, f)
        finally:
            # finalbody: run on every exit; control-flow exceptions propagate after it
            if st.finalbody:
                self.exec_block(st.finalbody, f)

    def s_Raise(self, st, f):
        name = 'Exception'
        msg = unparse(st.exc) if st.exc else ''
        if st.exc is not None:
            e = st.exc
            name = unparse(e.func if isinstance(e, ast.Call) else e).split('.')[-1]
            if isinstance(e, ast.Call) and e.args:
                try:
                    v = self.eval(e.args[0], f)
                    if isinstance(v, str):
                        msg = v
                except Uninterpretable:
                    pass
            if isinstance(e, ast.Name):
                try:
                    v = f.lookup(self, e.id)
                    if isinstance(v, ExcVal):
                        raise InterpRaise(v.exc_name, v.msg, st, v.attrs)
                except Uninterpretable:
                    pass
        elif self.current_exc is not None:
            raise self.current_exc
        raise InterpRaise(name, msg, st)

    def s_FunctionDef(self, st, f):
        f.store(st.name, FuncVal(f.rel, st, f.all_locals()))

    def s_Import(self, st, f):
        for a in st.names:
            ov = self.import_overrides.get((a.name, None))
            f.store(a.asname or a.name.split('.')[0], ov if ov is not None else Unknown('module ' + a.name))

    def s_ImportFrom(self, st, f):
        for a in st.names:
            ov = self.import_overrides.get((st.module or '', a.name))
            f.store(a.asname or a.name, ov if ov is not None else Unknown('import ' + a.name))

    def exc_matches(self, exc_name, handler):
        if exc_name == handler or handler == 'BaseException':
            return True
        a, b = getattr(_builtins, exc_name, None), getattr(_builtins, handler, None)
        if isinstance(a, type) and isinstance(b, type):
            return issubclass(a, b)
        ci = self.facts.classes.get(exc_name) if self.facts is not None else None
        if ci is not None:
            seen = set()
            todo = [ci]
            while todo:
                c = todo.pop()
                if c.name in seen:
                    continue
                seen.add(c.name)
                for bn in c.base_names:
                    bn = bn.split('.')[-1]
                    if bn == handler or (isinstance(getattr(_builtins, bn, None), type) and isinstance(b, type)
                                         and issubclass(getattr(_builtins, bn), b)):
                        return True
                    if bn in self.facts.classes:
                        todo.append(self.facts.classes[bn])
            return False
        # an exception class the analysis knows nothing about: `except Exception` catches it
        return handler == 'Exception'

    def s_With(self, st, f):
        cms = []
        for item in st.items:
            cm = self.eval(item.context_expr, f)
            if not isinstance(cm, Obj):
                raise Uninterpretable('%s:%s with statement over %r' % (f.rel, st.lineno, cm))
            v = self.call(self.getattr(cm, '__enter__'), [], {})
            if item.optional_vars is not None:
                self.assign(item.optional_vars, v, f)
            cms.append(cm)
        try:
            self.exec_block(st.body, f)
        except InterpRaise as e:
            for cm in reversed(cms):
                if self.truth(self.call(self.getattr(cm, '__exit__'), [e.exc_name, e, None], {}), None):
                    return
            raise
        except (_Return, _Break, _Continue):
            for cm in reversed(cms):
                self.call(self.getattr(cm, '__exit__'), [None, None, None], {})
            raise
        else:
            for cm in reversed(cms):
                self.call(self.getattr(cm, '__exit__'), [None, None, None], {})

    def s_Assert(self, st, f):
        pass

    def s_Delete(self, st, f):
        for t in st.targets:
            if isinstance(t, ast.Subscript):
                c = self.eval(t.value, f)
                if isinstance(t.slice, ast.Slice):
                    lo, hi, step = [self.eval(x, f) if x is not None else None for x in (t.slice.lower, t.slice.upper, t.slice.step)]
                    if not isinstance(c, list):
                        raise Uninterpretable('del of a slice of %r' % (c,))
                    del c[slice(lo, hi, step)]
                    continue
                i = self.eval(t.slice, f)
                try:
                    del c[i]
                except (KeyError, IndexError):
                    raise InterpRaise('KeyError', repr(i), st)
            elif isinstance(t, ast.Attribute):
                o = self.eval(t.value, f)
                if not isinstance(o, Obj):
                    raise Uninterpretable('del of an attribute of %r' % (o,))
                if t.attr not in o.attrs:
                    raise InterpRaise('AttributeError', t.attr, st)
                del o.attrs[t.attr]
            elif isinstance(t, ast.Name):
                f.local.pop(t.id, None)
            else:
                raise Uninterpretable('del %s' % type(t).__name__)


def _load(t):
    n = ast.parse(unparse(t), mode='eval').body
    for x in ast.walk(n):
        if not hasattr(x, 'lineno'):
            continue
        x.lineno = getattr(t, 'lineno', 0)
    return n


def _whole_position(v):
    """(path, column delta) when v is (line of node, column of the same node + delta), else None"""
    if isinstance(v, tuple) and len(v) == 2 and all(isinstance(x, SymPos) for x in v) and v[0].path == v[1].path \
            and (v[0].part, v[1].part) == ('line', 'col') and v[0].delta == 0:
        return (v[0].path, v[1].delta)
    return None


def _has_sym(v):
    if isinstance(v, tuple):
        return any(_has_sym(x) for x in v)
    return isinstance(v, (SymPos, LocExpr, Unknown, SymPosMix))


def _is_generator(fn):
    c = getattr(fn, '_is_gen', None)
    if c is None:
        c = False
        stack = list(fn.body)
        while stack:
            n = stack.pop()
            if isinstance(n, (ast.Yield, ast.YieldFrom)):
                c = True
                break
            if isinstance(n, (ast.FunctionDef, ast.AsyncFunctionDef, ast.Lambda, ast.ClassDef)):
                continue
            stack.extend(ast.iter_child_nodes(n))
        fn._is_gen = c
    return c


class Frame(object):
    def __init__(self, rel, genv, local, closure=None, fv=None):
        self.rel = rel
        self.genv = genv
        self.local = local
        self.closure = closure or {}
        self.fv = fv
        self.globals_decl = set()

    def lookup(self, interp, name):
        if name in self.local and name not in self.globals_decl:
            v = self.local[name]
            if isinstance(v, tuple) and len(v) == 3 and v[0] == 'lazy' and self.local is self.genv:
                return interp.lookup_global(self.rel, name)
            return v
        if name in self.closure:
            return self.closure[name]
        return interp.lookup_global(self.rel, name)

    def store(self, name, v):
        if name in self.globals_decl:
            self.genv[name] = v
        else:
            self.local[name] = v

    def all_locals(self):
        d = dict(self.closure)
        if self.local is not self.genv:
            d.update(self.local)
        return d

    def child(self):
        fr = Frame(self.rel, self.genv, dict(self.local) if self.local is not self.genv else {},
                   self.closure, self.fv)
        if self.local is self.genv:
            fr.closure = dict(self.closure)
        return fr


def _sym_children(it, args, kwargs):
    """ast.iter_child_nodes on a symbolic node: its child nodes in field order (an opaque leaf has none that are known)."""
    n = args[0]
    if isinstance(n, ast.AST):
        return list(ast.iter_child_nodes(n))
    if not isinstance(n, SymNode):
        raise Uninterpretable('ast.iter_child_nodes(%r)' % (n,))
    out = []
    for v in n.fields.values():
        if isinstance(v, SymNode):
            out.append(v)
        elif isinstance(v, list):
            out.extend(x for x in v if isinstance(x, SymNode))
    return out


def _sym_walk(it, args, kwargs):
    """ast.walk on a symbolic node: breadth first, like the stdlib."""
    if isinstance(args[0], ast.AST):
        return list(ast.walk(args[0]))
    if not isinstance(args[0], SymNode):
        raise Uninterpretable('ast.walk(%r)' % (args[0],))
    todo, out = [args[0]], []
    while todo:
        n = todo.pop(0)
        out.append(n)
        todo.extend(_sym_children(it, [n], {}))
    return out


def explore(interp, run, snapshot=None):
    """Run `run()` once per decision sequence; returns a list of
    (decisions, result, exception, effects, objs[, snapshot()])."""
    stack = [[]]
    out = []
    n = 0
    while stack:
        prefix = stack.pop()
        interp.reset_path(prefix)
        n += 1
        if n > 4096:
            raise Uninterpretable('path explosion')
        exc = None
        result = None
        try:
            result = run()
        except InterpRaise as e:
            exc = e
        decisions = list(interp.decisions)
        single = getattr(interp, 'membership_policy', None) == 'single'
        for j in range(len(prefix), len(decisions)):
            tj = decisions[j][0]
            if single and isinstance(tj, tuple) and tj and tj[0] == 'in' and \
                    any(v and isinstance(t, tuple) and t and t[0] == 'in' for t, v in decisions[:j]):
                continue
            stack.append(decisions[:j] + [(decisions[j][0], True)])
        rec = (decisions, result, exc, list(interp.effects), list(interp.objs))
        if snapshot is not None:
            rec = rec + (snapshot(),)
        out.append(rec)
    return out
