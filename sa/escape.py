"""E4 -- exception escape analysis over the call graph.

raises(f) = classes raised explicitly in f and not caught in f
          + classes that calls made in f can raise (callee summaries, frozen table of
            raising stdlib calls) and that the try/except clauses around the call do not catch.
Computed as a fixpoint; each escaping class keeps one witness path.
"""
import ast

from .core import unparse, enclosing_func
from .facts import get_facts
from .callgraph import get_callgraph

# frozen table of stdlib calls that matter here (callee text suffix -> exception classes)
STDLIB_RAISES = {
    'parse': ['SyntaxError'],            # ast.parse of a source text
    '__import__': ['ImportError'],       # importing a compiled / dynamic module
}
# fields that hold live objects of the analysed environment (runtime modules, their members, instances made from them):
# reading an attribute of such an object runs foreign code - descriptors, module-level __getattr__ (PEP 562) - which may
# raise anything; getattr's default and hasattr only absorb AttributeError
RUNTIME_FIELDS = {('RuntimeName', 'value'), ('ImportedModule', 'module')}
FOREIGN_READS = ('getattr', 'hasattr')


def runtime_exprs(fi):
    """Expression texts denoting a live runtime object inside method fi: self.<field> and locals assigned from it."""
    if fi.cls is None:
        return set()
    fields = {f for c in fi.cls.mro() for (cn, f) in RUNTIME_FIELDS if cn == c.name}
    out = {'self.%s' % f for f in fields}
    for n in ast.walk(fi.node):
        if isinstance(n, ast.Assign) and len(n.targets) == 1 and isinstance(n.targets[0], ast.Name) and unparse(n.value) in out:
            out.add(n.targets[0].id)
    return out


# exception hierarchy (child -> parent)
PARENT = {
    'ImportError': 'Exception', 'ModuleNotFoundError': 'ImportError', 'SyntaxError': 'Exception',
    'KeyError': 'LookupError', 'IndexError': 'LookupError', 'LookupError': 'Exception',
    'AttributeError': 'Exception', 'TypeError': 'Exception', 'ValueError': 'Exception',
    'RuntimeError': 'Exception', 'RecursionError': 'RuntimeError', 'NotImplementedError': 'RuntimeError',
    'OSError': 'Exception', 'StopVisiting': 'Exception', 'AttributeException': 'Exception',
    'AnyException': 'Exception', 'Exception': 'BaseException',
}


def is_sub(c, p):
    while c is not None:
        if c == p:
            return True
        c = PARENT.get(c)
    return False


def caught_by(node, exc, fn):
    """Is an exception of class exc raised at `node` caught by a try around it inside fn?"""
    child, cur = node, getattr(node, '_parent', None)
    while cur is not None and cur is not fn:
        if isinstance(cur, ast.Try) and any(child is s for s in cur.body):
            for h in cur.handlers:
                if h.type is None:
                    return True
                ts = h.type.elts if isinstance(h.type, ast.Tuple) else [h.type]
                for t in ts:
                    if is_sub(exc, unparse(t).split('.')[-1]):
                        # a handler that re-raises the same exception does not contain it
                        if any(isinstance(x, ast.Raise) and x.exc is None for s in h.body for x in ast.walk(s)):
                            continue
                        return True
        if isinstance(cur, (ast.FunctionDef, ast.AsyncFunctionDef, ast.Lambda)):
            break
        child, cur = cur, getattr(cur, '_parent', None)
    return False


class Escape(object):
    def __init__(self, repo, extra_raisers=None):
        self.repo = repo
        self.facts = get_facts(repo)
        self.cg = get_callgraph(repo)
        self.extra = extra_raisers or {}
        self.raises = {k: {} for k in self.facts.funcs}      # key -> {exc: witness path (list of str)}
        self._local()
        self._fix()

    def _local(self):
        for k, fi in self.facts.funcs.items():
            for n in ast.walk(fi.node):
                if enclosing_func(n) is not fi.node and n is not fi.node:
                    # statements of nested functions belong to them (they are not in facts.funcs: attribute to outer)
                    pass
                if isinstance(n, ast.Raise) and n.exc is not None:
                    cls = unparse(n.exc.func if isinstance(n.exc, ast.Call) else n.exc).split('.')[-1]
                    if cls not in PARENT and cls != 'BaseException':
                        c = self.facts.classes.get(cls)
                        PARENT[cls] = (c.base_names[0].split('.')[-1] if c and c.base_names else 'Exception')
                    if not caught_by(n, cls, fi.node):
                        self.raises[k].setdefault(cls, ['%s:%d raise %s' % (fi.rel, n.lineno, cls)])
                if isinstance(n, ast.Call) and isinstance(n.func, ast.Name) and n.func.id in FOREIGN_READS and n.args:
                    rt = runtime_exprs(fi)
                    if unparse(n.args[0]) in rt and not caught_by(n, 'AnyException', fi.node):
                        self.raises[k].setdefault('AnyException', [
                            '%s:%d %s(%s, ...) reads an attribute of a live object of the analysed environment (foreign code: '
                            'descriptors, module __getattr__) and may raise anything' % (fi.rel, n.lineno, n.func.id, unparse(n.args[0]))])
                if isinstance(n, ast.Call):
                    f = unparse(n.func)
                    for suffix, excs in list(STDLIB_RAISES.items()) + list(self.extra.items()):
                        if f == suffix or f.endswith('.' + suffix):
                            # `parse` must be the ast function, not a method of supp
                            for e in excs:
                                if not caught_by(n, e, fi.node):
                                    self.raises[k].setdefault(e, ['%s:%d %s(...) may raise %s' % (fi.rel, n.lineno, f, e)])

    def _fix(self):
        changed = True
        rounds = 0
        while changed and rounds < 50:
            rounds += 1
            changed = False
            for k, fi in self.facts.funcs.items():
                for callee, typed, node in self.cg.edges.get(k, []):
                    for exc, path in list(self.raises.get(callee, {}).items()):
                        if exc in self.raises[k]:
                            continue
                        if caught_by(node, exc, fi.node):
                            continue
                        self.raises[k][exc] = ['%s:%d %s -> %s%s' % (fi.rel, node.lineno, fi.qual, callee.split(':')[1],
                                                                    '' if typed else ' (name-based edge)')] + path
                        changed = True

    def escaping(self, key):
        return self.raises.get(key, {})
