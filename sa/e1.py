"""E1 -- visitor summaries: what supp's extractor does when it meets a node of
each grammar type, computed by abstract interpretation (sa/absint.py) of the
extractor's *source* over symbolic node shapes.

For every node type T and every shape variant (list fields with 0/1/2 elements,
optional fields present/absent, assignment-target kinds) the summary records:
  visits   ordered (child access path, region current at the visit)
  binds    ordered (region, Name object: class, identifier source, location
           expression, declared_at expression, ...)
  regions  the Flow objects allocated, their hints and parents (incl. LoopFlow
           back edges), the region left in `self.flow` and in `scope.flow`
  effects  attribute stamps (`node.flow = ...`), global declarations, attribute
           assignments, import bookkeeping, reads of scope attributes
  raised   an exception the extractor would raise on that shape
"""
import ast

from .core import AnalysisError, unparse
from . import grammar as G
from .facts import get_facts
from .absint import (Interp, Obj, SymNode, SymIdent, SymPos, SymSet, LocExpr, Unknown, Native, FuncVal,
                     ClassRef, InterpRaise, Uninterpretable, explore, Frame)

NAST = 'supp/nast.py'
SCOPE = 'supp/scope.py'
UTIL = 'supp/util.py'

# grammar fields that are assignment targets (expressions in Store position)
TARGET_FIELDS = {
    ('Assign', 'targets'), ('AnnAssign', 'target'), ('AugAssign', 'target'), ('For', 'target'),
    ('AsyncFor', 'target'), ('comprehension', 'target'), ('withitem', 'optional_vars'),
    ('NamedExpr', 'target'), ('Delete', 'targets'),
}
TARGET_KINDS = ['Name', 'Attribute', 'Subscript', 'Tuple(Name,Attribute)', 'Tuple(Starred,Name)',
                'List(Name,Tuple(Name,Name))', 'Tuple(Name,Subscript)', 'Tuple(StarredTuple,Name)',
                'Tuple(Name,Starred)', 'Tuple(Name,Tuple(Name,Starred),Name)']
ONLY_NAME_TARGET = {('NamedExpr', 'target')}
SIMPLE_TARGET = {('AnnAssign', 'target'), ('AugAssign', 'target')}   # Name | Attribute | Subscript

MIN_LEN = {
    ('*', 'body'): 1, ('Assign', 'targets'): 1, ('BoolOp', 'values'): 2, ('Compare', 'comparators'): 1,
    ('Compare', 'ops'): 1, ('Import', 'names'): 1, ('ImportFrom', 'names'): 1, ('Global', 'names'): 1,
    ('Nonlocal', 'names'): 1, ('With', 'items'): 1, ('AsyncWith', 'items'): 1,
    ('ListComp', 'generators'): 1, ('SetComp', 'generators'): 1, ('DictComp', 'generators'): 1,
    ('GeneratorExp', 'generators'): 1, ('Delete', 'targets'): 1, ('JoinedStr', 'values'): 0,
}


EXTRA_COMBINATIONS = {'AnnAssign': [[('node.target/kind', 'Attribute'), ('node.value/present', 'False')]],
                      # the star wildcard `*_` (a MatchStar without a name) and the mapping pattern without `**rest`
                      'Match': [[('node.cases[0].pattern/kind', 'MatchStar'), ('node.cases[0].pattern.name/present', 'False')],
                                [('node.cases[0].pattern/kind', 'MatchMapping'), ('node.cases[0].pattern.rest/present', 'False')]]}

# blocks whose last statement is also generated as a real `return` / `raise` (visited by supp's own visit method, not sunk)
ESCAPING_LAST = {('Try', 'body')}


class ShapeBuilder(object):
    patterns = False       # generate match_case / pattern nodes (only when the extractor has visit methods for them)

    def __init__(self, choices=None, profile='max'):
        self.choices = choices or {}
        self.profile = profile
        self.dims = {}
        self.n = 0
        self.idents = {}

    def pick(self, key, values):
        """values[0] is the 'max' default, values[-1] the 'min' default."""
        self.dims[key] = values
        if key in self.choices:
            return self.choices[key]
        return values[0] if self.profile == 'max' else values[-1]

    def ident(self, path, text=None):
        self.n += 1
        t = text or ('id%d_%s' % (self.n, ''.join(c for c in path.split('.')[-1] if c.isalnum())))
        s = SymIdent(t, path)
        self.idents[t] = path
        return s

    overrides = {}         # path -> node class: positions generated as a real node of that class (demand-driven refinement)

    def opaque(self, sort, path):
        k = self.overrides.get(path)
        if k is not None and G.SORT_OF.get(k) == sort:
            return self.node(k, path)
        return SymNode(None, path, sort)

    def ctx(self, kind, path):
        return SymNode(kind, path + '.ctx', 'expr_context')

    def target(self, kind, path):
        if kind == 'Name':
            return SymNode('Name', path, 'expr', {'id': self.ident(path + '.id'), 'ctx': self.ctx('Store', path)})
        if kind == 'Attribute':
            return SymNode('Attribute', path, 'expr', {'value': self.opaque('expr', path + '.value'),
                                                        'attr': self.ident(path + '.attr'),
                                                        'ctx': self.ctx('Store', path)})
        if kind == 'Subscript':
            return SymNode('Subscript', path, 'expr', {'value': self.opaque('expr', path + '.value'),
                                                        'slice': self.opaque('expr', path + '.slice'),
                                                        'ctx': self.ctx('Store', path)})
        if kind == 'Starred':
            return SymNode('Starred', path, 'expr', {'value': self.target('Name', path + '.value'),
                                                      'ctx': self.ctx('Store', path)})
        if kind == 'StarredTuple':      # *(a, b), c = x
            return SymNode('Starred', path, 'expr', {'value': self.target('Tuple(Name,Name)', path + '.value'),
                                                      'ctx': self.ctx('Store', path)})
        if kind.startswith('Tuple(') or kind.startswith('List('):
            cls = kind[:kind.index('(')]
            inner = _split_top(kind[len(cls) + 1:-1])
            elts = [self.target(k, '%s.elts[%d]' % (path, i)) for i, k in enumerate(inner)]
            return SymNode(cls, path, 'expr', {'elts': elts, 'ctx': self.ctx('Store', path)})
        raise AnalysisError('unknown target kind %s' % kind)

    def pattern(self, p):
        """A pattern: an opaque one, or (one level deep) a capture, star or mapping pattern of its own."""
        if p.count('.pattern') + p.count('.patterns') > 1:
            return SymNode(None, p, 'pattern')
        kind = self.pick((p, 'kind'), ['MatchAs', 'MatchStar', 'MatchMapping', 'MatchSequence', 'opaque'])
        if kind == 'opaque':
            return SymNode(None, p, 'pattern')
        return self.node(kind, p)

    def node(self, cls, path):
        flds = {}
        for fld in G.fields(cls):
            p = '%s.%s' % (path, fld.name)
            flds[fld.name] = self.field(cls, fld, p)
        n = SymNode(cls, path, G.SORT_OF.get(cls, cls), flds)
        if cls == 'arguments':
            self.fix_arguments(n, path)
        return n

    def lens(self, cls, fld):
        lo = MIN_LEN.get((cls, fld.name), MIN_LEN.get(('*', fld.name), 0))
        vals = [2, 1, 0]
        if (cls, fld.name) == ('BoolOp', 'values'):
            vals = [3, 2]          # a chain: what a middle operand binds is seen by the later ones
        return [v for v in vals if v >= lo]

    def field(self, cls, fld, p):
        sort, mult = fld.sort, fld.mult
        key = (p,)
        if sort in G.OUT_OF_DOMAIN_SORTS and not (self.patterns and sort in ('pattern', 'match_case')):
            return [] if mult == '*' else None
        if sort == 'pattern':
            if mult == '1':
                return self.pattern(p)
            if mult == '?':
                return self.pattern(p) if self.pick(key + ('present',), [True, False]) else None
            k = self.pick(key + ('len',), [2, 1, 0] if cls not in ('MatchOr',) else [2])
            return [self.pattern('%s[%d]' % (p, i)) for i in range(k)]
        if sort == 'expr':
            if (cls, fld.name) in TARGET_FIELDS:
                kinds = (['Name'] if (cls, fld.name) in ONLY_NAME_TARGET else
                         ['Name', 'Attribute', 'Subscript'] if (cls, fld.name) in SIMPLE_TARGET else TARGET_KINDS)
                if mult == '*':
                    k = self.pick(key + ('len',), self.lens(cls, fld))
                    return [self.target(self.pick(key + ('kind', i), kinds), '%s[%d]' % (p, i)) for i in range(k)]
                if mult == '?':
                    if not self.pick(key + ('present',), [True, False]):
                        return None
                return self.target(self.pick(key + ('kind',), kinds), p)
            if mult == '1':
                return self.opaque('expr', p)
            if mult == '?':
                return self.opaque('expr', p) if self.pick(key + ('present',), [True, False]) else None
            k = self.pick(key + ('len',), self.lens(cls, fld))
            out = [self.opaque('expr', '%s[%d]' % (p, i)) for i in range(k)]
            # a default value may itself be a function with parameters of its own
            if (cls, fld.name) == ('arguments', 'defaults') and k >= 1 and p.count('.defaults') == 1 and \
                    self.pick(key + ('first',), ['opaque', 'Lambda']) == 'Lambda':
                out[0] = self.node('Lambda', '%s[0]' % p)
                out[0].nested_scope = True       # its inner positions are the subject of the Lambda summaries, not of the owner's
            return out
        if sort == 'stmt':
            if mult == '*':
                k = self.pick(key + ('len',), self.lens(cls, fld))
                out = [self.opaque('stmt', '%s[%d]' % (p, i)) for i in range(k)]
                # a protected block may end in a statement that leaves it: control still reaches the handlers and the
                # finally block from every statement before it (and from the expression the statement evaluates)
                if (cls, fld.name) in ESCAPING_LAST and k >= 2:
                    last = self.pick(key + ('last',), ['opaque', 'Return', 'Raise', 'IfRaise'])
                    if last == 'IfRaise':
                        # ... or in a compound statement that ends in one: `if c: S; raise E` as the last statement of the block
                        ifn = self.node('If', '%s[%d]' % (p, k - 1))
                        body = ifn.fields['body']
                        body[-1] = self.node('Raise', body[-1].path)
                        ifn.fields['orelse'] = []
                        out[-1] = ifn
                    elif last != 'opaque':
                        out[-1] = self.node(last, '%s[%d]' % (p, k - 1))
                return out
            return self.opaque('stmt', p)
        if sort == 'identifier':
            if mult == '1':
                if cls == 'alias' and fld.name == 'name':
                    form = self.pick(key + ('form',), ['plain', 'dotted', 'star'])
                    text = {'plain': None, 'dotted': 'pk%d.sub%d' % (self.n + 1, self.n + 1), 'star': '*'}[form]
                    return self.ident(p, text)
                return self.ident(p)
            if mult == '?':
                return self.ident(p) if self.pick(key + ('present',), [True, False]) else None
            k = self.pick(key + ('len',), [v for v in (2, 1) if v >= 1])
            return [self.ident('%s[%d]' % (p, i)) for i in range(k)]
        if sort == 'expr_context':
            return self.ctx('Load', p.rsplit('.', 1)[0])
        if sort in G.NODE_FIELDS or sort == 'excepthandler':
            c = 'ExceptHandler' if sort == 'excepthandler' else sort
            if mult == '1':
                return self.node(c, p)
            if mult == '?':
                return self.node(c, p) if self.pick(key + ('present',), [True, False]) else None
            k = self.pick(key + ('len',), self.lens(cls, fld))
            return [self.node(c, '%s[%d]' % (p, i)) for i in range(k)]
        if sort == 'int':
            return 0
        if sort in ('string', 'constant'):
            return None
        if mult == '*':
            return [SymNode(None, '%s[0]' % p, sort)] if sort in ('cmpop',) else []
        if sort == 'boolop':
            # `and` / `or`: the two short-circuit differently
            return SymNode(self.pick(key + ('op',), ['And', 'Or']), p, sort, {})
        return SymNode(None, p, sort)

    def fix_arguments(self, n, path):
        """kw_defaults is parallel to kwonlyargs (None = no default); defaults
        cannot outnumber the positional parameters."""
        kwo = n.fields['kwonlyargs']
        mode = self.pick((path + '.kw_defaults', 'mode'), ['mixed', 'all', 'none'])
        kd = []
        for i in range(len(kwo)):
            has = {'all': True, 'none': False, 'mixed': i % 2 == 0}[mode]
            kd.append(self.opaque('expr', '%s.kw_defaults[%d]' % (path, i)) if has else None)
        n.fields['kw_defaults'] = kd
        npos = len(n.fields['posonlyargs']) + len(n.fields['args'])
        n.fields['defaults'] = n.fields['defaults'][:npos]


def _split_top(s):
    out, depth, cur = [], 0, ''
    for ch in s:
        if ch == ',' and depth == 0:
            out.append(cur)
            cur = ''
            continue
        depth += ch == '('
        depth -= ch == ')'
        cur += ch
    if cur:
        out.append(cur)
    return out


def shapes_for(cls, tier='quick', patterns=False):
    """Base (max) shape, min shape, and one-at-a-time variations; the thorough tier adds all pairs of variations
    (two dimensions varied together) and, around the min shape, one-at-a-time variations towards the max."""
    ShapeBuilder.patterns = patterns
    try:
        return _shapes_for(cls, tier)
    finally:
        ShapeBuilder.patterns = False


def _shapes_for(cls, tier):
    base = ShapeBuilder({}, 'max')
    root = base.node(cls, 'node')
    out = [('max', root, base)]
    mn = ShapeBuilder({}, 'min')
    out.append(('min', mn.node(cls, 'node'), mn))
    seen = set()
    work = list(base.dims.items())
    singles = []
    for key, values in work:
        for v in values[1:]:
            if (key, v) in seen:
                continue
            seen.add((key, v))
            singles.append((key, v))
            b = ShapeBuilder({key: v}, 'max')
            r = b.node(cls, 'node')
            out.append(('%s=%s' % ('/'.join(str(k) for k in key), v), r, b))
    # a function whose body rebinds a name under `nonlocal`: the rebinding belongs to whichever enclosing function owns the name,
    # which the visitor of the definition cannot know - nothing may become a local of the scope the definition stands in
    if cls in ('FunctionDef', 'AsyncFunctionDef'):
        b = ShapeBuilder({}, 'max')
        r = b.node(cls, 'node')
        nl = SymNode('Nonlocal', 'node.body[0]', 'stmt', {'names': [b.ident('node.body[0].names[0]', 'nl_rebound')]})
        tgt = SymNode('Name', 'node.body[1].targets[0]', 'expr', {'id': b.ident('node.body[1].targets[0].id', 'nl_rebound'),
                                                                  'ctx': b.ctx('Store', 'node.body[1].targets[0]')})
        asg = SymNode('Assign', 'node.body[1]', 'stmt', {'targets': [tgt], 'value': b.opaque('expr', 'node.body[1].value'),
                                                         'type_comment': None})
        r.fields['body'] = [nl, asg]
        r.nested_body = True
        out.append(('body rebinds a nonlocal name', r, b))
    for combo in EXTRA_COMBINATIONS.get(cls, []):
        chosen = {}
        for (k1, v1) in singles:
            for (frag, val) in combo:
                if frag == '/'.join(str(k) for k in k1) and str(v1) == val:
                    chosen[k1] = v1
        if len(chosen) == len(combo):
            b = ShapeBuilder(chosen, 'max')
            out.append((' & '.join('%s=%s' % ('/'.join(str(k) for k in k1), v1) for k1, v1 in chosen.items()), b.node(cls, 'node'), b))
    if tier == 'thorough':
        import itertools
        n = 0
        for (k1, v1), (k2, v2) in itertools.combinations(singles, 2):
            if k1 == k2:
                continue
            n += 1
            if n > 400:
                break
            b = ShapeBuilder({k1: v1, k2: v2}, 'max')
            r = b.node(cls, 'node')
            out.append(('%s=%s & %s=%s' % ('/'.join(str(k) for k in k1), v1, '/'.join(str(k) for k in k2), v2), r, b))
        for key, values in list(mn.dims.items()):
            for v in values[:-1]:
                b = ShapeBuilder({key: v}, 'min')
                r = b.node(cls, 'node')
                out.append(('min & %s=%s' % ('/'.join(str(k) for k in key), v), r, b))
    return out


# ---------------------------------------------------------------------------

class RegionView(object):
    """Stable description of a Flow object on one path."""
    def __init__(self, obj, token):
        self.obj = obj
        self.token = token

    def __repr__(self):
        return self.token


class Summary(object):
    def __init__(self, cls, variant, root, builder):
        self.cls = cls
        self.variant = variant
        self.root = root
        self.builder = builder
        self.paths = []       # list of PathSummary


class PathSummary(object):
    def __init__(self):
        self.decisions = []
        self.visits = []      # (path, region token, srcline)
        self.binds = []       # dict(region, cls, ident, ident_path, location, declared_at, srcline, obj)
        self.regions = {}     # token -> dict(hint, parents[tokens], loops[tokens], scope token)
        self.final_flow = None
        self.scope_flow = {}  # scope token -> region token
        self.stamps = []      # (path, attr, region token)
        self.effects = []     # other effects
        self.raised = None
        self.new_scopes = []  # dict(kind, token, parent scope token, entry region, obj)
        self.replaced_flow = []  # (region token, also set scope.flow?) for R5a


class Extractor(object):
    def __init__(self, repo):
        self.repo = repo
        self.facts = get_facts(repo)
        self.it = Interp(repo, self.facts)
        self.vis_cls = self.facts.classes.get('extract_visitor')
        if self.vis_cls is None:
            raise AnalysisError('extract_visitor vanished from supp/nast.py')
        for need in ('Flow', 'LoopFlow', 'Scope', 'SourceScope', 'FuncScope', 'ClassScope', 'AssignedName',
                     'ImportedName', 'ArgumentName', 'Name'):
            if need not in self.facts.classes:
                raise AnalysisError('class %s vanished' % need)
        self._install_models()
        self._validate_frozen_summaries()

    # ---- native models ---------------------------------------------------
    def _install_models(self):
        it = self.it
        util = it.module_env(UTIL)
        scope = it.module_env(SCOPE)
        from .exprend import has_expr_end as exprend_has
        if exprend_has(self.repo):
            util['get_expr_end'] = Native('get_expr_end', lambda i, a, k: self.m_get_expr_end(a))
        util['insert_loc'] = Native('insert_loc', lambda i, a, k: self.m_insert_loc(a))
        scope['get_first_body_node_loc'] = Native('get_first_body_node_loc', lambda i, a, k: self.m_first_body(a))
        # natives are looked up by Native.name through nat_<name>; give them unique dispatch
        it.nat_get_expr_end = lambda a, k: self.m_get_expr_end(a)
        it.nat_insert_loc = lambda a, k: self.m_insert_loc(a)
        it.nat_get_first_body_node_loc = lambda a, k: self.m_first_body(a)
        from . import textsearch
        for _rel, cname, mname, _fn in textsearch.search_helpers(self.repo):
            it.method_natives[(cname, mname)] = (lambda cn, mn: lambda i, so, a, k: self.m_find_id_loc(i, so, a, k, (cn, mn)))(cname, mname)
        it.attr_hooks['extract_visitor'] = self.h_visitor_attr
        it.attr_hooks['Scope'] = self.h_scope_attr
        it.membership_policy = 'single'
        it.opaque_policy = 'none'
        it.ident_policy = 'fork'

    def _validate_frozen_summaries(self):
        """The helpers summarised natively must still have the shape the summary assumes."""
        repo = self.repo
        np_ = repo.module_func(UTIL, 'np')
        ok = (len(np_.body) >= 1 and isinstance(np_.body[-1], ast.Return)
              and unparse(np_.body[-1].value) in ('(node.lineno, node.col_offset)',))
        if not ok:
            raise AnalysisError('util.np no longer returns (node.lineno, node.col_offset)')
        from .exprend import expr_end_semantics
        bad = [(c, v, d) for c, v, d in expr_end_semantics(repo) if v != 'ok']
        if bad:
            raise AnalysisError('util.get_expr_end no longer satisfies the summary "start of the last visited node, column + 1" '
                                '(%s: %s); C13 reports the details' % (bad[0][0], bad[0][2]))
        il = repo.module_func(UTIL, 'insert_loc')
        if 'insort(locations, loc)' not in unparse(il) or 'locations.append(loc)' not in unparse(il):
            raise AnalysisError('util.insert_loc changed beyond the frozen summary "ordered insert by location"')
        v = repo.module_func(UTIL, 'visitor')
        if 'cls().process(*args, **kwargs)' not in unparse(v):
            raise AnalysisError('util.visitor changed beyond the frozen summary cls().process')
        # (get_first_body_node_loc is summarised as "the first token of the body"; whether the helper delivers that is decided by
        #  interpreting it on concrete bodies - C01-R4 / C13-R1, sa/exprend.first_statement_layouts - not by its text)

    def m_get_expr_end(self, args):
        n, = args
        if not isinstance(n, SymNode):
            raise InterpRaise('AttributeError', 'get_expr_end(%r)' % (n,))
        return LocExpr('expr_end', n.path)

    def m_insert_loc(self, args):
        lst, name = args
        lst.append(name)
        self.it.effect('bind', id(lst), name)
        return None

    def m_first_body(self, args):
        body, = args
        if not body:
            return None
        return LocExpr('first_body', body[0].path.rsplit('[', 1)[0])

    def m_find_id_loc(self, it, selfobj, args, kwargs, helper=('SourceScope', 'find_id_loc')):
        ident, start = args[0], args[1]
        shift = args[2] if len(args) > 2 else kwargs.get('shift', 0)
        delims = args[3] if len(args) > 3 else kwargs.get('delimeters', True)
        spath = start[0].path if isinstance(start, tuple) and isinstance(start[0], SymPos) else repr(start)
        extras = tuple(('arg%d' % i, a) for i, a in enumerate(args[4:])) + \
            tuple(sorted((k, v) for k, v in kwargs.items() if k not in ('shift', 'delimeters')))
        return LocExpr('text_search', spath, (str(ident), getattr(ident, 'path', None), shift, delims, extras, helper))

    def h_visitor_attr(self, it, obj, attr):
        if attr == 'visit':
            return Native('NodeVisitor.visit', lambda i, a, k: self.do_visit(obj, a[0]))
        if attr == 'generic_visit':
            return Native('NodeVisitor.generic_visit', lambda i, a, k: self.do_generic_visit(obj, a[0]))
        return NotImplemented

    def optional_scope_attr(self, attr):
        """A factory for the initial value `self.<attr> = <empty literal>` some subclass of Scope gives the attribute, or None."""
        import ast as _ast
        for ci in self.facts.classes.values():
            if ci.name == 'Scope' or not any(c.name == 'Scope' for c in ci.mro()):
                continue
            init = ci.methods.get('__init__')
            if init is None:
                continue
            for st in _ast.walk(init.node):
                if isinstance(st, _ast.Assign) and len(st.targets) == 1 and isinstance(st.targets[0], _ast.Attribute) and \
                        isinstance(st.targets[0].value, _ast.Name) and st.targets[0].value.id == 'self' and st.targets[0].attr == attr:
                    v = st.value
                    if isinstance(v, _ast.List) and not v.elts:
                        return list
                    if isinstance(v, _ast.Dict) and not v.keys:
                        return dict
                    if isinstance(v, _ast.Call) and isinstance(v.func, _ast.Name) and v.func.id in ('set', 'list', 'dict') and not v.args:
                        return {'set': set, 'list': list, 'dict': dict}[v.func.id]
        return None

    def h_scope_attr(self, it, obj, attr):
        if obj.label == 'CURSCOPE':
            if it.guarded_getattr:
                it.effect('curscope_attr_guarded', attr)
                # getattr(scope, attr, default): the current scope may be of any kind - absent on the kinds whose constructor
                # does not create the attribute (-> default), present (as that constructor initialises it) on the others
                init = self.optional_scope_attr(attr)
                if init is not None and it.decide(('has', 'CURSCOPE', attr)):
                    v = obj.attrs[attr] = init()
                    return v
                return NotImplemented
            it.effect('curscope_attr', attr)
            if attr == 'returns':
                v = obj.attrs['returns'] = []
                return v
        return NotImplemented

    # ---- NodeVisitor semantics ----------------------------------------------
    def do_visit(self, vis, node):
        it = self.it
        if isinstance(node, SymNode):
            if node.cls is None:
                return self.sink(vis, node)
            m = vis.cls.lookup('visit_' + node.cls)
            if m is not None:
                fv = FuncVal(m.rel, m.node, None, vis, m.cls)
                return it.call(fv, [node], {})
            return self.do_generic_visit(vis, node)
        if node is None:
            raise InterpRaise('AttributeError', "NodeVisitor.visit(None): 'NoneType' object has no attribute '_fields'")
        if isinstance(node, list):
            raise InterpRaise('AttributeError', "NodeVisitor.visit(list): 'list' object has no attribute '_fields'")
        raise Uninterpretable('visit(%r)' % (node,))

    def do_generic_visit(self, vis, node):
        if not isinstance(node, SymNode):
            raise InterpRaise('AttributeError', 'generic_visit(%r)' % (node,))
        if node.cls is None:
            return self.sink(vis, node)
        for fld in G.NODE_FIELDS.get(node.cls, []):
            v = node.fields.get(fld.name)
            if isinstance(v, list):
                for x in v:
                    if isinstance(x, SymNode):
                        self.do_visit(vis, x)
            elif isinstance(v, SymNode):
                self.do_visit(vis, v)
        return None

    def new_flow(self, hint, scope, parents, label):
        """A region stub: whatever supp's own Flow.__init__ gives a region, plus the attributes known here (a region left by an
        opaque child is in the state the constructor leaves it in)."""
        it = self.it
        fl = Obj(self.facts.classes['Flow'], {}, label)
        finit = self.facts.classes['Flow'].lookup('__init__')
        if finit is not None:
            n = len(it.objs)
            try:
                it.call(FuncVal(finit.rel, finit.node, None, fl, finit.cls), [hint, scope], {})
            except (InterpRaise, Uninterpretable):
                pass
            del it.objs[n:]
        fl.attrs.update({'hint': hint, 'scope': scope, '_names': [], 'parents': parents})
        return fl

    def sink(self, vis, node):
        it = self.it
        cur = vis.attrs['flow']
        it.effect('visit', node.path, cur)
        if node.sort in ('expr', 'stmt'):
            ex = self.new_flow('exit', cur.attrs.get('scope'), [cur], 'exit(%s)' % node.path)
            ex.exit_of = (node.path, cur)
            it.objs.append(ex)
            vis.attrs['flow'] = ex
            sc = cur.attrs.get('scope')
            if isinstance(sc, Obj) and sc.attrs.get('flow') is cur:
                sc.attrs['flow'] = ex
                ex.scope_synced = True
        return None

    # ---- one summary --------------------------------------------------------
    def summarise(self, cls, variant, root, builder):
        it = self.it
        facts = self.facts
        summ = Summary(cls, variant, root, builder)
        meth = self.vis_cls.lookup('visit_' + cls)

        state = {}

        def run():
            top = Obj(facts.classes['SourceScope'], {}, 'TOP')
            # TOP's bookkeeping containers come from supp's own SourceScope.__init__ (interpreted), whatever they are called
            init = facts.classes['SourceScope'].lookup('__init__')
            if init is None:
                raise AnalysisError('SourceScope.__init__ vanished')
            # the text: opaque, but for the identifier text search, which is summarised wherever it lives
            source = Obj(facts.classes['Source'], {}, 'SOURCE') if 'Source' in facts.classes else Unknown('source')
            it.call(FuncVal(init.rel, init.node, None, top, init.cls), [source], {})
            for v in top.attrs.values():
                if isinstance(v, list):
                    del v[:]
            top.attrs.update({'source': source,
                              'locals': SymSet('TOP.locals'), 'globals': SymSet('TOP.globals'),
                              'top': top, 'parent': Unknown('builtin_scope')})
            curscope = Obj(facts.classes['Scope'], {}, 'CURSCOPE')
            # the per-scope name sets are whatever supp's own Scope.__init__ creates (locals, globals, nonlocals, ...)
            sinit = facts.classes['Scope'].lookup('__init__')
            if sinit is None:
                raise AnalysisError('Scope.__init__ vanished')
            # (the enclosing scope handed to the constructor is itself a freshly constructed scope: a constructor that reads its
            # parent's tables is interpreted on real, empty ones; what it copies is decided by the lookup scenarios of C05)
            # It stays the current scope's parent: one concrete context (a function, nothing bound in it so far, directly in the
            # module) for a visit method that walks the scope chain
            pstub = Obj(facts.classes.get('FuncScope') or facts.classes['Scope'], {}, 'PARENTSCOPE')
            it.call(FuncVal(sinit.rel, sinit.node, None, pstub, sinit.cls), [top, top], {})
            it.call(FuncVal(sinit.rel, sinit.node, None, curscope, sinit.cls), [pstub, top], {})
            for holder, label in ((top, 'TOP'), (curscope, 'CURSCOPE')):
                for k, v in list(holder.attrs.items()):
                    if isinstance(v, (set, frozenset)):
                        holder.attrs[k] = SymSet('%s.%s' % (label, k))
            # the region the statement starts in: whatever supp's own Flow.__init__ gives a region (plus the attributes known here)
            cur = self.new_flow('CUR', curscope, [], 'CUR')
            curscope.attrs.update({'parent': pstub, 'top': top,
                                   'locals': SymSet('CURSCOPE.locals'), 'globals': SymSet('CURSCOPE.globals'),
                                   'flow': cur})
            top.attrs['flow'] = Unknown('TOP.flow')
            vis = Obj(self.vis_cls, {'top': top, 'flow': cur}, 'visitor')
            state.update(top=top, curscope=curscope, cur=cur, vis=vis)
            _reset(root)
            if meth is not None:
                fv = FuncVal(meth.rel, meth.node, None, vis, meth.cls)
                it.call(fv, [root], {})
            else:
                self.do_generic_visit(vis, root)
            return dict(state)

        for decisions, result, exc, effects, objs, st in explore(it, run, lambda: dict(state)):
            summ.paths.append(self._path_summary(decisions, exc, effects, objs, st))
        return summ

    def _path_summary(self, decisions, exc, effects, objs, st):
        ps = PathSummary()
        ps.decisions = decisions
        ps.raised = exc
        # region tokens
        tokens = {}
        counter = {}
        flows = [st['cur']] + [o for o in objs if o.cls.name == 'Flow']
        for o in flows:
            if o is st['cur']:
                tokens[id(o)] = 'CUR'
            elif getattr(o, 'exit_of', None):
                tokens[id(o)] = o.label
            else:
                h = o.attrs.get('hint')
                counter[h] = counter.get(h, 0) + 1
                tokens[id(o)] = '%s#%d' % (h, counter[h])
        scope_tokens = {id(st['curscope']): 'CURSCOPE', id(st['top']): 'TOP'}
        sc_n = {}
        for o in objs:
            if o.cls.name in ('FuncScope', 'ClassScope'):
                sc_n[o.cls.name] = sc_n.get(o.cls.name, 0) + 1
                scope_tokens[id(o)] = '%s#%d' % (o.cls.name, sc_n[o.cls.name])

        def rtok(o):
            if isinstance(o, Obj) and id(o) in tokens:
                return tokens[id(o)]
            return repr(o)

        def stok(o):
            if isinstance(o, Obj) and id(o) in scope_tokens:
                return scope_tokens[id(o)]
            return repr(o)

        names_lists = {}
        for o in flows:
            names_lists[id(o.attrs.get('_names'))] = o
        for o in flows:
            parents, loops = [], []
            for p in o.attrs.get('parents') or []:
                if isinstance(p, Obj) and p.cls.name == 'LoopFlow':
                    loops.append(rtok(p.attrs.get('parent')))
                else:
                    parents.append(rtok(p))
            ps.regions[rtok(o)] = {'hint': o.attrs.get('hint'), 'parents': parents, 'loops': loops,
                                   'scope': stok(o.attrs.get('scope')), 'obj': o,
                                   'exit_of': getattr(o, 'exit_of', None) and
                                   (o.exit_of[0], rtok(o.exit_of[1]))}
        for e in effects:
            kind = e[0]
            line = e[-1]
            if kind == 'visit':
                ps.visits.append((e[1], rtok(e[2]), line))
            elif kind == 'bind':
                region = names_lists.get(e[1])
                n = e[2]
                ps.binds.append(self._bind_record(n, rtok(region) if region is not None else '?', line, stok))
            elif kind == 'setattr':
                ps.stamps.append((e[1], e[2], rtok(e[3]) if isinstance(e[3], Obj) else repr(e[3]), line))
            else:
                ps.effects.append(e)
        ps.final_flow = rtok(st['vis'].attrs.get('flow'))
        for o in [st['curscope']] + [o for o in objs if o.cls.name in ('FuncScope', 'ClassScope')]:
            fl = o.attrs.get('flow')
            ps.scope_flow[stok(o)] = rtok(fl) if isinstance(fl, Obj) else repr(fl)
            if o.cls.name in ('FuncScope', 'ClassScope'):
                ps.new_scopes.append({'kind': o.cls.name, 'token': stok(o), 'parent': stok(o.attrs.get('parent')),
                                      'entry': rtok(fl) if isinstance(fl, Obj) else None, 'obj': o})
        # global-names / attr-assign bookkeeping on TOP
        top = st['top']
        gn = set()
        for v in top.attrs.values():
            if isinstance(v, dict):
                gn.update(v)
        registered = set()
        for v in top.attrs.values():
            if isinstance(v, list):
                for o in v:
                    if isinstance(o, Obj) and o.cls.name in ('Flow', 'LoopFlow'):
                        registered.add(rtok(o))
        attr_targets = set()
        for v in top.attrs.values():
            if isinstance(v, list):
                for o in v:
                    if isinstance(o, tuple):
                        attr_targets.update(x.path for x in o if isinstance(x, SymNode) and x.cls == 'Attribute')
        # the module scope's plain bookkeeping tables (strings only), whatever they are called and however they are typed
        tables = {}
        for k, v in top.attrs.items():
            if isinstance(v, (list, set, tuple)) and v and all(isinstance(x, str) for x in v):
                tables[k] = type(v)(str(x) for x in v)
            elif isinstance(v, dict) and v and all(isinstance(x, str) for x in v) and \
                    all(isinstance(y, (list, set, tuple)) and all(isinstance(z, str) for z in y) for y in v.values()):
                tables[k] = {str(x): type(y)(str(z) for z in y) for x, y in v.items()}
        ps.top_state = {'global_names': gn, 'registered': registered, 'attr_targets': attr_targets, 'tables': tables}
        ps.tokens = tokens
        ps.rtok = rtok
        ps.stok = stok
        return ps

    def _bind_record(self, n, region, line, stok):
        rec = {'region': region, 'srcline': line, 'obj': n}
        if isinstance(n, Obj):
            a = n.attrs
            rec['cls'] = n.cls.name
            ident = a.get('name')
            rec['ident'] = str(ident) if isinstance(ident, str) else repr(ident)
            rec['ident_is_str'] = isinstance(ident, str)
            rec['ident_path'] = getattr(ident, 'path', None)
            rec['ident_derived'] = getattr(ident, 'derived', None)
            rec['location'] = a.get('location')
            rec['declared_at'] = a.get('declared_at')
            rec['scope'] = stok(a.get('scope'))
            for k in ('value_node', 'module', 'mname', 'is_star', 'qualified', 'idx', 'func'):
                if k in a:
                    rec[k] = a[k]
        else:
            rec['cls'] = repr(n)
        return rec


def _reset(node):
    """Clear attributes stamped on the shape by a previous path."""
    node.extra.clear()
    for v in node.fields.values():
        if isinstance(v, SymNode):
            _reset(v)
        elif isinstance(v, list):
            for x in v:
                if isinstance(x, SymNode):
                    _reset(x)


def loc_kind(loc):
    """Classify a location value: ('np', path) | ('expr_end', path) | ('first_body', path) |
    ('text_search', path, extra) | ('arith', ...) | ('const', v)."""
    if isinstance(loc, LocExpr):
        return (loc.kind, loc.path, loc.extra)
    if isinstance(loc, tuple) and len(loc) == 2:
        a, b = loc
        if isinstance(a, SymPos) and isinstance(b, SymPos):
            if a.part == 'line' and b.part == 'col' and a.path == b.path and not a.delta and not b.delta and not a.lens and not b.lens:
                return ('np', a.path, None)
            if a.part == 'end_line' and b.part == 'end_col' and a.path == b.path and not a.delta and not b.delta and not a.lens and not b.lens:
                return ('node_end', a.path, None)      # the end the parser records for the node: the end of its last token
            return ('arith', (a.path, a.part, a.delta) + ((a.lens,) if a.lens else ()), (b.path, b.part, b.delta) + ((b.lens,) if b.lens else ()))
        if isinstance(a, int) and isinstance(b, int):
            return ('const', loc, None)
    return ('other', repr(loc), None)


def get_extractor(repo):
    return repo.memo('e1', lambda: Extractor(repo))


def all_summaries(repo, tier='quick'):
    """{cls: [Summary,...]} for every statement and expression node type of the grammar
    plus the helper sorts the extractor has visit methods for."""
    def build():
        ex = get_extractor(repo)
        out = {}
        for cls in G.STMTS + G.EXPRS:
            if cls in G.OUT_OF_DOMAIN_NODES:
                continue
            out[cls] = [ex.summarise(cls, v, root, b) for v, root, b in shapes_for(cls, getattr(repo, 'tier', tier))]
            # demand-driven refinement: where the code asked whether an arbitrary child is a node of class K, the largest shape is
            # generated again with a real K node at that position (its own children arbitrary)
            asked = {}
            also = []
            for sm in out[cls]:
                for ps in sm.paths:
                    for e in ps.effects:
                        if e[0] == 'asked-class':
                            for k in e[2]:
                                first = asked.setdefault((e[1], k), sm)      # the first shape in which the question came up
                                # ... and the shapes in which a block or an optional child is absent (what the refined child means
                                # for the construct can depend on it: `if a or (x := b):` without an else block)
                                if first is not sm and (sm.variant.endswith('/len=0') or sm.variant.endswith('/present=False')) \
                                        and (e[1], k, sm) not in also:
                                    also.append((e[1], k, sm))
            todo = sorted(asked.items(), key=lambda x: x[0])[:12] + [((p_, k_), sm_) for p_, k_, sm_ in also[:12]]
            for (path, k), sm in todo:
                ShapeBuilder.overrides = {path: k}
                try:
                    b = ShapeBuilder(dict(sm.builder.choices), sm.builder.profile)
                    root = b.node(cls, 'node')
                finally:
                    ShapeBuilder.overrides = {}
                out[cls].append(ex.summarise(cls, '%s & %s is a %s' % (sm.variant, path, k), root, b))
                # ... and once for every other value of the dimensions the new node brings with it (its operator, its lengths)
                for key, values in sorted((kv for kv in b.dims.items() if kv[0] not in sm.builder.dims), key=repr)[:6]:
                    for v in values[1:]:
                        ShapeBuilder.overrides = {path: k}
                        try:
                            ch2 = dict(sm.builder.choices)
                            ch2[key] = v
                            b2 = ShapeBuilder(ch2, sm.builder.profile)
                            root2 = b2.node(cls, 'node')
                        finally:
                            ShapeBuilder.overrides = {}
                        out[cls].append(ex.summarise(cls, '%s & %s is a %s & %s=%s' % (
                            sm.variant, path, k, '/'.join(str(x) for x in key), v), root2, b2))
        # match statements are outside the domain of the name-resolution properties, but not of C08 / C11 / C17: once the
        # extractor has visit methods for them, they are summarised like every other construct
        pat = sorted(n for n, srt in G.SORT_OF.items() if srt == 'pattern' and n in G.NODE_FIELDS)
        if any(ex.vis_cls.lookup('visit_' + c) is not None for c in ['Match'] + pat):
            for cls in ['Match'] + pat:
                out[cls] = [ex.summarise(cls, v, root, b) for v, root, b in shapes_for(cls, 'quick', patterns=True)]
        return out
    return repo.memo('e1-summaries', build)
