"""Rules evaluated on the E1 summaries; shared by C01/C02/C03/C05/C08/C10/C11/C13.
Every function yields plain dict records; the property modules turn them into
obligations under their own rule ids.
"""
import re

from . import grammar as G
from . import pyref
from .e1 import all_summaries, loc_kind
from .absint import LocExpr
from .templates import Template, reach_relations, reachable_without

NAST = 'supp/nast.py'
DOMAIN_EXCLUDED = set(G.OUT_OF_DOMAIN_NODES) | {'AugAssign'}

EXPECTED_CLASS = {
    'assign': 'AssignedName', 'walrus': 'AssignedName', 'for': 'AssignedName', 'with': 'AssignedName',
    'except': 'AssignedName', 'comprehension': 'AssignedName', 'param': 'ArgumentName',
    'posonly': 'ArgumentName', 'def': 'FuncScope', 'class': 'ClassScope', 'import': 'ImportedName',
    'from-import': 'ImportedName',
}


def gen(path):
    """Generalise list indices: node.body[1] -> body[*]."""
    p = re.sub(r'\[\d+\]', '[*]', path)
    return p[5:] if p.startswith('node.') else p


def top_field(gpath):
    """generators[*].target.elts[*].value -> generators[*].target ; target.slice -> target"""
    parts = gpath.split('.')
    out = []
    for p in parts:
        out.append(p)
        if p.split('[')[0] in ('target', 'targets', 'optional_vars'):
            break
    return '.'.join(out)


def src(ps_line):
    if ps_line and isinstance(ps_line, tuple):
        return ps_line
    return (NAST, 0)


def method_line(repo, cls):
    from .facts import get_facts
    vc = get_facts(repo).classes.get('extract_visitor')
    m = vc.lookup('visit_' + cls) if vc else None
    return (m.rel, m.node.lineno) if m else (NAST, 0)


def method_name(repo, cls):
    """Name of the visitor method that handles cls (aliases resolved), used in construct keys
    so that FunctionDef/AsyncFunctionDef, With/AsyncWith, the four comprehensions share one key."""
    from .facts import get_facts
    vc = get_facts(repo).classes.get('extract_visitor')
    m = vc.lookup('visit_' + cls) if vc else None
    if m is None:
        return 'generic_visit(%s)' % cls
    if m.node.name == 'visit_' + cls:
        return m.node.name
    # alias: several node types share this method
    return m.node.name


def summaries(repo):
    return all_summaries(repo)


def shape_stats(repo):
    ss = summaries(repo)
    return (sum(len(v) for v in ss.values()), sum(len(s.paths) for v in ss.values() for s in v))


def ok_paths(summ):
    return [ps for ps in summ.paths if ps.raised is None]


def base_path(summ):
    """The path on which no identifier is global-declared (all membership decisions False)."""
    for ps in summ.paths:
        if all(not v for _, v in ps.decisions):
            return ps
    return None


def structural_paths(summ):
    """The base path plus the paths that differ from it only in the kind of the current scope ('has' decisions)."""
    out = []
    for ps in summ.paths:
        if ps.raised is None and all((not v) or tag[0] in ('has', 'ident-is') for tag, v in ps.decisions):
            out.append(ps)
    return out


def scope_of_region(ps, region):
    r = ps.regions.get(region)
    return r['scope'] if r else None


# ---------------------------------------------------------------------------
# read coverage + placement
# ---------------------------------------------------------------------------

def read_coverage(repo):
    """One record per (T, generalised leaf path): visited on every shape/path? in the right scope?"""
    recs = {}
    for cls, summs in summaries(repo).items():
        if cls in DOMAIN_EXCLUDED:
            continue
        for s in summs:
            slots = pyref.read_slots(s.root)
            for ps in ok_paths(s):
                visited = {p: r for p, r, _ in ps.visits}
                newscopes = [ns['token'] for ns in ps.new_scopes]
                for lf, scope, skip in slots:
                    key = (cls, gen(lf.path))
                    rec = recs.setdefault(key, {'cls': cls, 'path': gen(lf.path), 'n': 0, 'unvisited': [],
                                                'misplaced': [], 'skip': skip, 'scope': scope,
                                                'line': method_line(repo, cls)})
                    rec['n'] += 1
                    if skip:
                        continue
                    # a leaf may be covered by a visited ancestor leaf? (leaves are maximal: no)
                    if lf.path not in visited:
                        rec['unvisited'].append((s.variant, lf.path))
                        continue
                    sc = scope_of_region(ps, visited[lf.path])
                    want_new = scope == 'new'
                    is_new = sc in newscopes
                    if want_new != is_new:
                        rec['misplaced'].append((s.variant, lf.path, visited[lf.path], sc))
    return recs


# ---------------------------------------------------------------------------
# binder coverage, placement, visibility
# ---------------------------------------------------------------------------

def raw_ancestors(ps, tok):
    out, work = set(), [tok]
    while work:
        r = work.pop()
        info = ps.regions.get(r)
        if info is None:
            continue
        for p in list(info['parents']) + list(info['loops']):
            if p not in out:
                out.add(p)
                work.append(p)
    return out


def find_bind(ps, binder):
    for b in ps.binds:
        if b.get('ident') == binder['ident'] and b.get('cls') not in (None,):
            return b
    return None


def binder_records(repo):
    """One record per (T, binder kind, generalised identifier path)."""
    recs = {}
    for cls, summs in summaries(repo).items():
        if cls in DOMAIN_EXCLUDED:
            continue
        for s in summs:
            bl = pyref.binders(s.root)
            if not bl:
                continue
            bp = base_path(s)
            for binder in bl:
                ipath = binder['ident_path'] or binder['node'].path
                key = (cls, binder['kind'], gen(ipath) + ('' if not binder.get('note') else ':' + binder['note']))
                rec = recs.setdefault(key, {'cls': cls, 'kind': binder['kind'], 'path': key[2], 'n': 0,
                                            'missing': [], 'wrong_class': [], 'wrong_scope': [],
                                            'not_visible': [], 'visible_before': [], 'not_after': [],
                                            'global_route': [], 'crash': [], 'binds': [],
                                            'line': method_line(repo, cls)})
                if bp is None or bp.raised is not None:
                    rec['crash'].append(s.variant)
                    continue
                rec['n'] += 1
                b = find_bind(bp, binder)
                if b is None:
                    rec['missing'].append(s.variant)
                    continue
                # ... also when an identifier of the statement happens to equal a constant the code compares it with
                for sp in structural_paths(s):
                    if sp is not bp and find_bind(sp, binder) is None:
                        why = ', '.join('%s is one of %s' % (gen(str(t[1])), list(t[2])) for t, v in sp.decisions if v and t[0] == 'ident-is')
                        rec['missing'].append('%s when %s' % (s.variant, why or 'the scope is of another kind'))
                        break
                rec['binds'].append((s, bp, binder, b))
                rec['line'] = src(b.get('srcline'))
                if b.get('cls') != EXPECTED_CLASS[binder['kind']]:
                    rec['wrong_class'].append((s.variant, b.get('cls')))
                # the parser positions a decorated definition at its `def` / `class` keyword: a binding that becomes visible "at
                # the start of the statement X" by taking np(X) is not yet visible in the decorators of X
                lk = loc_kind(b.get('location'))
                if lk[0] == 'np' and Template(s.root, bp).sort_of(lk[1]) == 'stmt' and binder['after']:
                    rec.setdefault('np_of_stmt', []).append((s.variant, gen(lk[1])))
                newscopes = [ns['token'] for ns in bp.new_scopes]
                sc = scope_of_region(bp, b['region'])
                if (binder['scope'] == 'new') != (sc in newscopes):
                    rec['wrong_scope'].append((s.variant, b['region'], sc))
                t = Template(s.root, bp)
                for p in binder['after']:
                    v = t.bind_visible_at(b, p)
                    if v is False:
                        rec['not_visible'].append((s.variant, gen(p)))
                for p in binder['before']:
                    v = t.bind_visible_at(b, p)
                    if v is True:
                        rec['visible_before'].append((s.variant, gen(p)))
                    # an expression evaluated before the binding may itself create regions (conditional expression,
                    # comprehension, lambda): those inherit the *complete* table of the region they were created in, so the
                    # binding must not sit in that region or one of its ancestors (raw regions, before exit/entry aliasing)
                    if t.sort_of(p) == 'expr':
                        rv = next((reg for path, reg, _ in bp.visits if path == p), None)
                        rb = b['region']
                        if rv is not None and (rb == rv or rb in raw_ancestors(bp, rv)):
                            rec['visible_before'].append((s.variant, 'regions created inside ' + gen(p)))
                if binder['reaches_after'] and not t.bind_visible_after(b):
                    rec['not_after'].append(s.variant)
                # a binder of a *new* scope (parameter) is bound there whatever the enclosing scope declares
                if binder['scope'] == 'new':
                    for ps in s.paths:
                        if ps.raised is None and ps is not bp:
                            b2 = find_bind(ps, binder)
                            ns2 = [ns['token'] for ns in ps.new_scopes]
                            if b2 is None or scope_of_region(ps, b2['region']) not in ns2:
                                rec['wrong_scope'].append((s.variant, 'decisions %s' % [t for t, v in ps.decisions if v],
                                                           'not bound in its own scope'))
                # global route: on the path where this identifier is declared global
                for ps in s.paths:
                    if ps.raised is None and any(tag[0] == 'in' and tag[1] == binder['ident'] and v and
                                                 str(tag[2]).endswith('.globals') for tag, v in ps.decisions):
                        if binder['ident'] not in ps.top_state['global_names']:
                            rec['global_route'].append(s.variant)
                        break
                # nonlocal route: on the path where this identifier is declared nonlocal it must not become a local of the
                # declaring scope (it would mask the owner's binding for every read in this scope)
                for ps in s.paths:
                    if ps.raised is None and any(tag[0] == 'in' and tag[1] == binder['ident'] and v and
                                                 'nonlocal' in str(tag[2]) for tag, v in ps.decisions):
                        rec['nonlocal_paths'] = rec.get('nonlocal_paths', 0) + 1
                        for e in ps.effects:
                            if e[0] in ('symset_add', 'symset_update') and str(e[1]).endswith('.locals') and \
                                    binder['ident'] in [str(x) for x in e[2]]:
                                rec.setdefault('nonlocal_route', []).append(s.variant)
                        if binder['ident'] in ps.top_state['global_names']:
                            rec.setdefault('nonlocal_route', []).append(s.variant)
                        break
    return recs


def declaration_records(repo):
    recs = {}
    for cls in ('Global', 'Nonlocal'):
        for s in summaries(repo).get(cls, []):
            names = [str(x) for x in s.root.fields['names']]
            for ps in ok_paths(s):
                declared = set()
                for e in ps.effects:
                    if e[0] in ('symset_update', 'symset_add') and 'globals' in e[1] or \
                            e[0] in ('symset_update', 'symset_add') and 'nonlocal' in e[1]:
                        declared.update(str(x) for x in e[2])
                rec = recs.setdefault(cls, {'cls': cls, 'n': 0, 'undeclared': [], 'line': method_line(repo, cls),
                                            'any_effect': False, 'foreign': []})
                rec['n'] += 1
                if ps.effects:
                    rec['any_effect'] = True
                if not set(names) <= declared:
                    rec['undeclared'].append(s.variant)
                # a nonlocal name belongs to an enclosing *function*: filing it with the module's globals makes every later
                # binding of it in this function a module-level binding
                if cls == 'Nonlocal':
                    for e in ps.effects:
                        if e[0] in ('symset_update', 'symset_add') and str(e[1]).endswith('.globals'):
                            rec['foreign'].append((s.variant, '%s (a nonlocal name filed as a module global)' % e[1]))
                # the declaration concerns the block it is written in: no other scope's tables may change
                for e in ps.effects:
                    if e[0] in ('symset_update', 'symset_add') and not str(e[1]).startswith('CURSCOPE.'):
                        rec['foreign'].append((s.variant, str(e[1])))
    return recs


# ---------------------------------------------------------------------------
# continuity
# ---------------------------------------------------------------------------

def owner_cls(root, path):
    """Class of the node whose field holds the leaf at `path` ('node.body[1].value' -> class of node.body[1])."""
    import re as _re
    cur, owner = root, root
    for fname, idx in _re.findall(r'\.(\w+)(?:\[(\d+)\])?', path[4:]):
        if cur is None or not getattr(cur, 'fields', None):
            return None
        owner = cur
        v = cur.fields.get(fname)
        if isinstance(v, list):
            v = v[int(idx)] if idx != '' and int(idx) < len(v) else None
        cur = v
    return getattr(owner, 'cls', None)


def continuity_records(repo):
    recs = {}
    for cls, summs in summaries(repo).items():
        if cls in DOMAIN_EXCLUDED:
            continue
        for s in summs:
            for ps in ok_paths(s):
                used = set()
                for tok, r in ps.regions.items():
                    used.update(r['parents'])
                    used.update(r['loops'])
                for p, reg, _ in ps.visits:
                    used.add(reg)
                used.add(ps.final_flow)
                newscopes = {ns['token'] for ns in ps.new_scopes}
                for sc, fl in ps.scope_flow.items():
                    if sc in newscopes:
                        used.add(fl)
                dropped = []
                for p, reg, line in ps.visits:
                    ex = 'exit(%s)' % p
                    if ex in ps.regions and ex not in used:
                        dropped.append((p, line))
                key = cls
                rec = recs.setdefault(key, {'cls': cls, 'n': 0, 'dropped': {}, 'desync': [],
                                            'line': method_line(repo, cls)})
                rec['n'] += 1
                for p, line in dropped:
                    if owner_cls(s.root, p) in ('Return', 'Raise'):
                        # nothing follows a return / raise in its block: the region left after its expression has no reader
                        # there (what the handlers and the finally block of an enclosing try see is the reach rule's subject)
                        rec.setdefault('exempt', {})[top_field(gen(p))] = 'operand of a statement that leaves the block'
                        continue
                    if top_field(gen(p)) in pyref.NO_ESCAPING_BINDING:
                        rec.setdefault('exempt', {})[top_field(gen(p))] = pyref.NO_ESCAPING_BINDING[top_field(gen(p))]
                        continue
                    rec['dropped'].setdefault(top_field(gen(p)), src(line))
                if ps.final_flow != ps.scope_flow.get('CURSCOPE'):
                    rec['desync'].append((s.variant, ps.final_flow, ps.scope_flow.get('CURSCOPE')))
    return recs


# ---------------------------------------------------------------------------
# block templates vs T3
# ---------------------------------------------------------------------------

def block_records(repo, pairs=False):
    """Per (T, block a, block b): may-reach and dominance in the reference and in supp; with pairs also joint dominance
    of two blocks over a third."""
    out = []
    for cls, summs in summaries(repo).items():
        if cls in DOMAIN_EXCLUDED:
            continue
        for s in summs:
            ref = pyref.block_cfg(s.root)
            if ref is None:
                continue
            blocks, preds = ref
            bp = base_path(s)
            if bp is None or bp.raised is not None:
                continue
            for sp in structural_paths(s):
                t = Template(s.root, sp)
                nodes, succ, unvisited = t.block_graph(blocks)
                ref_nodes = {'pre': 1, 'after': 1}
                ref_nodes.update({k: 1 for k in blocks})
                rmay, rdom = reach_relations(ref_nodes, preds, False)
                smay, sdom = reach_relations(nodes, succ, True)
                for a in list(blocks):
                    for b in list(blocks) + ['after']:
                        if a in unvisited or b in unvisited:
                            continue
                        a_out = (a, 'out')
                        b_in = (b, 'in') if b != 'after' else 'after'
                        out.append({'cls': cls, 'variant': s.variant, 'a': gen(a), 'b': gen(b),
                                    'ref_may': b in rmay.get(a, ()), 'supp_may': b_in in smay.get(a_out, ()),
                                    'ref_dom': a in rdom.get(b, ()), 'supp_dom': a_out in sdom.get(b_in, ()),
                                    'line': method_line(repo, cls)})
                # joint dominance: every route to b passes a1 or a2 although neither alone is on every route (a name
                # bound in both arms / in a later operand and in the body is certainly defined behind them)
                names = [a for a in blocks if a not in unvisited] if pairs else []
                for i, a1 in enumerate(names):
                    for a2 in names[i + 1:]:
                        for b in names + ['after']:
                            if b in (a1, a2):
                                continue
                            b_in = (b, 'in') if b != 'after' else 'after'
                            if not (b in rmay.get(a1, ()) and b in rmay.get(a2, ())
                                    and b_in in smay.get((a1, 'out'), ()) and b_in in smay.get((a2, 'out'), ())):
                                continue
                            if a1 in rdom.get(b, ()) or a2 in rdom.get(b, ()):
                                continue
                            if (a1, 'out') in sdom.get(b_in, ()) or (a2, 'out') in sdom.get(b_in, ()):
                                continue        # reported by the single-block comparison
                            rj = b not in reachable_without(preds, False, {a1, a2})
                            sj = b_in not in reachable_without(succ, True, {(a1, 'out'), (a2, 'out')})
                            out.append({'cls': cls, 'variant': s.variant, 'a': gen(a1) + ' + ' + gen(a2), 'b': gen(b), 'pair': True,
                                        'ref_may': True, 'supp_may': True, 'ref_dom': rj, 'supp_dom': sj,
                                        'line': method_line(repo, cls)})
    return out


# ---------------------------------------------------------------------------
# lookup order: a later statement of a block must be consulted before an earlier one
# ---------------------------------------------------------------------------

def shadow_records(repo):
    """For two leaves a < b of one block that are visited in different regions Ra != Rb, and a reader block E that the
    reference CFG reaches from that block (so every path from a to E runs through b): a lookup from E's region walks the
    parent edges and takes the first region owning the identifier, so every walk that arrives at Ra must have passed Rb (or the
    region of a later leaf) - otherwise a binding made by `a` hides the rebinding made by `b`.
    -> {(cls, block, reader): {'bad': [(variant, a, b, walk)], 'n': checked, 'line': ...}}"""
    recs = {}
    for cls, summs in summaries(repo).items():
        if cls in DOMAIN_EXCLUDED:
            continue
        for s in summs:
            ref = pyref.block_cfg(s.root)
            if ref is None:
                continue
            blocks, preds = ref
            bp = base_path(s)
            if bp is None or bp.raised is not None:
                continue
            ref_nodes = {'pre': 1, 'after': 1}
            ref_nodes.update({k: 1 for k in blocks})
            rmay, _rdom = reach_relations(ref_nodes, preds, False)
            vis = {}
            for path, reg, _ in bp.visits:
                vis.setdefault(path, reg)

            def up(r):
                info = bp.regions.get(r)
                return (list(info['parents']) + list(info['loops'])) if info else []
            for bname, leaves in blocks.items():
                regs = [(lf.path, vis.get(lf.path)) for lf in leaves]
                regs = [(p, r) for p, r in regs if r is not None]
                if len(regs) < 2:
                    continue
                for ename in list(blocks) + ['after']:
                    if ename == bname or ename not in rmay.get(bname, ()):
                        continue
                    if ename == 'after':
                        re_ = bp.final_flow
                    else:
                        el = [vis.get(lf.path) for lf in blocks[ename] if vis.get(lf.path) is not None]
                        if not el:
                            continue
                        re_ = el[0]
                    key = (cls, gen(bname), gen(ename))
                    rec = recs.setdefault(key, {'bad': [], 'n': 0, 'line': method_line(repo, cls)})
                    for i, (pa, ra) in enumerate(regs):
                        later = {r for _, r in regs[i + 1:]} - {ra}
                        if not later:
                            continue
                        rec['n'] += 1
                        # walk from the reader without entering the regions of later leaves
                        seen, work, walk = set(), [(re_, (re_,))], None
                        while work:
                            r, trail = work.pop()
                            if r in seen or r in later:
                                continue
                            seen.add(r)
                            if r == ra:
                                walk = trail
                                break
                            for p in up(r):
                                work.append((p, trail + (p,)))
                        if walk is not None and re_ != ra:
                            rec['bad'].append((s.variant, gen(pa), sorted(later), ' -> '.join(walk)))
    return recs


# ---------------------------------------------------------------------------
# registration of regions / visiting order of statements
# ---------------------------------------------------------------------------

def registration_records(repo):
    """Every region a leaf is visited in (so: every region a binding can land in) must be known to the module scope, which
    enumerates bindings region by region (all_names): -> {cls: {'bad': [(variant, region)], 'n': regions checked, 'line'}}"""
    recs = {}
    for cls, summs in summaries(repo).items():
        if cls in DOMAIN_EXCLUDED:
            continue
        for s in summs:
            for ps in ok_paths(s):
                reg = ps.top_state.get('registered')
                if reg is None:
                    continue
                rec = recs.setdefault(cls, {'bad': [], 'n': 0, 'line': method_line(repo, cls)})
                for tok in sorted({r for _p, r, _l in ps.visits} | {b['region'] for b in ps.binds}):
                    if tok in ('CUR', '?') or tok.startswith('exit('):
                        continue        # the region the construct was entered in / regions created by opaque children
                    rec['n'] += 1
                    if tok not in reg:
                        rec['bad'].append((s.variant, tok))
    return recs



def double_visit_records(repo):
    """A child the visit method hands to the visitor twice on one path: whatever it registers (scopes, bindings, regions) is
    registered twice.  -> {cls: {'twice': [(variant, child path)], 'n': visits checked, 'line'}}"""
    recs = {}
    for cls, summs in summaries(repo).items():
        for s in summs:
            for ps in ok_paths(s):
                rec = recs.setdefault(cls, {'twice': [], 'n': 0, 'line': method_line(repo, cls)})
                seen = set()
                for path, _r, _l in ps.visits:
                    rec['n'] += 1
                    if path in seen and (s.variant, path) not in rec['twice']:
                        rec['twice'].append((s.variant, path))
                    seen.add(path)
    return recs

def statement_order_records(repo):
    """Statement leaves must be visited in source order: what the visitor records in visiting order (attribute assignments,
    the order of regions) is reported in that order.  -> {cls: {'bad': [(variant, earlier, later)], 'n', 'line'}}"""
    recs = {}
    for cls, summs in summaries(repo).items():
        if cls in DOMAIN_EXCLUDED:
            continue
        for s in summs:
            bp = base_path(s)
            if bp is None or bp.raised is not None:
                continue
            t = Template(s.root, bp)
            seq = [p for p, _r, _l in bp.visits if t.sort_of(p) == 'stmt']
            rec = recs.setdefault(cls, {'bad': [], 'n': 0, 'line': method_line(repo, cls)})
            for a, b in zip(seq, seq[1:]):
                rec['n'] += 1
                if pyref.pathkey(s.root, a) > pyref.pathkey(s.root, b):
                    rec['bad'].append((s.variant, gen(a), gen(b)))
    return recs


# ---------------------------------------------------------------------------
# every summarised construct, in or out of the name-resolution domain (C08 / C11 / C17)
# ---------------------------------------------------------------------------

def _nested_scopes(node):
    out = []
    if getattr(node, 'nested_scope', False):
        out.append(node)
    for v in getattr(node, 'fields', {}).values():
        for x in (v if isinstance(v, list) else [v]):
            if hasattr(x, 'fields'):
                out.extend(_nested_scopes(x))
    return out


def binding_hygiene_records(repo):
    """Per construct: bindings registered under something that is not a string; bindings of one construct registered in
    *different* regions at the same location (a join sorts alternatives by location: a tie is broken by set order);
    text searches whose search string is not the bare identifier."""
    out = {'nonstr': [], 'ties': [], 'glued': [], 'foreign_params': [], 'spurious': [], 'nonlocal_leak': [], 'n': 0}
    for cls, summs in summaries(repo).items():
        for s in summs:
            for ps in ok_paths(s):
                out['n'] += 1
                by_loc = {}
                owners = {}
                # bindings of identifiers that the construct reads but does not bind (`for obj.attr in xs` reads obj)
                if getattr(s.root, 'nested_body', False):
                    # the definition's body rebinds `nl_rebound` under nonlocal: the scope the definition stands in must not get it as
                    # a local (unless the code first established that this scope owns the name)
                    owns = any(t[0] == 'in' and t[1] == 'nl_rebound' and str(t[2]).endswith('CURSCOPE.locals') and v for t, v in ps.decisions)
                    for e in ps.effects:
                        if e[0] in ('symset_add', 'symset_update') and str(e[1]) == 'CURSCOPE.locals' and \
                                'nl_rebound' in [str(x) for x in e[2]] and not owns:
                            out['nonlocal_leak'].append((cls, s.variant, src(e[-1])))
                if cls not in DOMAIN_EXCLUDED and cls not in ('Import', 'ImportFrom') and not getattr(s.root, 'nested_body', False):
                    ref = {bd['ident_path'] for bd in pyref.binders(s.root) if bd['ident_path']}
                    nested = [n.path for n in _nested_scopes(s.root)]
                    for b in ps.binds:
                        ip = b.get('ident_path')
                        if ip and ref and ip not in ref and b.get('cls') in ('AssignedName', 'ArgumentName', 'ImportedName') \
                                and not any(ip.startswith(n + '.') for n in nested):
                            out['spurious'].append((cls, s.variant, gen(ip), src(b.get('srcline'))))
                for b in ps.binds:
                    if b.get('cls') == 'ArgumentName' and b.get('ident_path') and isinstance(b.get('func'), object):
                        # the `arguments` node the parameter is written in: 'node.args.defaults[0].args.args[0].arg' -> 'node.args.defaults[0]'
                        owner = re.sub(r'\.args\.(posonlyargs|args|kwonlyargs)\[\d+\]\.arg$|\.args\.(vararg|kwarg)\.arg$', '', b['ident_path'])
                        owners.setdefault(id(b.get('func')), set()).add(owner)
                    if b.get('ident_is_str') is False:
                        out['nonstr'].append((cls, s.variant, b.get('ident'), src(b.get('srcline'))))
                    loc = b.get('location')
                    if loc is not None and b.get('cls') in ('AssignedName', 'ImportedName'):
                        by_loc.setdefault(repr(loc), set()).add(b['region'])
                    d = b.get('declared_at')
                    if isinstance(d, LocExpr) and d.kind == 'text_search' and d.extra:
                        search, ipath = d.extra[0], d.extra[1]
                        if ipath is not None and search != b.get('ident') and search.strip() != search or \
                                (ipath is not None and search.strip() == search and search != b.get('ident')
                                 and b.get('ident') in search):
                            out['glued'].append((cls, s.variant, search, b.get('ident'), src(b.get('srcline'))))
                for fid, os_ in owners.items():
                    if len(os_) > 1:
                        out['foreign_params'].append((cls, s.variant, sorted(os_), method_line(repo, cls)))
                t = None
                for loc, regions in by_loc.items():
                    if len(regions) > 1:
                        # only parallel regions meet in a join: a region and its ancestor never contribute two alternatives
                        t = t or Template(s.root, ps)
                        rs = sorted(t.canon(r) for r in regions)
                        par = [(a, b) for i, a in enumerate(rs) for b in rs[i + 1:]
                               if a != b and a not in t.ancestors(b) and b not in t.ancestors(a)]
                        if par:
                            out['ties'].append((cls, s.variant, loc, sorted(par[0]), method_line(repo, cls)))
    return out


def attribute_target_records(repo):
    """Per binding construct: the attribute targets (`obj.attr` in Store context, also inside tuple / list / starred targets) that the
    extractor records as attribute assignments with the module scope.  -> {(cls, generalised path): {'n', 'missing': [variants]}}"""
    recs = {}
    target_fields = {'Assign': ['targets'], 'AnnAssign': ['target'], 'For': ['target'], 'AsyncFor': ['target'],
                     'With': ['items'], 'AsyncWith': ['items']}

    def attr_targets(n):
        if isinstance(n, list):
            out = []
            for x in n:
                out.extend(attr_targets(x))
            return out
        if n is None or not hasattr(n, 'cls'):
            return []
        if n.cls == 'Attribute':
            return [n]
        if n.cls in ('Tuple', 'List'):
            return attr_targets(n.fields['elts'])
        if n.cls == 'Starred':
            return attr_targets(n.fields['value'])
        if n.cls == 'withitem':
            return attr_targets(n.fields.get('optional_vars'))
        return []
    for cls, fields in target_fields.items():
        for s in summaries(repo).get(cls, []):
            if cls == 'AnnAssign' and s.root.fields.get('value') is None:
                # a bare annotation assigns nothing: recording it makes `self.x: int` the definition of x
                for ps in structural_paths(s):
                    for n in attr_targets(s.root.fields.get('target')):
                        rec = recs.setdefault((cls, gen(n.path) + ' (bare annotation)'), {'n': 0, 'missing': [], 'spurious': [],
                                                                                          'line': method_line(repo, cls)})
                        rec['n'] += 1
                        if n.path in ps.top_state.get('attr_targets', ()):
                            rec['spurious'].append(s.variant)
                continue
            tg = []
            for f in fields:
                tg.extend(attr_targets(s.root.fields.get(f)))
            for ps in structural_paths(s):
                for n in tg:
                    key = (cls, gen(n.path))
                    rec = recs.setdefault(key, {'n': 0, 'missing': [], 'line': method_line(repo, cls)})
                    rec['n'] += 1
                    if n.path not in ps.top_state.get('attr_targets', ()):
                        rec['missing'].append(s.variant)
    return recs


# ---------------------------------------------------------------------------
# regions that lead nowhere
# ---------------------------------------------------------------------------

def dead_end_records(repo):
    """Every region a visit method creates in the current scope (make_flow, not the exit region of a child) must be the final region
    of the construct or one of its ancestors (parents and back edges followed upwards): a region nothing inherits from is a dead
    end - whatever is bound there is lost to the code after the construct.
    -> ({(cls, hint): {'variants': [...], 'line': ...}}, number of created regions examined)"""
    bad = {}
    n = 0
    for cls, summs in summaries(repo).items():
        for s in summs:
            for sp in structural_paths(s):
                up = {tok: list(r['parents']) + list(r['loops']) for tok, r in sp.regions.items()}
                anc, work = set(), [sp.final_flow]
                while work:
                    t = work.pop()
                    if t in anc:
                        continue
                    anc.add(t)
                    work.extend(up.get(t, []))
                for tok, r in sp.regions.items():
                    if r['scope'] != 'CURSCOPE' or r.get('exit_of') or tok == 'CUR':
                        continue
                    n += 1
                    if tok not in anc:
                        rec = bad.setdefault((cls, str(r['hint'])), {'variants': [], 'line': method_line(repo, cls)})
                        rec['variants'].append(s.variant)
    return bad, n
