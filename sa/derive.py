"""Tiny def-use helper: expand local variables of one function into the
expressions they were assigned from (flow-insensitive, single-assignment names
only; names assigned more than once are left symbolic).  Used by derivation
rules ("the looked-up table derives from names_at of the read's own flow")."""
import ast

from .core import unparse


class Expander(object):
    def __init__(self, fn, stop=()):
        self.fn = fn
        self.stop = set(stop)
        self.defs = {}
        for n in ast.walk(fn):
            if isinstance(n, ast.Assign):
                for t in n.targets:
                    self._bind(t, n.value)
            elif isinstance(n, ast.AnnAssign) and n.value is not None:
                self._bind(n.target, n.value)
            elif isinstance(n, (ast.For, ast.comprehension)):
                call = ast.Call(func=ast.Name(id='__iter_of__', ctx=ast.Load()), args=[n.iter], keywords=[])
                call.lineno = getattr(n.iter, 'lineno', 0)
                self._bind(n.target, call)
            elif isinstance(n, ast.withitem) and n.optional_vars is not None:
                self._bind(n.optional_vars, n.context_expr)

    def may_reach(self, def_line, use_line):
        """A definition inside a block that always leaves the function (return/raise at its end)
        cannot reach a use outside that block."""
        from .facts import always_exits
        for n in ast.walk(self.fn):
            for field in ('body', 'orelse'):
                blk = getattr(n, field, None)
                if not isinstance(blk, list) or not blk or not isinstance(n, (ast.If, ast.Try, ast.For, ast.While, ast.With)):
                    continue
                lo, hi = blk[0].lineno, getattr(blk[-1], 'end_lineno', blk[-1].lineno)
                if lo <= def_line <= hi and not (lo <= use_line <= hi):
                    if always_exits(blk, (ast.Return, ast.Raise)):
                        return False
        return True

    def _bind(self, t, v):
        if isinstance(t, ast.Name):
            self.defs.setdefault(t.id, []).append(v)
        elif isinstance(t, (ast.Tuple, ast.List)):
            for i, e in enumerate(t.elts):
                sub = ast.Subscript(value=v, slice=ast.Constant(value=i), ctx=ast.Load())
                sub.lineno = getattr(v, 'lineno', 0)
                self._bind(e, sub)

    def expand(self, e, depth=6):
        if depth <= 0:
            return e
        ex = self

        class T(ast.NodeTransformer):
            def visit_Name(self, n):
                d = ex.defs.get(n.id) if n.id not in ex.stop else None
                if isinstance(n.ctx, ast.Load) and d:
                    if len(d) == 1:
                        return ex.expand(d[0], depth - 1)
                    # several definitions: the nearest one textually before the use
                    use = getattr(n, 'lineno', None)
                    if use is not None:
                        before = [v for v in d if getattr(v, 'lineno', 10**9) <= use
                                  and ex.may_reach(getattr(v, 'lineno', 0), use)]
                        if before:
                            best = max(before, key=lambda v: v.lineno)
                            return ex.expand(best, depth - 1)
                return n
        import copy
        return T().visit(copy.deepcopy(e))

    def text(self, e):
        return unparse(self.expand(e))

    def all_texts(self, e, limit=16):
        """Expansions of `e` under *every* combination of reaching definitions of the variables it uses
        (a variable assigned on several paths yields several texts)."""
        import copy
        import itertools
        names = []
        for n in ast.walk(e):
            if isinstance(n, ast.Name) and isinstance(n.ctx, ast.Load) and n.id not in self.stop:
                d = [v for v in self.defs.get(n.id, []) if getattr(v, 'lineno', 0) <= getattr(n, 'lineno', 10**9)
                     and self.may_reach(getattr(v, 'lineno', 0), getattr(n, 'lineno', 10**9))]
                if len(d) > 1 and n.id not in [x[0] for x in names]:
                    names.append((n.id, d))
        if not names:
            return [self.text(e)]
        out = []
        for combo in itertools.islice(itertools.product(*[d for _, d in names]), limit):
            saved = {k: self.defs[k] for k, _ in names}
            try:
                for (k, _), v in zip(names, combo):
                    self.defs[k] = [v]
                out.append(self.text(e))
            finally:
                self.defs.update(saved)
        return out
