"""Python abstract grammar of the running interpreter, recovered from the ASDL
signatures CPython publishes in every node class's __doc__.  Read from the
stdlib, not from supp: this is the universe the exhaustiveness rules quantify
over.
"""
import ast
import re

_SIG = re.compile(r'^(\w+)\((.*)\)$', re.S)


class Field(object):
    __slots__ = ('name', 'sort', 'mult')

    def __init__(self, name, sort, mult):
        self.name = name
        self.sort = sort      # 'expr', 'stmt', 'identifier', 'arg', ...
        self.mult = mult      # '1', '?', '*'

    def __repr__(self):
        return '%s%s %s' % (self.sort, '' if self.mult == '1' else self.mult, self.name)


def _parse_doc(cls):
    doc = (cls.__doc__ or '').strip()
    # sum types list alternatives: "expr = BoolOp(...) | ..."; product/constructor docs are one signature
    m = _SIG.match(' '.join(doc.split()))
    if not m or m.group(1) != cls.__name__:
        return None
    fields = []
    body = m.group(2).strip()
    if body:
        for part in body.split(','):
            part = part.strip()
            sort, name = part.split()
            mult = '1'
            if sort.endswith('*'):
                sort, mult = sort[:-1], '*'
            elif sort.endswith('?'):
                sort, mult = sort[:-1], '?'
            fields.append(Field(name, sort, mult))
    return fields


NODE_FIELDS = {}
SORT_OF = {}      # class name -> sort ('stmt', 'expr', 'excepthandler', or itself for products)
for _name in dir(ast):
    _cls = getattr(ast, _name)
    if isinstance(_cls, type) and issubclass(_cls, ast.AST) and _cls is not ast.AST:
        _f = _parse_doc(_cls)
        if _f is not None and list(_cls._fields) == [x.name for x in _f]:
            NODE_FIELDS[_name] = _f
for _sort in ('stmt', 'expr', 'excepthandler', 'expr_context', 'pattern', 'type_param',
              'boolop', 'operator', 'unaryop', 'cmpop', 'mod', 'type_ignore'):
    _base = getattr(ast, _sort, None)
    if _base is None:
        continue
    for _sub in _base.__subclasses__():
        SORT_OF[_sub.__name__] = _sort
for _name in NODE_FIELDS:
    SORT_OF.setdefault(_name, _name)

STMTS = sorted(n for n, s in SORT_OF.items() if s == 'stmt' and n in NODE_FIELDS)
EXPRS = sorted(n for n, s in SORT_OF.items() if s == 'expr' and n in NODE_FIELDS)

# sorts whose members contain expressions/statements and are reached through helper nodes
HELPER_SORTS = ('arguments', 'arg', 'keyword', 'withitem', 'comprehension', 'excepthandler',
                'alias', 'match_case')
# out of the domain of every property (stated in properties.jsonl)
OUT_OF_DOMAIN_SORTS = ('type_param', 'pattern', 'match_case', 'type_ignore')
OUT_OF_DOMAIN_NODES = ('Match', 'TryStar', 'TypeAlias', 'Delete')

# textual order of the fields of each node where it differs from _fields order
# (needed to order positions inside one region symbolically).  From the Python grammar.
TEXTUAL_ORDER = {
    'FunctionDef': ['decorator_list', 'name', 'type_params', 'args', 'returns', 'type_comment', 'body'],
    'AsyncFunctionDef': ['decorator_list', 'name', 'type_params', 'args', 'returns', 'type_comment', 'body'],
    'ClassDef': ['decorator_list', 'name', 'type_params', 'bases', 'keywords', 'body'],
    'IfExp': ['body', 'test', 'orelse'],
    'ListComp': ['elt', 'generators'], 'SetComp': ['elt', 'generators'],
    'GeneratorExp': ['elt', 'generators'], 'DictComp': ['key', 'value', 'generators'],
    'Assign': ['targets', 'value', 'type_comment'],
    'AnnAssign': ['target', 'annotation', 'value', 'simple'],
    'AugAssign': ['target', 'op', 'value'],
    'NamedExpr': ['target', 'value'],
    'For': ['target', 'iter', 'body', 'orelse', 'type_comment'],
    'AsyncFor': ['target', 'iter', 'body', 'orelse', 'type_comment'],
    'comprehension': ['target', 'iter', 'ifs', 'is_async'],
    'withitem': ['context_expr', 'optional_vars'],
    'ExceptHandler': ['type', 'name', 'body'],
    'keyword': ['arg', 'value'],
    'arg': ['arg', 'annotation', 'type_comment'],
    'alias': ['name', 'asname'],
}


def fields(cls_name):
    return NODE_FIELDS[cls_name]


def textual_fields(cls_name):
    order = TEXTUAL_ORDER.get(cls_name)
    names = [f.name for f in NODE_FIELDS[cls_name]]
    if order is None:
        return names
    return [n for n in order if n in names] + [n for n in names if n not in order]
