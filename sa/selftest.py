"""Self-test of the checkers (both ways).

For every property a list of single-point *mutants* of supp (regex edits applied
to a scratch copy outside /repo and /verif, removed afterwards) that still parse
and break the property: the owning check must exit 1 and name the expected rule.
And a list of behaviour-preserving *twins* (refactorings): the check must stay
at exit 0.  A self-test failure means the checker is broken: exit 2.
"""
import concurrent.futures
import os
import re
import shutil
import subprocess
import sys
import tempfile

VERIF = os.path.dirname(os.path.dirname(os.path.abspath(__file__)))
REPO = os.environ.get('SA_REPO', '/repo')

# (property, file, pattern, replacement, expected rule id in the report)
MUTANTS = [
    # ---- C01
    ('C01', 'supp/nast.py', r"        for df in node\.args\.defaults:\n            self\.visit\(df\)\n", "", 'C01-R1'),
    ('C01', 'supp/nast.py', r"self\.make_flow\('for-else', \[cur, body\]\)", "self.make_flow('for-else', [cur])", 'C01-R'),
    ('C01', 'supp/nast.py', r"matching = \[cur, body\]", "matching = [cur]", 'C01-R5'),
    ('C01', 'supp/nast.py', r"                matching = \[fh\]\n", "", 'C01-R5'),      # a later clause no longer sees the type of an earlier one
    ('C03', 'supp/nast.py', r"            fh = self\.make_flow\('except-body', \[fh\]\)\n", "", 'C03-R1'),     # target and body of a clause leak into the next clause
    ('C01', 'supp/nast.py', r"(self\.flow = self\.make_flow\('join', \[body, orelse\]\))\n        self\.flow\.scope\.flow = self\.flow", r"\1", 'C01-R5'),
    ('C01', 'supp/scope.py', r"            self\.scope\.locals\.add\(name\.name\)\n            insert_loc\(self\._names, name\)", "            self.scope.locals.add(name.name)", 'C01-R2'),
    ('C01', 'supp/nast.py', r"            self\.flow = self\.visit_in_flow\(node\.finalbody, self\.flow\)\n            self\.flow\.scope\.flow = self\.flow", "            self.visit_in_flow(node.finalbody, self.flow)", 'C01-R5'),
    ('C01', 'supp/nast.py', r"            for df in node\.args\.kw_defaults:\n                df and self\.visit\(df\)\n            for a in getattr", "            for a in getattr", 'C01-R1'),
    ('C01', 'supp/nast.py', r"get_expr_end\(it\.context_expr\), np\(name\), node\)", "np(node.body[0]), np(name), node)", 'C01-R4'),
    ('C01', 'supp/scope.py', r"enumerate\(getattr\(node\.args, 'posonlyargs', \[\]\) \+ node\.args\.args\)", "enumerate(node.args.args)", 'C01-R2'),
    ('C01', 'supp/nast.py', r"    def visit_Global\(self, node\):\n        # type: \(ast\.Global\) -> None\n        if self\.flow\.scope is not self\.top:[^\n]*\n            self\.flow\.scope\.globals\.update\(node\.names\)", "    def visit_Global(self, node):\n        # type: (ast.Global) -> None\n        pass", 'C01-R2'),
    ('C01', 'supp/scope.py', r"elif name\.name in self\.scope\.nonlocals:", "elif False:", 'C01-R2'),
    ('C01', 'supp/scope.py', r"if getattr\(body\[0\], 'decorator_list', None\):", "if type(body[0]) in (FunctionDef, ClassDef) and body[0].decorator_list:", 'C01-R4'),
    ('C01', 'supp/nast.py', r"AssignedName\(name\.id, get_first_body_node_loc\(node\.body\), np\(name\), node\.iter\)", "AssignedName(name.id, np(node.body[0]), np(name), node.iter)", 'C01-R4'),
    ('C03', 'supp/nast.py', r"        for b in node\.bases:\n            self\.visit\(b\)\n", "        self.visit_in_flow(node.bases, self.flow)\n", 'C03-R1'),
    # (dropping '#' from IMPORT_END_DELIMETERS is no mutant any more: since 2e9ce22 the text search positions def / class names only, which a comment cannot follow directly)
    ('C11', 'supp/scope.py', r"self\.declared_at = top\.find_id_loc\(fnode\.name, np\(fnode\)\)", "self.declared_at = top.find_id_loc(' ' + fnode.name, np(fnode), 1, False)", 'C11-R3'),
    ('C12', 'supp/project.py', r"return set\(m for m in modules if IDENTIFIER\.match\(m\)\)", "return modules", 'C12-R2'),
    ('C08', 'supp/name.py', r"                try:\n                    attrs\[k\] = RuntimeName\(k, getattr\(self\.value, k, None\)\)\n                except Exception:\n                    # a property of a live object may raise anything\n                    attrs\[k\] = RuntimeName\(k, None\)\n", "                attrs[k] = RuntimeName(k, getattr(self.value, k, None))\n", 'C08-R1'),
    ('C06', 'supp/nast.py', r"        self\.add_attr_targets\(node\.target\)\n", "", 'C06-R4'),
    ('C06', 'supp/scope.py', r"if isinstance\(v, RuntimeName\) and v\.is_builtin and v\.name == 'staticmethod':", "if False:", 'C06-R4'),
    ('C06', 'supp/nast.py', r"            if node\.value:\n                # a bare annotation \(self\.x: int\) assigns nothing\n                self\.top\.add_attr_assign", "            if True:\n                self.top.add_attr_assign", 'C06-R4'),
    ('C11', 'supp/util.py', r"        if not PY2:\n            char_columns\(tree, self\.lines\)\n", "", 'C11-R1'),
    ('C01', 'supp/scope.py', r"                if self\.scope is self\.scope\.top:\n", "                if False:\n", 'C01-R2'),
    ('C01', 'supp/scope.py', r"            for name in star_names\(module\._attrs\):\n", "            for name in [n for n in module._attrs if not n.startswith('_')]:\n", 'C01-R7'),
    ('C16', 'supp/remote.py', r"            prepare_thread = self\.prepare_thread\n            if prepare_thread:\n                prepare_thread\.join\(\)\n\n            try:\n                self\.conn\n", "            try:\n                self.conn\n", 'C16-R5'),
    ('C16', 'supp/remote.py', r"                except \(OSError, EOFError\):\n                    pass  # the server is already gone\n                finally:\n                    self\.conn\.close\(\)\n                    del self\.conn\n", "                except ValueError:\n                    pass\n                self.conn.close()\n                del self.conn\n", 'C16-R5'),
    ('C15', 'supp/server.py', r"except \(Exception, SystemExit\) as e:", "except Exception as e:", 'C15-R2'),
    ('C16', 'supp/remote.py', r"                    self\.proc\.terminate\(\)\n", "", 'C16-R3'),
    ('C12', 'supp/assistant.py', r"        try:\n            # the continuation line of `raise \.\.\. from` / `yield from` parses\n            source\.tree\n        except SyntaxError:\n", "        if True:\n", 'C12-R2'),
    ('C14', 'supp/umsgpack.py', r"    def __hash__\(self\):\n        \"\"\"\n        Provide a hash of this Ext object \(it may be a map key\)\.\n        \"\"\"\n        return hash\(\(self\.type, self\.data\)\)\n\n", "", 'C14-R3'),
    # ---- C02
    ('C02', 'supp/scope.py', r"if len\(self\.parents\) == 1:", "if len(self.parents) >= 1:", 'C02-R4'),
    ('C02', 'supp/nast.py', r"self\.flow = self\.make_flow\('join', \[body, orelse\]\)", "self.flow = self.make_flow('join', [orelse])", 'C02-R1'),
    ('C02', 'supp/linter.py', r"        for n in name\.alt_names:\n            n\.used = True", "        for n in name.alt_names[:1]:\n            n.used = True", 'C02-R2'),
    ('C02', 'supp/nast.py', r"        body_start\.loop\(body\)\n\n        orelse = self\.visit_in_flow\(node\.orelse, self\.make_flow\('for-else'", "\n        orelse = self.visit_in_flow(node.orelse, self.make_flow('for-else'", 'C02-R'),
    ('C02', 'supp/scope.py', r"for p in self\.parents\n                      if p\.names is not UNRESOLVED\]", "for p in self.parents[:2]\n                      if p.names is not UNRESOLVED]", 'C02-R4'),
    ('C02', 'supp/merged_dict.py', r"        for p in self\._dicts:\n            try:\n                return p\[key\]", "        for p in reversed(self._dicts):\n            try:\n                return p[key]", 'C02-R4'),
    # ---- C03
    ('C03', 'supp/nast.py', r"self\.make_flow\('try-else', \[body\]\)", "self.make_flow('try-else', [cur, body])", 'C03-R1'),
    ('C03', 'supp/nast.py', r"eend = get_expr_end\(node\.value\)\n        # the value is evaluated", "eend = np(node)\n        # the value is evaluated", 'C03-R'),
    ('C03', 'supp/scope.py', r"r\.get\(n, UndefinedName\(n\)\)", "r.get(n, None)", 'C03-R2'),
    ('C03', 'supp/scope.py', r"if len\(nrow\) == 1:", "if len(nrow) <= 2:", 'C03-R2'),
    ('C03', 'supp/nast.py', r"self\.make_flow\('else', \[skipped\]\)", "self.make_flow('else', [skipped, body])", 'C03-R1'),
    ('C03', 'supp/scope.py', r"idx = bisect\(self\._names, Location\(loc\)\)", "idx = len(self._names)", 'C03-R2'),
    # ---- C04
    ('C04', 'supp/scope.py', r"        self\._resolving = True\n        loops\.append\(self\)\n        try:\n            result = self\.parent\.names\n        finally:\n            loops\.pop\(\)\n            self\._resolving = False", "        self._resolving = True\n        loops.append(self)\n        result = self.parent.names\n        loops.pop()\n        self._resolving = False", 'C04-R2'),
    # the repaired loop memo (666973c): tables computed during a resolution stored as if they were complete
    ('C04', 'supp/scope.py', r"value = memo\[active\] = func\(self\)", "value = memo[NO_LOOPS] = func(self)", 'C04-R1'),
    # (LoopFlow's `memo[active] = result` -> `memo[NO_LOOPS] = result` is not a mutant here: the table of an inner back edge only adds
    #  what the inner body binds to what the loop entry - which every route passes - already provides, so the union is the same)
    ('C04', 'supp/scope.py', r"        loops\.append\(self\)\n        try:\n            result = self\.parent\.names\n        finally:\n            loops\.pop\(\)\n", "        try:\n            result = self.parent.names\n        finally:\n", 'C04-R1'),
    ('C04', 'supp/scope.py', r"    @region_table\n    def parent_names", "    @cached_property\n    def parent_names", 'C04-R1'),
    # the repaired while test (5f7ee5c)
    ('C01', 'supp/nast.py', r"test_start\.loop\(body\)", "body_start.loop(body)", 'C01-R5'),
    ('C01', 'supp/nast.py', r"self\.make_flow\('while-else', \[skipped\]\)", "self.make_flow('while-else', [cur])", 'C01-R5'),
    ('C09', 'supp/module.py', r"        if not exists\(self\.filename\):[^\n]*\n            return True\n\n", "", 'C09-R5'),
    ('C09', 'supp/module.py', r"        if not exists\(self\.filename\):([^\n]*)\n            return True\n", r"        if not exists(self.filename):\1\n            return False\n", 'C09-R5'),
    ('C05', 'supp/nast.py', r"        if self\.flow\.scope is not self\.top:[^\n]*\n            self\.flow\.scope\.globals\.update", "        if True:\n            self.flow.scope.globals.update", 'C05-R3'),
    # from package import name: attribute first
    ('C06', 'supp/name.py', r"        if value is None and self\.mname:\n            if self\.module\.strip", "        if self.mname:\n            if self.module.strip", 'C06-R3'),
    # positions of import bindings from the alias nodes (2e9ce22)
    ('C11', 'supp/nast.py', r"return alias\.end_lineno, alias\.end_col_offset - len\(alias\.asname\)", "return alias.lineno, alias.end_col_offset - len(alias.asname)", 'C11-R3'),
    ('C11', 'supp/nast.py', r"return alias\.end_lineno, alias\.end_col_offset - len\(alias\.asname\)", "return alias.end_lineno, alias.end_col_offset - len(name) - 1", 'C11-R3'),
    ('C11', 'supp/nast.py', r"        return alias\.end_lineno, alias\.end_col_offset - len\(alias\.asname\)\n\n    return np\(alias\)", "        return alias.end_lineno, alias.end_col_offset - len(alias.asname)\n\n    return start", 'C11-R3'),
    # parent-first module search (a3ea9c8)
    ('C07', 'supp/project.py', r"        path = self\.get_search_path\(name\)\n", "        path = self.get_path()\n", 'C07-R2'),
    ('C07', 'supp/project.py', r"path = self\.get_search_path\(root \+ '\.'\) if root else self\.get_path\(\)", "path = self.get_path()", 'C07-R1'),
    ('C07', 'supp/project.py', r"                    return \[p\]\n", "                    return [p] + [x for x in path if x != p]\n", 'C07-R2'),
    # unnamed buffers and path climbing (relative imports)
    ('C08', 'supp/assistant.py', r"    source = Source\(source, filename, position\)\n    filename = source\.filename\n    ctx", "    source = Source(source, filename, position)\n    ctx", 'C08-R1'),
    ('C08', 'supp/project.py', r"                if parent == root:  # the root directory\n                    break\n", "", 'C08-R4'),
    # the repaired short circuit (e81a976)
    ('C01', 'supp/nast.py', r"self\.make_flow\('boolop', \[exits\[-1\]\]\)", "self.make_flow('boolop', [exits[0]])", 'C01-R5'),
    ('C03', 'supp/nast.py', r"self\.flow = self\.make_flow\('join', exits\)", "self.flow = self.make_flow('join', exits[-1:])", 'C03-R1'),
    ('C03', 'supp/nast.py', r"                return evaluated, self\.flow", "                return self.flow, self.flow", 'C03-R1'),
    ('C03', 'supp/nast.py', r"            return self\.flow, evaluated", "            return evaluated, self.flow", 'C03-R1'),
    ('C04', 'supp/evaluator.py', r"names = node\.flow\.names_at\(np\(node\)\)\n            name = names\.get\(node\.id\)", "names = node.flow.names\n            name = names.get(node.id)", 'C04-R3'),
    ('C04', 'supp/scope.py', r"    @property\n    def names\(self\):\n        # type: \(\) -> t\.Mapping\[str, Name \| MultiName\]\n        return MergedDict\(self\.flow\.names, self\._global_names\)", "    @cached_property\n    def names(self):\n        # type: () -> t.Mapping[str, Name | MultiName]\n        return MergedDict(self.flow.names, self._global_names)", 'C04-R1'),
    ('C04', 'supp/evaluator.py', r"        self\.nodes = set\(\)  # type: set\[t\.Hashable\]", "        self.nodes = set()  # type: set[t.Hashable]\n        self.position = None", 'C04-R4'),
    ('C04', 'supp/evaluator.py', r"            self\.level -= 1\n            self\.nodes\.remove\(node\)\n", "            self.level -= 1\n        self.nodes.remove(node)\n", 'C04-R2'),
    # ---- C05
    ('C05', 'supp/scope.py', r"return self\.parent\.names\n\n    @context_property", "return self.flow.names\n\n    @context_property", 'C05-R3'),
    ('C05', 'supp/scope.py', r"outer_names = set\(snames\)\.difference\(self\.scope\.locals\)", "outer_names = set(snames)", 'C05-R2'),
    ('C05', 'supp/scope.py', r"rerouted = self\.scope\.globals and pscope is not self\.scope\.top", "rerouted = False", 'C05-R3'),
    ('C05', 'supp/scope.py', r"elif name\.name in self\.scope\.nonlocals:", "elif False:", 'C05-R3'),
    ('C05', 'supp/nast.py', r"self\.flow\.scope\.nonlocals\.update\(node\.names\)", "pass", 'C05-R5'),
    ('C05', 'supp/nast.py', r"        for b in node\.bases:\n            self\.visit\(b\)\n(.*?)\n        scope = ClassScope\(cur\.scope, node, top=self\.top\)\n        cur\.add_name\(scope\)([^\n]*)", r"\1\n        scope = ClassScope(cur.scope, node, top=self.top)\n        cur.add_name(scope)\n        self.visit_in_flow(node.bases, scope.flow)", 'C05-R1'),
    ('C05', 'supp/scope.py', r"        if name\.name in self\.scope\.globals:\n            self\.scope\.top\.add_global\(name\)\n", "        if False:\n            self.scope.top.add_global(name)\n", 'C05-R'),
    ('C05', 'supp/scope.py', r"                if isinstance\(self\.scope, ClassScope\):\n                    if not rerouted:", "                if False:\n                    if not rerouted:", 'C05-R2'),
    # ---- C06
    ('C06', 'supp/name.py', r"for b in reversed\(self\.bases\):\n            attrs\.update\(b\._attrs\)", "for b in self.bases:\n            attrs.update(b._attrs)", 'C06-R1'),
    ('C06', 'supp/name.py', r"        attrs\.update\(self\.cls\._attrs\)\n        attrs\.update\(self\._assigned_attrs\)", "        attrs.update(self._assigned_attrs)\n        attrs.update(self.cls._attrs)", 'C06-R1'),
    ('C06', 'supp/scope.py', r"    @context_property\n    def resolve\(self, ctx\):\n        # type: \(EvalCtx\) -> ClassObject", "    def resolve(self, ctx):\n        # type: (EvalCtx) -> ClassObject", 'C06-R4'),
    ('C06', 'supp/evaluator.py', r"        elif node_type is ImportedName:\n            return self\.evaluate\(node\.resolve\(self\)\)\n", "", 'C06-R3'),
    ('C06', 'supp/name.py', r"        attrs\.update\(self\._cls_attrs\)\n        return attrs", "        for k, v in self._cls_attrs.items():\n            attrs.setdefault(k, v)\n        return attrs", 'C06-R1'),
    ('C06', 'supp/scope.py', r"if arg\.idx == \[0\] and isinstance\(self\.parent, ClassScope\):", "if arg.idx == [1] and isinstance(self.parent, ClassScope):", 'C06-R4'),
    # ---- C07
    ('C07', 'supp/project.py', r"return  self\.sources \+ sys\.path", "return sys.path + self.sources", 'C07-R1'),
    ('C07', 'supp/project.py', r"            if filename:\n                break\n", "", 'C07-R2'),
    ('C07', 'supp/project.py', r"raise ImportError\(name\)", "return None", 'C07-R2'),
    ('C07', 'supp/project.py', r"raise ImportError\('Not a package", "raise ValueError('Not a package", 'C07-R4'),
    # (the mutant 'package __init__.py probed before the module suffixes' was only caught by the withdrawn probe-order rule; it differs
    #  from HEAD only where a directory holds mod.py next to mod/, which the property's quantifier excludes - and there importlib prefers the package)
    # ---- C08
    ('C08', 'supp/assistant.py', r"    try:\n        root = project\.norm_package\(root, filename\)\n    except ImportError:\n        return \[\]\n", "    root = project.norm_package(root, filename)\n", 'C08-R1'),
    ('C08', 'supp/name.py', r"(self\.value\(\)\)\n            except )Exception:", r"\1TypeError:", 'C08-R1'),
    ('C08', 'supp/nast.py', r"                if not isinstance\(nn, AstName\):\n                    continue\n                name = nn  # type: ast\.Name # type: ignore\[assignment\]\n                name\.flow = pp", "                name = nn  # type: ast.Name # type: ignore[assignment]\n                name.flow = pp", 'C08-R2'),
    ('C08', 'supp/nast.py', r"        returns = getattr\(self\.flow\.scope, 'returns', None\)\n        if returns is not None:\n            returns\.append\(node\.value\)", "        self.flow.scope.returns.append(node.value)", 'C08-R2'),
    ('C08', 'supp/linter.py', r"getattr\(sname, 'location', None\) == \(0, 0\)", "sname.location == (0, 0)", 'C08-R3'),
    ('C08', 'supp/evaluator.py', r"        if cname and not any\(cname is r for r in result\):", "        if cname:", 'C08-R4'),
    ('C08', 'supp/linter.py', r"    try:\n        source\.tree\n    except SyntaxError as e:\n        return \[\('E01', e\.msg, e\.lineno, e\.offset, None\)\]", "    source.tree", 'C08-R1'),
    ('C08', 'supp/assistant.py', r"    try:\n        location, filename = name\.declared_at, name\.filename\n    except AttributeError:\n        return None", "    location, filename = name.declared_at, name.filename", 'C08-R3'),
    ('C08', 'supp/nast.py', r"        # type: \(ast\.FunctionDef\) -> None\n        self\.visit_type_params\(node\)\n", "        # type: (ast.FunctionDef) -> None\n", 'C08-R3'),
    ('C11', 'supp/assistant.py', r"location, filename = name\.declared_at, name\.filename", "location, filename = name.location, name.filename", 'C11-R2'),
    ('C11', 'supp/assistant.py', r"location = ln, col - len\(SOURCE_MARK\)", "location = ln, col", 'C11-R2'),
    ('C11', 'supp/assistant.py', r"if ln == position\[0\] and col > position\[1\]:", "if col > position[1]:", 'C11-R2'),
    # ---- C09
    ('C09', 'supp/server.py', r"        with self\.project\.check_changes\(\):\n            return assistant\.location", "        if True:\n            return assistant.location", 'C09-R2'),
    ('C09', 'supp/project.py', r"        self\._context_cache\.clear\(\)\n        yield", "        yield", 'C09-R2'),
    ('C09', 'supp/project.py', r"            if m\.changed:\n                del self\._module_cache\[name\]\n            else:\n                self\._context_cache\[name\] = m\n                return m", "            self._context_cache[name] = m\n            return m", 'C09-R'),
    # ---- C10
    ('C10', 'supp/linter.py', r"        if getattr\(name, 'is_star', None\):\n            continue\n", "", 'C10-R1'),
    ('C10', 'supp/linter.py', r"                if name\.module == '__future__':\n                    continue\n", "", 'C10-R1'),
    ('C10', 'supp/linter.py', r"isinstance\(flow\.scope\.parent, ClassScope\)\):\n            continue", "isinstance(flow.scope.parent, ClassScope)):\n            pass", 'C10-R1'),
    ('C10', 'supp/linter.py', r"        if name\.name\.startswith\('_'\):\n            continue\n", "", 'C10-R1'),
    ('C10', 'supp/nast.py', r"qualified = bool\(sep\)", "qualified = True", 'C10-R2'),
    ('C10', 'supp/linter.py', r"                if name\.name in qualified_imports:\n                    continue\n", "", 'C10-R1'),
    ('C10', 'supp/scope.py', r"flow\.add_name\(ImportedName\(name, loc, declared_at, mname, name, True\)\)", "flow.add_name(ImportedName(name, loc, declared_at, mname, name))", 'C10-R2'),
    # ---- C11
    ('C11', 'supp/nast.py', r"fh\.add_name\(AssignedName\(h\.name, get_first_body_node_loc\(h\.body\), np\(h\), h\.type\)\)", "fh.add_name(AssignedName(h.name, get_first_body_node_loc(h.body), np(h.body[0]), h.type))", 'C11-R1'),
    ('C11', 'supp/linter.py', r"name\.declared_at\[0\], name\.declared_at\[1\], flow", "name.location[0], name.location[1], flow", 'C11-R2'),
    ('C11', 'supp/scope.py', r"self\.args\.append\(ArgumentName\(\[ni\], n\.arg, self\.location, np\(n\), self\)\)", "self.args.append(ArgumentName([ni], n.arg, self.location, np(node), self))", 'C11-R1'),
    ('C11', 'supp/nast.py', r"self\.flow\.add_name\(AssignedName\(name\.id, eend, np\(name\), node\.value\)\)\n\n\nextract", "self.flow.add_name(AssignedName(name.id, eend, eend, node.value))\n\n\nextract", 'C11-R1'),

    ('C11', 'supp/nast.py', r"declared_at = alias_loc\(self\.top, a, name, start\)\n            self\.flow\.add_name\(ImportedName\(name, loc, declared_at, iname, None,", "declared_at = start\n            self.flow.add_name(ImportedName(name, loc, declared_at, iname, None,", 'C11-R3'),
    # ---- C12
    ('C12', 'supp/assistant.py', r"proposals = set\(unmark\(n\) if marked\(n\) else n for n in names\)", "proposals = set(names)", 'C12-R3'),
    ('C12', 'supp/assistant.py', r"    proposals\.discard\(''\)\n", "", 'C12-R2'),
    ('C12', 'supp/assistant.py', r"w\*", "w+", 'C12-R1'),
    ('C12', 'supp/assistant.py', r"            return prefix, list_packages\(project, head, filename\)", "            return tail, list_packages(project, head, filename)", 'C12-R1'),
    ('C12', 'supp/assistant.py', r"    return prefix, sorted\(set\(", "    return prefix, list(set(", 'C12-R2'),
    ('C12', 'supp/assistant.py', r"re\.search\(r'\\w\*\$', line\)\.group\(\)", r"re.split(r'(\\.|\\s|\\()', line)[-1]", 'C12-R1'),
    ('C12', 'supp/assistant.py', r"line = source\.lines\[ln - 1\]\[:col\]", "line = source.lines[ln - 1][:col + 1]", 'C12-R1'),
    # ---- C13
    ('C13', 'supp/nast.py', r"body_start\.add_name\(AssignedName\(name\.id, get_first_body_node_loc\(node\.body\), np\(name\), node\.iter\)\)", "body_start.add_name(AssignedName(name.id, (node.lineno + 1, 0), np(name), node.iter))", 'C13-R1'),
    ('C13', 'supp/scope.py', r"self\.location = np\(node\.body\[0\]\)", "self.location = (np(node)[0] + 1, np(node)[1] + 4)", 'C13-R1'),
    ('C13', 'supp/util.py', r"self\.last_loc = node\.lineno, node\.col_offset \+ 1\n        self\.visit\(node\)", "self.last_loc = node.lineno + 1, 0\n        self.visit(node)", 'C13-R1'),
    ('C13', 'supp/util.py', r"return self\.location < other\.location", "return self.location[0] < other.location[0]", 'C13-R2'),
    ('C13', 'supp/linter.py', r"message = 'Unused name: \{\}'", "message = 'Unused name: {} (line ' + str(name.declared_at[0]) + ')'", 'C13-R'),
    ('C13', 'supp/scope.py', r"return body\[0\]\.decorator_list\[0\]\.lineno, body\[0\]\.col_offset", "return body[0].decorator_list[0].lineno, body[0].decorator_list[0].col_offset - 1", 'C13-R1'),
    # ---- C14
    ('C14', 'supp/umsgpack.py', r"elif obj <= 2\*\*16-1:", "elif obj <= 2**16:", 'C14-R1'),
    ('C14', 'supp/umsgpack.py', r'">h", _read_except\(fp, 2\)', '">H", _read_except(fp, 2)', 'C14-R3'),
    ('C14', 'supp/umsgpack.py', r"range\(0xc4, 0xc6\+1\)", "range(0xc4, 0xc5+1)", 'C14-R3'),
    ('C14', 'supp/umsgpack.py', r"return _read_except\(fp, length\)\n\ndef _unpack_ext", "return fp.read(length)\n\ndef _unpack_ext", 'C14-R5'),
    ('C14', 'supp/umsgpack.py', r"if len\(obj\) <= 31:", "if len(obj) <= 32:", 'C14-R1'),
    ('C14', 'supp/umsgpack.py', r"if obj >= -32:", "if obj >= -33:", 'C14-R1'),
    ('C14', 'supp/umsgpack.py', r"if len\(data\) < n:", "if len(data) < n - 1:", 'C14-R5'),
    ('C14', 'supp/umsgpack.py', r"length = ord\(code\) & ~0xe0", "length = ord(code) & ~0xf0", 'C14-R3'),
    ('C14', 'supp/umsgpack.py', r"        else:\n            raise UnsupportedTypeException\(\"huge unsigned int\"\)", "        else:\n            fp.write(b\"\\\\xcf\" + struct.pack(\">Q\", obj % 2**64))", 'C14-R2'),
    ('C14', 'supp/umsgpack.py', r'elif len\(obj\.data\) <= 2\*\*16-1:\n        fp\.write\(b"\\xc8" \+ struct\.pack\(">HB"', 'elif len(obj.data) <= 2**16-1:\n        fp.write(b"\\\\xc8" + struct.pack("<HB"', 'C14-R1'),
    # ---- C15
    ('C15', 'supp/server.py', r"except \(Exception, SystemExit\) as e:  # evaluated code may call sys\.exit\(\)\n            logger\.exception\('%s error', name\)", "except ValueError as e:\n            logger.exception('%s error', name)", 'C15-R2'),
    ('C15', 'supp/server.py', r"assistant\.assist\(self\.project, nstr\(source\), tuple\(position\), filename\)", "assistant.assist(self.project, nstr(source), filename, tuple(position))", 'C15-R1'),
    ('C15', 'supp/server.py', r"                    try:\n                        self\.conn\.send_bytes\(content\)\n                    except:\n                        logger\.exception\('Send error'\)", "                    self.conn.send_bytes(content)", 'C15-R3'),
    ('C15', 'supp/server.py', r"dumps\(\(\('SerializeError', 'Serialize error'\), False\)\)", "dumps((('SerializeError', result), False))", 'C15-R3'),
    ('C15', 'supp/remote.py', r"raise Exception\(result\[1\]\)", "return None", 'C15-R2'),
    ('C15', 'supp/server.py', r"            try:\n                message = str\(e\)\n            except Exception:[^\n]*\n                message = [^\n]*\n", "            message = str(e)\n", 'C15-R2'),
    ('C15', 'supp/server.py', r"return \[r\[:4\] for r in linter", "return [r[:3] for r in linter", 'C15-R1'),
    ('C15', 'supp/remote.py', r"return self\._call\('location', source, position, filename\)", "return self._call('location', source, filename, position)", 'C15-R1'),
    # ---- C16
    ('C16', 'supp/remote.py', r"            if not hasattr\(self, 'conn'\):\n                self\._run\(\)", "            self._run()", 'C16-R'),
    ('C16', 'supp/server.py', r"                except EOFError:\n                    break", "                except EOFError:\n                    continue", 'C16-R6'),
    ('C16', 'supp/server.py', r"                    conn\.close\(\)\n                    break", "                    conn.close()", 'C16-R6'),
    ('C16', 'supp/remote.py', r"                    self\.conn\.close\(\)\n                    del self\.conn", "                    self.conn.close()", 'C16-R5'),
    ('C16', 'supp/remote.py', r"            prepare_thread = self\.prepare_thread\n            if prepare_thread:\n                prepare_thread\.join\(\)", "            if self.prepare_thread:\n                self.prepare_thread.join()", 'C16-R2'),
    ('C16', 'supp/remote.py', r"dumps\(\('close', \(\), \{\}\)\)", "dumps(('quit', (), {}))", 'C16-R5'),
    ('C16', 'supp/remote.py', r"dumps\(\('close', \(\), \{\}\)\)", "dumps(('close', (), {}), 2)", 'C16-R4'),
    ('C16', 'supp/remote.py', r"            if hasattr\(self, 'conn'\):\n                return\n\n            self\.prepare_thread = Thread", "            self.prepare_thread = Thread", 'C16-R3'),
    ('C16', 'supp/remote.py', r"            self\.prepare_thread\.start\(\)", "            self.prepare_thread.daemon = True\n            self.prepare_thread.start()", 'C16-R7'),
    ('C16', 'supp/remote.py', r"            self\.prepare_thread\.start\(\)", "            self.prepare_thread.setDaemon(True)\n            self.prepare_thread.start()", 'C16-R7'),
    # ---- C17
    ('C17', 'supp/evaluator.py', r"for n in node\.valid_names:", "for n in set(node.valid_names):", 'C17-R1'),
    ('C17', 'supp/name.py', r"sorted\(set\(allnames\), key=lambda n: n\.location\)", "list(set(allnames))", 'C17-R'),
    ('C17', 'supp/name.py', r"sorted\(set\(allnames\), key=lambda n: n\.location\)", "sorted(set(allnames), key=id)", 'C17-R'),
    ('C17', 'supp/scope.py', r"return \{k: first_name\(v\)", "return {k: list(set([first_name(v)]))[0]", 'C17-R1'),
    ('C17', 'supp/assistant.py', r"    return sorted\(r for r in project\.list_packages\(root\)\)", "    return list(project.list_packages(root))", 'C17-R'),
    ('C17', 'supp/name.py', r"        return \[it for it in self\.alt_names if type\(it\) is not UndefinedName\]", "        return list({it for it in self.alt_names if type(it) is not UndefinedName})", 'C17-R1'),
]

# behaviour-preserving refactorings: (property list, file, pattern, replacement)
TWINS = [
    # a module loaded during a request is valid for that request: remembering it in the per-request table changes nothing
    # (listed as a mutant until the structural 'writers of _context_cache' rule was replaced by the history model)
    (['C09', 'C04', 'C07'], 'supp/project.py', r"        self\._module_cache\[name\] = module\n        return module",
     "        self._module_cache[name] = module\n        self._context_cache[name] = module\n        return module"),
    (['C01', 'C02', 'C03', 'C05'], 'supp/nast.py',
     r"        body = self\.visit_in_flow\(node\.body, self\.make_flow\('if', \[taken\]\)\)",
     "        if_flow = self.make_flow('if', [taken])\n        body = self.visit_in_flow(node.body, if_flow)"),
    (['C02', 'C03'], 'supp/scope.py',
     r"            pnames = \[p\.names for p in self\.parents\n                      if p\.names is not UNRESOLVED\]  # type: list\[t\.Mapping\[str, Name\]\] # type: ignore\[misc\]",
     "            pnames = []\n            for p in self.parents:\n                pn = p.names\n                if pn is not UNRESOLVED:\n                    pnames.append(pn)"),
    (['C12'], 'supp/assistant.py', r"re\.search\(r'\\w\*\$', line\)\.group\(\)", r"re.search(r'[A-Za-z0-9_]*$', line).group()"),
    (['C14'], 'supp/umsgpack.py', r"        if obj <= 127:\n            fp\.write\(struct\.pack\(\"B\", obj\)\)", "        if obj < 128:\n            fp.write(struct.pack(\"B\", obj))"),
    (['C10'], 'supp/linter.py', r"        if hasattr\(name, 'used'\):\n            continue\n        if name\.name\.startswith\('_'\):\n            continue",
     "        if hasattr(name, 'used') or name.name.startswith('_'):\n            continue"),
    (['C15', 'C16'], 'supp/server.py', r"                if args\[0\] == 'close':\n                    conn\.close\(\)\n                    break\n                else:\n",
     "                if args[0] == 'close':\n                    conn.close()\n                    break\n                if True:\n"),
    (['C07'], 'supp/project.py', r"return  self\.sources \+ sys\.path", "return list(self.sources) + list(sys.path)"),
    (['C17'], 'supp/name.py', r"sorted\(set\(allnames\), key=lambda n: n\.location\)", "sorted(set(allnames))"),
    (['C06'], 'supp/name.py', r"        attrs = \{\}\n        for b in reversed\(self\.bases\):\n            attrs\.update\(b\._attrs\)\n        attrs\.update\(self\._cls_attrs\)\n        return attrs",
     "        attrs = dict(self._cls_attrs)\n        for b in self.bases:\n            for k, v in b._attrs.items():\n                attrs.setdefault(k, v)\n        return attrs"),
    (['C13', 'C11'], 'supp/util.py', r"    return node\.lineno, node\.col_offset\n\n\nSOURCE_MARK", "    return (node.lineno, node.col_offset)\n\n\nSOURCE_MARK"),
]


def _copy(dst):
    shutil.copytree(os.path.join(REPO, 'supp'), os.path.join(dst, 'supp'))
    for s in ('supp-lint', 'supp-find'):
        if os.path.exists(os.path.join(REPO, s)):
            shutil.copy(os.path.join(REPO, s), dst)


def _run(prop, root):
    env = dict(os.environ, SA_REPO=root, SA_EVIDENCE_DIR=os.path.join(root, 'ev'), SA_OUT_DIR=os.path.join(root, 'out'),
               SA_NO_SELFTEST='1')
    p = subprocess.run([os.path.join(VERIF, 'check'), prop, '--tier', 'quick'], capture_output=True, text=True, env=env,
                       timeout=600)
    return p.returncode, p.stdout + p.stderr


def _apply(root, rel, pat, rep):
    path = os.path.join(root, rel)
    s = open(path).read()
    new, n = re.subn(pat, rep, s, count=1, flags=re.S)
    if n != 1:
        return False
    open(path, 'w').write(new)
    try:
        compile(new, rel, 'exec')
    except SyntaxError:
        return None
    return True


def one_mutant(i, m):
    prop, rel, pat, rep, rule = m
    d = tempfile.mkdtemp(prefix='sa-selftest-')
    try:
        _copy(d)
        ok = _apply(d, rel, pat, rep)
        if ok is False:
            return ('STALE', i, m, 'pattern no longer matches the current tree')
        if ok is None:
            return ('BROKEN', i, m, 'mutant does not compile')
        rc, out = _run(prop, d)
        fired = [l for l in out.splitlines() if l.startswith('  ') and rule in l]
        if rc == 1 and fired:
            return ('KILLED', i, m, fired[0].strip()[:160])
        return ('MISSED', i, m, 'exit %d; expected a %s report\n%s' % (rc, rule, out[-600:]))
    finally:
        shutil.rmtree(d, ignore_errors=True)


def one_twin(i, t, prop):
    props, rel, pat, rep = t
    d = tempfile.mkdtemp(prefix='sa-selftest-')
    try:
        _copy(d)
        ok = _apply(d, rel, pat, rep)
        if ok is False:
            return ('STALE', i, (prop,) + tuple(t[1:]), 'pattern no longer matches the current tree')
        if ok is None:
            return ('BROKEN', i, (prop,) + tuple(t[1:]), 'twin does not compile')
        rc, out = _run(prop, d)
        if rc == 1:
            return ('FALSE-ALARM', i, (prop,) + tuple(t[1:]), out[-600:])
        return ('QUIET' if rc == 0 else 'UNRECOGNISED', i, (prop,) + tuple(t[1:]), 'exit %d' % rc)
    finally:
        shutil.rmtree(d, ignore_errors=True)


def one_seed(slug):
    """A kept, independently produced breaking change (seeded/<slug>): the named property's check must fire."""
    import json
    sd = os.path.join(VERIF, 'seeded', slug)
    meta = json.load(open(os.path.join(sd, 'meta.json')))
    prop = meta['property']
    d = tempfile.mkdtemp(prefix='sa-selftest-')
    try:
        _copy(d)
        p = subprocess.run(['patch', '-p1', '-s', '-d', d, '-i', os.path.join(sd, 'patch.diff')], capture_output=True, text=True)
        if p.returncode != 0:
            return ('STALE', slug, (prop, 'seeded/' + slug, 'patch.diff'), 'patch no longer applies: %s' % p.stdout[-200:])
        checks = meta.get('check_properties') or [prop]
        outs = []
        for c in checks:
            rc, out = _run(c, d)
            outs.append((c, rc))
            if rc == 1:
                return ('KILLED', slug, (prop, 'seeded/' + slug, 'patch.diff'), 'caught by %s' % c)
        if meta.get('expect') in ('not-caught', 'exit-2'):
            # a kept change this family, as built, does not decide (recorded in DESIGN 8.5): listed, not a failure of the self-test
            return ('UNDETECTED', slug, (prop, 'seeded/' + slug, 'patch.diff'), 'recorded as %s: %s' % (meta['expect'], outs))
        return ('MISSED', slug, (prop, 'seeded/' + slug, 'patch.diff'), 'no check fired: %s' % outs)
    finally:
        shutil.rmtree(d, ignore_errors=True)


FILE_PROPS = {
    'supp/linter.py': ['C01', 'C02', 'C08', 'C10', 'C11', 'C13'],
    'supp/assistant.py': ['C01', 'C06', 'C08', 'C11', 'C12', 'C17'],
    'supp/evaluator.py': ['C02', 'C04', 'C06', 'C08', 'C17'],
    'supp/name.py': ['C02', 'C04', 'C06', 'C08', 'C09', 'C10', 'C17'],
    'supp/scope.py': ['C01', 'C02', 'C03', 'C04', 'C05', 'C06', 'C08', 'C10', 'C11', 'C13'],
    'supp/nast.py': ['C01', 'C02', 'C03', 'C05', 'C08', 'C10', 'C11', 'C13'],
    'supp/project.py': ['C04', 'C07', 'C09'],
    'supp/module.py': ['C04', 'C07', 'C09'],
    'supp/server.py': ['C15', 'C16'],
    'supp/remote.py': ['C15', 'C16'],
    'supp/umsgpack.py': ['C14'],
    'supp/util.py': ['C03', 'C07', 'C11', 'C12', 'C13'],
    'supp/merged_dict.py': ['C01', 'C12'],
}


def twin_dirs():
    """twins/<name>/patch.diff: behaviour-preserving refactorings written by independent agents; -> [(name, props)]"""
    out = []
    tdir = os.path.join(VERIF, 'twins')
    if not os.path.isdir(tdir):
        return out
    for name in sorted(os.listdir(tdir)):
        pf = os.path.join(tdir, name, 'patch.diff')
        if not os.path.exists(pf):
            continue
        props = set()
        for line in open(pf):
            if line.startswith('+++ b/'):
                props.update(FILE_PROPS.get(line[6:].strip(), []))
        out.append((name, sorted(props)))
    return out


def one_twin_diff(name, prop):
    d = tempfile.mkdtemp(prefix='sa-selftest-')
    label = (prop, 'twins/' + name, 'patch.diff')
    try:
        _copy(d)
        p = subprocess.run(['patch', '-p1', '-s', '-d', d, '-i', os.path.join(VERIF, 'twins', name, 'patch.diff')],
                           capture_output=True, text=True)
        if p.returncode != 0:
            return ('STALE', name, label, 'patch no longer applies')
        rc, out = _run(prop, d)
        if rc == 1:
            return ('FALSE-ALARM', name, label, out[-600:])
        return ('QUIET' if rc == 0 else 'UNRECOGNISED', name, label, 'exit %d' % rc)
    finally:
        shutil.rmtree(d, ignore_errors=True)


def run_for(prop=None, verbose=True):
    """Exit code 0 when every mutant of `prop` (all when None) is killed and no twin raises an alarm."""
    jobs = []
    with concurrent.futures.ThreadPoolExecutor(max_workers=16) as ex:
        for i, m in enumerate(MUTANTS):
            if prop is None or m[0] == prop:
                jobs.append(ex.submit(one_mutant, i, m))
        for i, t in enumerate(TWINS):
            for p in t[0]:
                if prop is None or p == prop:
                    jobs.append(ex.submit(one_twin, i, t, p))
        for name, props in twin_dirs():
            for p in props:
                if prop is None or p == prop:
                    jobs.append(ex.submit(one_twin_diff, name, p))
        sdir = os.path.join(VERIF, 'seeded')
        if os.path.isdir(sdir):
            import json
            for slug in sorted(os.listdir(sdir)):
                mp = os.path.join(sdir, slug, 'meta.json')
                if os.path.exists(mp):
                    mprop = json.load(open(mp))['property']
                    if prop is None or mprop == prop:
                        jobs.append(ex.submit(one_seed, slug))
        results = [j.result() for j in jobs]
    bad = [r for r in results if r[0] in ('MISSED', 'FALSE-ALARM', 'BROKEN')]
    stale = [r for r in results if r[0] == 'STALE']
    killed = sum(1 for r in results if r[0] == 'KILLED')
    quiet = sum(1 for r in results if r[0] == 'QUIET')
    unrec = [r for r in results if r[0] == 'UNRECOGNISED']
    if verbose:
        print('selftest %s: %d mutants killed, %d twins quiet, %d twins not analysable (exit 2), %d stale, %d failures'
              % (prop or 'all', killed, quiet, len(unrec), len(stale), len(bad)))
        for r in unrec:
            print('  NOT-ANALYSABLE %s %s' % (r[2][0], r[2][1]))
        for r in [x for x in results if x[0] == 'UNDETECTED']:
            print('  UNDETECTED %s %s: %s' % (r[2][0], r[2][1], r[3][:90]))
        for r in stale:
            print('  STALE %s %s: %s' % (r[2][0], r[2][1], r[2][2][:60]))
        for r in bad:
            print('  %s %s %s: %s\n    %s' % (r[0], r[2][0], r[2][1], r[2][2][:70], r[3].replace('\n', '\n    ')))
    if bad:
        print('ANALYSIS-ERROR selftest failed: the checker misses a seeded defect or alarms on a refactoring')
        return 2
    return 0


if __name__ == '__main__':
    sys.exit(run_for(sys.argv[1] if len(sys.argv) > 1 else None))
