"""Reference tables written from the Python language reference (and
symtable.c), restricted to the domains the properties state.  Nothing here is
read from supp.  All functions take a shape root (sa.absint.SymNode built by
sa.e1.ShapeBuilder) and return access paths of that shape.

T1  evaluation scope of every expression-bearing grammar path
T2  binders: which grammar position binds a name, in which scope, which sibling
    expressions Python evaluates before / after the binding
T3  block-level control flow of the compound statements (predecessor lists)
T4  position provenance of each binder's identifier
"""
from .absint import SymNode
from . import grammar as G

NEW_SCOPE = {'FunctionDef': 'body', 'AsyncFunctionDef': 'body', 'Lambda': 'body', 'ClassDef': 'body'}
# Language reference 8.7 / 6.14 / 8.8: decorators, defaults, annotations, bases and
# keywords are evaluated in the scope containing the definition.

# grammar paths that Python syntax cannot populate
UNPOPULATED = {
    ('Lambda', 'annotation'): 'lambda parameters cannot carry annotations (grammar: lambda_param has no annotation)',
}


# expression positions in which no binding can be made that outlives the expression:
# the compiler rejects assignment expressions anywhere inside a comprehension iterable
# (symtable.c: "assignment expression cannot be used in a comprehension iterable expression"),
# and comprehension variables are local to the comprehension.
NO_ESCAPING_BINDING = {
    'generators[*].iter': 'walrus is a SyntaxError inside a comprehension iterable expression',
}


def children(node):
    """(field, index or None, value) in textual order for SymNode children."""
    out = []
    if node.cls is None or node.cls not in G.NODE_FIELDS:
        return out
    for fname in G.textual_fields(node.cls):
        v = node.fields.get(fname)
        if isinstance(v, list):
            for i, x in enumerate(v):
                if isinstance(x, SymNode):
                    out.append((fname, i, x))
        elif isinstance(v, SymNode):
            out.append((fname, None, v))
    return out


def leaves(node, under=None):
    """Opaque expr/stmt leaves below node (inclusive), textual order."""
    if isinstance(node, list):
        out = []
        for x in node:
            if isinstance(x, SymNode):
                out.extend(leaves(x))
        return out
    if node is None:
        return []
    if node.cls is None:
        return [node] if node.sort in ('expr', 'stmt') else []
    if getattr(node, 'nested_scope', False):
        return []
    out = []
    for _, _, c in children(node):
        out.extend(leaves(c))
    return out


def target_names(t):
    """Name nodes bound by an assignment target (through Tuple/List/Starred)."""
    if isinstance(t, list):
        out = []
        for x in t:
            out.extend(target_names(x))
        return out
    if t is None:
        return []
    if t.cls == 'Name':
        return [t]
    if t.cls in ('Tuple', 'List'):
        return target_names(t.fields['elts'])
    if t.cls == 'Starred':
        return target_names(t.fields['value'])
    return []


def read_slots(root):
    """T1: every opaque leaf with the scope it is evaluated in ('cur' or 'new')
    and the reason when the grammar position cannot be populated."""
    out = []
    body_field = NEW_SCOPE.get(root.cls)
    for fname, idx, c in children(root):
        scope = 'new' if fname == body_field else 'cur'
        for lf in leaves(c):
            skip = None
            if root.cls == 'Lambda' and lf.path.endswith('.annotation'):
                skip = UNPOPULATED[('Lambda', 'annotation')]
            out.append((lf, scope, skip))
    return out


def pathkey(root, path):
    """Textual-order key of an access path inside the shape."""
    assert path.startswith('node'), path
    rest = path[4:]
    key = []
    cur = root
    while rest:
        assert rest[0] == '.', path
        rest = rest[1:]
        j = 0
        while j < len(rest) and (rest[j].isalnum() or rest[j] == '_'):
            j += 1
        fname = rest[:j]
        rest = rest[j:]
        idx = 0
        if rest.startswith('['):
            k = rest.index(']')
            idx = int(rest[1:k])
            rest = rest[k + 1:]
        order = G.textual_fields(cur.cls) if cur is not None and cur.cls in G.NODE_FIELDS else []
        rank = order.index(fname) if fname in order else 50
        key.append((rank, idx))
        nxt = cur.fields.get(fname) if cur is not None and cur.cls else None
        if isinstance(nxt, list):
            nxt = nxt[idx] if idx < len(nxt) else None
        cur = nxt if isinstance(nxt, SymNode) else None
    return tuple(key)


AFTER_ALL = ((9999, 0),)


def binders(root):
    """T2.  Each binder: dict(ident, path (of the identifier-bearing node), kind, scope,
    before=[leaf paths evaluated before the binding, same scope],
    after=[leaf paths evaluated after the binding where it must be visible],
    reaches_after=bool, own_node=node whose start is the identifier's position or None)."""
    c = root.cls
    f = root.fields
    out = []

    def b(ident, node, kind, scope='cur', before=(), after=(), reaches_after=True, own=None, note=None):
        out.append({'ident': str(ident), 'ident_path': getattr(ident, 'path', None), 'node': node,
                    'kind': kind, 'scope': scope, 'before': [x.path for x in before],
                    'after': [x.path for x in after], 'reaches_after': reaches_after,
                    'own': own, 'note': note})

    if c == 'Assign':
        for n in target_names(f['targets']):
            b(n.fields['id'], n, 'assign', before=leaves(f['value']), own=n)
    elif c == 'AnnAssign':
        if f.get('value') is not None:
            for n in target_names(f['target']):
                b(n.fields['id'], n, 'assign', before=leaves(f['value']), own=n)
    elif c == 'NamedExpr':
        n = f['target']
        b(n.fields['id'], n, 'walrus', before=leaves(f['value']), own=n)
    elif c in ('For', 'AsyncFor'):
        for n in target_names(f['target']):
            b(n.fields['id'], n, 'for', before=leaves(f['iter']), after=leaves(f['body']) + leaves(f['orelse']), own=n)
    elif c in ('With', 'AsyncWith'):
        items = f['items']
        for i, it in enumerate(items):
            before = []
            for j in range(i + 1):
                before.extend(leaves(items[j].fields['context_expr']))
            after = []
            for j in range(i + 1, len(items)):
                after.extend(leaves(items[j].fields['context_expr']))
                after.extend(leaves(items[j].fields.get('optional_vars')))
            after.extend(leaves(f['body']))
            for n in target_names(it.fields.get('optional_vars')):
                b(n.fields['id'], n, 'with', before=before, after=after, own=n)
    elif c == 'Try':
        for h in f['handlers']:
            if h.fields.get('name') is not None:
                b(h.fields['name'], h, 'except', before=leaves(h.fields.get('type')),
                  after=leaves(h.fields['body']), reaches_after=False, own=h)
    elif c in ('ListComp', 'SetComp', 'GeneratorExp', 'DictComp'):
        gens = f['generators']
        tail = []
        for k in ('elt', 'key', 'value'):
            if k in f:
                tail.extend(leaves(f[k]))
        for i, g in enumerate(gens):
            after = leaves(g.fields['ifs'])
            for j in range(i + 1, len(gens)):
                after.extend(leaves(gens[j].fields['iter']))
                after.extend(leaves(gens[j].fields['ifs']))
            after.extend(tail)
            before = leaves(gens[0].fields['iter']) if i == 0 else []
            for n in target_names(g.fields['target']):
                b(n.fields['id'], n, 'comprehension', before=before, after=after, reaches_after=False, own=n)
    elif c in ('FunctionDef', 'AsyncFunctionDef', 'Lambda'):
        a = f['args']
        body = f['body']
        params = (list(a.fields['posonlyargs']) + list(a.fields['args']) +
                  ([a.fields['vararg']] if a.fields['vararg'] else []) +
                  list(a.fields['kwonlyargs']) + ([a.fields['kwarg']] if a.fields['kwarg'] else []))
        for p in params:
            kind = 'posonly' if p in a.fields['posonlyargs'] else 'param'
            b(p.fields['arg'], p, kind, scope='new', after=leaves(body), reaches_after=False, own=p)
        if c != 'Lambda':
            # decorators, default values and annotations are evaluated in the enclosing scope before the name is (re)bound
            before = leaves(f['decorator_list']) + leaves(a.fields['defaults']) + leaves([d for d in a.fields['kw_defaults'] if d is not None])
            for p in params:
                before.extend(leaves(p.fields.get('annotation')))
            before.extend(leaves(f.get('returns')))
            b(f['name'], root, 'def', before=before, own=None)
    elif c == 'ClassDef':
        before = leaves(f['decorator_list']) + leaves(f['bases']) + leaves([k.fields['value'] for k in f['keywords']])
        b(f['name'], root, 'class', before=before, own=None)
    elif c == 'Import':
        for al in f['names']:
            name = al.fields['asname'] or al.fields['name'].partition('.')[0]
            b(name, al, 'import', own=None, note='asname' if al.fields['asname'] else 'name')
    elif c == 'ImportFrom':
        for al in f['names']:
            if str(al.fields['name']) == '*':
                continue
            name = al.fields['asname'] or al.fields['name']
            b(name, al, 'from-import', own=None, note='asname' if al.fields['asname'] else 'name')
    return out


def declarations(root):
    if root.cls in ('Global', 'Nonlocal'):
        return [(root.cls.lower(), [str(x) for x in root.fields['names']])]
    return []


# ---------------------------------------------------------------------------
# T3 block-level control flow.  Blocks are named by the field path of the block's
# first element ("node.body", "node.handlers[0].body", "node.test"...).
# Domain of C02/C03: loops left only by exhaustion, exceptions only at the first or
# last statement of a try body and always caught.
# ---------------------------------------------------------------------------

def block_cfg(root):
    """-> (blocks: {name: [leaf nodes]}, preds: {name: set(names)}) with the
    distinguished names 'pre' and 'after'.  Empty blocks are skipped (their preds
    are forwarded).  Returns None for constructs without internal control flow."""
    c = root.cls
    f = root.fields
    blocks = {}
    edges = []    # (from, to)

    def blk(name, value):
        lv = leaves(value)
        blocks[name] = lv
        return name

    def test_blocks(test, true_to, false_to, entry='pre', made=None):
        """Blocks and edges of a condition.  A short-circuit chain (a real BoolOp node) is one block per operand: under `and` a
        false operand leaves to the false exit, the last true one to the true exit; under `or` the other way round."""
        if test is not None and test.cls == 'BoolOp' and getattr(test.fields.get('op'), 'cls', None) in ('And', 'Or'):
            is_and = test.fields['op'].cls == 'And'
            names = [blk('%s.values[%d]' % (test.path, i), v) for i, v in enumerate(test.fields['values'])]
            if made is not None:
                made.extend(names)
            edges.append((entry, names[0]))
            for i, nm in enumerate(names):
                last = i == len(names) - 1
                edges.append((nm, false_to if is_and else true_to))
                edges.append((nm, names[i + 1]) if not last else (nm, true_to if is_and else false_to))
            return names[0]
        t = blk(test.path if test is not None else 'node.test', test)
        if made is not None:
            made.append(t)
        edges.extend([(entry, t), (t, true_to), (t, false_to)])
        return t

    if c == 'If':
        bd = blk('node.body', f['body'])
        el = blk('node.orelse', f['orelse'])
        test_blocks(f['test'], bd, el)
        edges += [(bd, 'after'), (el, 'after')]
    elif c in ('For', 'AsyncFor'):
        it = blk('node.iter', f['iter'])
        bd = blk('node.body', f['body'])
        el = blk('node.orelse', f['orelse'])
        edges += [('pre', it), (it, bd), (bd, bd), (it, el), (bd, el), (el, 'after')]
    elif c == 'While':
        bd = blk('node.body', f['body'])
        el = blk('node.orelse', f['orelse'])
        t0 = test_blocks(f['test'], bd, el)
        edges += [(bd, t0), (el, 'after')]
    elif c == 'Try' and f['body'] and f['body'][-1].cls == 'If' and f['body'][-1].fields['body'] \
            and f['body'][-1].fields['body'][-1].cls == 'Raise' and not f['body'][-1].fields['orelse']:
        # try: S0; if c: S1; raise E  -  the statements of the branch before the raise, and its expression, hand control to the
        # handlers like every other statement of the try body; when the test fails the try body ends normally
        ifn = f['body'][-1]
        bd = blk('node.body[0]', f['body'][:-1])
        ib = blk(ifn.path + '.body[0]', ifn.fields['body'][:-1])
        esc = blk(ifn.fields['body'][-1].path, ifn.fields['body'][-1])
        el = blk('node.orelse', f['orelse'])
        fin = blk('node.finalbody', f['finalbody'])
        tests = []
        test_blocks(ifn.fields['test'], ib, el, entry=bd, made=tests)
        edges += [('pre', bd), (ib, esc), (el, fin), (esc, fin), (fin, 'after')]
        prev_type = None
        for i, h in enumerate(f['handlers']):
            ty = blk('node.handlers[%d].type' % i, h.fields.get('type'))
            hb = blk('node.handlers[%d].body' % i, h.fields['body'])
            if prev_type is None:
                edges += [('pre', ty), (bd, ty), (ib, ty), (esc, ty)] + [(t_, ty) for t_ in tests]
            else:
                edges += [(prev_type, ty)]
            edges += [(ty, hb), (hb, fin)]
            prev_type = ty
    elif c == 'Try' and f['body'] and f['body'][-1].cls in ('Return', 'Raise'):
        # try: S...; return E  -  every statement before the escaping one, and its expression, can hand control to the
        # handlers (exception) and to the finally block; the else block is never reached
        bd = blk('node.body[0]', f['body'][:-1])
        esc = blk('node.body[%d]' % (len(f['body']) - 1), f['body'][-1])
        fin = blk('node.finalbody', f['finalbody'])
        # (an exception that no handler catches is outside the domain of C02 / C03: the finally block is reached through the
        # escaping statement or through a handler, which is all the may-reach relation needs)
        edges += [('pre', bd), (bd, esc), (esc, fin), (fin, 'after')]
        prev_type = None
        for i, h in enumerate(f['handlers']):
            ty = blk('node.handlers[%d].type' % i, h.fields.get('type'))
            hb = blk('node.handlers[%d].body' % i, h.fields['body'])
            if prev_type is None:
                edges += [('pre', ty), (bd, ty), (esc, ty)]
            else:
                edges += [(prev_type, ty)]
            edges += [(ty, hb), (hb, fin)]
            prev_type = ty
    elif c == 'Try':
        bd = blk('node.body', f['body'])
        el = blk('node.orelse', f['orelse'])
        fin = blk('node.finalbody', f['finalbody'])
        edges += [('pre', bd), (bd, el), (el, fin), (fin, 'after')]
        prev_type = None
        for i, h in enumerate(f['handlers']):
            ty = blk('node.handlers[%d].type' % i, h.fields.get('type'))
            hb = blk('node.handlers[%d].body' % i, h.fields['body'])
            if prev_type is None:
                edges += [('pre', ty), (bd, ty)]
            else:
                edges += [(prev_type, ty)]
            edges += [(ty, hb), (hb, fin)]
            prev_type = ty
    elif c in ('With', 'AsyncWith'):
        prev = 'pre'
        for i, it in enumerate(f['items']):
            cx = blk('node.items[%d].context_expr' % i, it.fields['context_expr'])
            edges.append((prev, cx))
            prev = cx
        bd = blk('node.body', f['body'])
        edges += [(prev, bd), (bd, 'after')]
    elif c == 'IfExp':
        bd = blk('node.body', f['body'])
        el = blk('node.orelse', f['orelse'])
        test_blocks(f['test'], bd, el)
        edges += [(bd, 'after'), (el, 'after')]
    elif c == 'BoolOp':
        prev = 'pre'
        for i, v in enumerate(f['values']):
            nm = blk('node.values[%d]' % i, v)
            edges.append((prev, nm))
            edges.append((nm, 'after'))
            prev = nm
    else:
        return None
    # forward edges through empty blocks
    names = [n for n, lv in blocks.items() if lv]
    empty = {n for n, lv in blocks.items() if not lv}
    preds = {n: set() for n in names + ['after']}
    succ = {}
    for a, b_ in edges:
        succ.setdefault(a, set()).add(b_)

    def targets(a, seen):
        out = set()
        for t in succ.get(a, ()):
            if t in empty:
                if t not in seen:
                    out |= targets(t, seen | {t})
            else:
                out.add(t)
        return out
    for a in ['pre'] + names:
        for t in targets(a, set()):
            preds[t].add(a)
    return {n: blocks[n] for n in names}, preds


# T4 position provenance: binder kinds whose identifier start is given by the parser
PARSER_POSITIONED = ('assign', 'walrus', 'for', 'with', 'comprehension', 'param', 'posonly', 'except')
TEXT_SEARCHED = ('def', 'class', 'import', 'from-import')
