"""Text-searched positions (C11-R3): import aliases, def and class names have no ast node of their own; the extractor finds
them with SourceScope.find_id_loc.  The *call shape* (search string, start, shift, delimiter mode, any further bound) is taken
from the visitor summaries (E1); supp's find_id_loc itself is then abstractly interpreted with that shape on the statements of
a layout corpus (parsed by the checker with the stdlib ast - the corpus is ours, not supp's), and the text at the position it
returns must be the bound identifier."""
import ast

from .core import AnalysisError
from .facts import get_facts
from .absint import Interp, Obj, LocExpr, LocPart, InterpRaise, Uninterpretable, SymPos
from . import rules_e1 as R

SCOPE = 'supp/scope.py'

# (source, {identifier bound by a text-searched binder}) - layouts named in the property's quantifier
CORPUS = [
    ("import os.path as osp, sys as system\n", ['osp', 'system']),
    ("import os, sys\n", ['os', 'sys']),
    ("import os.path\n", ['os']),
    ("from os import (sep,\n    curdir as cd,\n    pardir)\n", ['sep', 'cd', 'pardir']),
    ("from os import (sep, curdir as\n                cd)\n", ['sep', 'cd']),
    ("import os.path as \\\n    osp\n", ['osp']),
    ("import json_tool, json\n", ['json_tool', 'json']),
    ("x = 1; import os as o, sys\n", ['o', 'sys']),
    ("def f():\n    import  os   as    operating\n    return operating\n", ['operating', 'f']),
    ("from collections import (OrderedDict\n        as OD, defaultdict\n        as dd)\n", ['OD', 'dd']),
    ("from . import sibling, other as oth\n", ['sibling', 'oth']),
    ("def  alpha (x): pass\n", ['alpha']),
    ("async def beta(): pass\n", ['beta']),
    ("@dec(' gamma', gamma_help=1)\ndef gamma(): pass\n", ['gamma']),
    ("class \\\n    Delta(object): pass\n", ['Delta']),
    ("@skip('see theta_force now, class Iota_x')\ndef theta(): pass\n", ['theta']),
    ("@register(' Iota_x', 1)\nclass Iota(Base): pass\n", ['Iota']),
    ("if 1: x = 1\nclass   Eps  : pass\n", ['Eps']),
    ("@a\n@b\nasync   def  zeta(): pass\n", ['zeta']),
    ("class Outer:\n    @staticmethod\n    def inner(classy): pass\n", ['Outer', 'inner']),
    ("def definer(): pass\n", ['definer']),
    # a form feed (page separator) is white space for the parser, not a line boundary
    ("x = 1\n\x0c\nimport os as operating\ndef paged(): pass\n", ['operating', 'paged']),
    ("first = 1\r\nimport os as crlf\r\n", ['crlf']),
    ("first = 1\r\n\r\nclass Crlf: pass\r\ndef crlf_f(): pass\r\n", ['Crlf', 'crlf_f']),
    ("class classic: pass\n", ['classic']),
    # any white space separates the keyword from the name
    ("def\ttabbed(): pass\n", ['tabbed']),
    ("class\tTabbed: pass\n", ['Tabbed']),
    ("def \\\n    continued(): pass\n", ['continued']),
    # ... and the continuation line may start with the name (column 0)
    ("def \\\nflush(): pass\n", ['flush']),
    ("class \\\nLeft(object): pass\n", ['Left']),
    ("def recur(): pass\nasync def \\\nrecur(): return recur()\n", ['recur']),
    # names that are a prefix of a keyword standing in front of them
    ("async def d(): pass\n", ['d']),
    ("async def de(): pass\n", ['de']),
    ("class c: pass\n", ['c']),
    ("def d(): pass\n", ['d']),
    ("async def a(): pass\n", ['a']),
    # what may follow the last imported name on its line
    ("import os#c\n", ['os']),
    ("import os;import sys\n", ['os', 'sys']),
    ("from os import sep#, altsep\n", ['sep']),
    ("from os import (sep,\\\n  altsep)\n", ['sep', 'altsep']),
    ("import os as o#x\nimport sys\\\n  as s\n", ['o', 's']),
    # the bound identifier also occurs earlier in the statement: the position is that of the binding occurrence
    ("from b import b\n", ['b']),
    ("import a.b as a\n", ['a']),
    ("from os import path as os\n", ['os']),
    ("import x as y, y as x\n", ['y', 'x']),
    # a long parenthesised import: the names beyond any fixed window of lines
    ("from m import (\n" + "".join("    n%d,\n" % i for i in range(60)) + ")\n", ['n0', 'n49', 'n50', 'n59']),
]


def _last_visited(node):
    """get_expr_end's anchor (decided separately by sa/exprend.py): the last node with a position in generic_visit order."""
    last = [node]

    def walk(n):
        if hasattr(n, 'lineno'):
            last[0] = n
        for c in ast.iter_child_nodes(n):
            walk(c)
    walk(node)
    return last[0]


def _resolve_path(stmt, path):
    """'node.names[0]' -> the ast object"""
    cur = stmt
    import re
    for fname, idx in re.findall(r'\.(\w+)(?:\[(\d+)\])?', path[4:]):
        cur = getattr(cur, fname)
        if idx != '':
            cur = cur[int(idx)]
    return cur


def _concrete(v, stmt, alias_index):
    """Evaluate an E1 symbolic argument on the concrete statement."""
    if isinstance(v, (int, bool, str)) or v is None:
        return v
    if isinstance(v, LocPart):
        loc = _concrete(v.loc, stmt, alias_index)
        return loc[v.index]
    if isinstance(v, LocExpr):
        path = _generalise(v.path, alias_index)
        n = _resolve_path(stmt, path)
        if v.kind == 'expr_end':
            lv = _last_visited(n)
            return (lv.lineno, lv.col_offset + 1)
        raise AnalysisError('text search bounded by a %s location' % v.kind)
    if isinstance(v, tuple) and len(v) == 2 and all(isinstance(x, SymPos) for x in v):
        return (_concrete(v[0], stmt, alias_index), _concrete(v[1], stmt, alias_index))
    if isinstance(v, SymPos):
        n = _resolve_path(stmt, _generalise(v.path, alias_index))
        base = getattr(n, {'line': 'lineno', 'col': 'col_offset', 'end_line': 'end_lineno', 'end_col': 'end_col_offset'}[v.part])
        for sign, ipath in v.lens:
            ident = _resolve_path(stmt, _generalise(ipath, alias_index))
            if not isinstance(ident, str):
                raise AnalysisError('length of %s is not the length of an identifier of the statement' % ipath)
            base += sign * len(ident)
        return base + v.delta
    raise AnalysisError('text search argument %r cannot be evaluated on a concrete statement' % (v,))


def search_helpers(repo):
    """The identifier text search(es) of supp: methods of SourceScope or Source whose first parameter is handed to a str.find call.
    -> [(rel, class name, method name, node)]"""
    def build():
        out = []
        for rel, cname in (('supp/scope.py', 'SourceScope'), ('supp/util.py', 'Source')):
            for cls in ast.walk(repo.tree(rel)):
                if not (isinstance(cls, ast.ClassDef) and cls.name == cname):
                    continue
                for fn in cls.body:
                    if not isinstance(fn, ast.FunctionDef) or len(fn.args.args) < 3:
                        continue
                    first = fn.args.args[1].arg
                    for c in ast.walk(fn):
                        if isinstance(c, ast.Call) and isinstance(c.func, ast.Attribute) and c.func.attr in ('find', 'index', 'rfind') \
                                and c.args and isinstance(c.args[0], ast.Name) and c.args[0].id == first:
                            out.append((rel, cname, fn.name, fn))
                            break
        if not out:
            raise AnalysisError('no identifier text search (a method of SourceScope or Source handing its first parameter to str.find) '
                                'was found: the anchor of the text-searched positions vanished')
        return out
    return repo.memo('search-helpers', build)


def _generalise(path, alias_index):
    import re
    return re.sub(r'names\[\d+\]', 'names[%d]' % alias_index, path)


def call_shapes(repo):
    """-> {kind: set of (prefix, start path, shift, delims, extras)} from the visitor summaries"""
    shapes = {}
    for (cls, kind, path), r in R.binder_records(repo).items():
        if kind not in ('import', 'from-import', 'def', 'class'):
            continue
        for s, bp, binder, b in r['binds']:
            loc = b.get('declared_at')
            if isinstance(loc, tuple) and len(loc) == 2 and all(isinstance(x, SymPos) for x in loc):
                # a position computed from parser positions (and identifier lengths): evaluated on the corpus as it stands
                shapes.setdefault(kind, set()).add(('pos', loc, binder.get('note')))
                continue
            if not (isinstance(loc, LocExpr) and loc.kind == 'text_search' and loc.extra):
                shapes.setdefault(kind, set()).add(None)
                continue
            ident, ipath, shift, delims, extras = (loc.extra + ((),))[:5]
            helper = loc.extra[5] if len(loc.extra) > 5 else ('SourceScope', 'find_id_loc')
            name = binder['ident']
            if name not in ident:
                shapes.setdefault(kind, set()).add(None)
                continue
            prefix, _, suffix = ident.partition(name)
            shapes.setdefault(kind, set()).add((prefix, suffix, loc.path, shift, delims, tuple((k, v) for k, v in extras), helper))
    return shapes


def binding_position(src, stmt, idx, name):
    """Where the identifier that introduces the binding stands (the checker's own parse, ASCII corpus): an alias ends with its
    as-name and starts with the first component of the imported name; the name of a def / class is the first NAME token after
    the keyword."""
    if isinstance(stmt, (ast.Import, ast.ImportFrom)):
        al = stmt.names[idx]
        if al.asname:
            return (al.end_lineno, al.end_col_offset - len(al.asname))
        return (al.lineno, al.col_offset)
    import io, tokenize
    lines = src.replace('\r\n', '\n').replace('\r', '\n').replace('\x0c', ' ')
    kw = 'class' if isinstance(stmt, ast.ClassDef) else 'def'
    seen_kw = False
    for t in tokenize.generate_tokens(io.StringIO(lines).readline):
        if t.start < (stmt.lineno, stmt.col_offset):
            continue
        if t.type == tokenize.NAME and t.string == kw and not seen_kw:
            seen_kw = True
            continue
        if seen_kw and t.type == tokenize.NAME:
            return t.start if t.string == name else None
    return None


def _names(lines, got, name):
    """the text at `got` is the whole identifier `name`"""
    return isinstance(got, tuple) and len(got) == 2 and all(isinstance(x, int) for x in got) and 1 <= got[0] <= len(lines) \
        and got[1] >= 0 and lines[got[0] - 1][got[1]:got[1] + len(name)] == name \
        and not (got[1] > 0 and (lines[got[0] - 1][got[1] - 1].isalnum() or lines[got[0] - 1][got[1] - 1] == '_')) \
        and not lines[got[0] - 1][got[1] + len(name):got[1] + len(name) + 1].replace('_', 'a').isalnum()


def model(repo):
    def build():
        facts = get_facts(repo)
        it = Interp(repo, facts)
        it.reset_path([])
        shapes = call_shapes(repo)
        ss = facts.classes.get('SourceScope')
        if ss is None:
            raise AnalysisError('SourceScope vanished')
        out = []
        nchecked = 0
        for src, names in CORPUS:
            tree = ast.parse(src)
            # the lines the parser numbers (our reference) and the lines supp's own Source gives the text search
            lines = src.replace('\r\n', '\n').replace('\r', '\n').split('\n')
            try:
                source = it.call(it.lookup_global('supp/util.py', 'Source'), [src, '/p/x.py'], {})
                it.getattr(source, 'lines')
            except (InterpRaise, Uninterpretable) as e:
                raise AnalysisError('util.Source is outside the interpretable subset: %s' % e)
            scope = Obj(ss, {'source': source}, 'scope')
            bindings = []
            for node in ast.walk(tree):
                if isinstance(node, (ast.Import, ast.ImportFrom)):
                    kind = 'import' if isinstance(node, ast.Import) else 'from-import'
                    for i, al in enumerate(node.names):
                        bindings.append((kind, node, i, al.asname or al.name.partition('.')[0]))
                elif isinstance(node, (ast.FunctionDef, ast.AsyncFunctionDef)):
                    bindings.append(('def', node, 0, node.name))
                elif isinstance(node, ast.ClassDef):
                    bindings.append(('class', node, 0, node.name))
            for kind, stmt, idx, name in bindings:
                if name not in names:
                    continue
                for shape in sorted(shapes.get(kind, [None]), key=repr):
                    nchecked += 1
                    key = '%s `%s` in %r' % (kind, name, src.strip()[:46])
                    if shape is None:
                        out.append(('text', key, False, 'the position of this %s binding does not come from find_id_loc with the bound '
                                    'identifier in the search string' % kind, None))
                        continue
                    if shape[0] == 'pos':
                        if (shape[2] == 'asname') != (kind in ('import', 'from-import') and stmt.names[idx].asname is not None):
                            nchecked -= 1
                            continue        # the shape of the other alias form
                        try:
                            got = _concrete(shape[1], stmt, idx)
                        except (IndexError, AttributeError, TypeError):
                            nchecked -= 1
                            continue
                        truth = binding_position(src, stmt, idx, name)
                        ok = _names(lines, got, name) and (truth is None or tuple(got) == tuple(truth))
                        text = lines[got[0] - 1][got[1]:got[1] + len(name) + 3] if 1 <= got[0] <= len(lines) else None
                        out.append(('text', key, ok, 'the %s binding `%s` of %r is positioned at %s = %r, where the text reads %r; the '
                                    'identifier that introduces the binding stands at %s' % (kind, name, src[:80], got, shape[1], text, truth),
                                    '%s: text at declared_at is the identifier' % key))
                        continue
                    prefix, suffix, spath, shift, delims, extras, helper = shape
                    hname = '.'.join(helper)
                    try:
                        start = (stmt.lineno, stmt.col_offset) if spath == 'node' else None
                        if start is None:
                            try:
                                n = _resolve_path(stmt, _generalise(spath, idx))
                            except (IndexError, AttributeError):
                                nchecked -= 1
                                continue        # this call shape belongs to statements of another form (e.g. decorated ones)
                            start = (n.lineno, n.col_offset)
                        args = [prefix + name + suffix, start, shift, delims]
                        kwargs = {}
                        for k, v in extras:
                            if k.startswith('arg'):
                                args.append(_concrete(v, stmt, idx))
                            else:
                                kwargs[k] = _concrete(v, stmt, idx)
                        got = it.call(it.getattr(scope if helper[0] == 'SourceScope' else source, helper[1]), args, kwargs)
                    except InterpRaise as e:
                        out.append(('text', key, False, '%s raises %s' % (hname, e), None))
                        continue
                    except Uninterpretable as e:
                        raise AnalysisError('%s is outside the interpretable subset: %s' % (hname, e))
                    truth = binding_position(src, stmt, idx, name)
                    ok = _names(lines, got, name) and (truth is None or tuple(got) == tuple(truth))
                    text = lines[got[0] - 1][got[1]:got[1] + len(name) + 3] if isinstance(got, tuple) and isinstance(got[0], int) and 1 <= got[0] <= len(lines) else None
                    out.append(('text', key, ok, 'the %s binding `%s` of %r is positioned at %s, where the text reads %r; the identifier that '
                                'introduces the binding stands at %s (search string %r from %s%s)' % (kind, name, src[:80], got, text, truth, prefix + name + suffix, start,
                                                                               ''.join(', %s=%r' % (k, kwargs.get(k)) for k in kwargs)),
                                '%s: text at declared_at is the identifier' % key))
        out.append(('text-count', 'text-searched bindings checked', nchecked >= 30, 'only %d bindings' % nchecked, None))
        return out
    return repo.memo('textsearch-model', build)
