"""Abstract interpretation of util.get_expr_end on symbolic expression trees: the result must be the start of the
last visited node with one added column, both components taken from the same node, obtained without comparing or
combining positions of different nodes."""
from .core import AnalysisError
from .facts import get_facts
from .absint import (Interp, SymNode, SymPos, SymPosMix, InterpRaise, Uninterpretable, explore)
from .e1 import ShapeBuilder

UTIL = 'supp/util.py'


def _last_leaf(node):
    from . import grammar as G
    last = node
    for fld in G.NODE_FIELDS.get(node.cls or '', []):
        v = node.fields.get(fld.name)
        items = v if isinstance(v, list) else [v]
        for x in items:
            if isinstance(x, SymNode) and x.sort != 'expr_context' and x.cls not in ('Load', 'Store'):
                last = _last_leaf(x)
    return last


def expr_end_semantics(repo):
    """-> list of (shape name, verdict, detail); verdict in ok / mixes / wrong / unknown"""
    def build():
        facts = get_facts(repo)
        if 'get_expr_end_visitor' not in facts.classes:
            raise AnalysisError('util.get_expr_end_visitor vanished')
        out = []
        for cls in ('Tuple', 'BinOp', 'Call', 'Dict', 'IfExp', 'Compare'):
            it = Interp(repo, facts)
            it.nodevisitor_model = True
            root = ShapeBuilder({}, 'max').node(cls, 'node')
            want = _last_leaf(root)

            def run(it=it, root=root):
                fn = it.lookup_global(UTIL, 'get_expr_end')
                return it.call(fn, [root], {})
            try:
                paths = explore(it, run)
            except Uninterpretable as e:
                out.append((cls, 'unknown', str(e)))
                continue
            verdict, detail = 'ok', ''
            for decisions, result, exc, effects, objs in paths:
                if exc is not None:
                    verdict, detail = 'wrong', 'raises %s' % exc
                    break
                cmp_ = [e for e in effects if e[0] == 'position-compare']
                if cmp_ or any(isinstance(x, SymPosMix) for x in (result if isinstance(result, tuple) else ())):
                    verdict, detail = 'mixes', 'the result %r is computed by comparing/combining positions of several nodes' % (result,)
                    break
                ok = (isinstance(result, tuple) and len(result) == 2 and isinstance(result[0], SymPos)
                      and isinstance(result[1], SymPos) and result[0].path == result[1].path
                      and (result[0].part, result[0].delta, result[1].part, result[1].delta) == ('line', 0, 'col', 1))
                if not ok:
                    verdict, detail = 'wrong', 'the result %r is not (node.lineno, node.col_offset + 1) of one node' % (result,)
                    break
                if result[0].path != want.path:
                    verdict, detail = 'wrong', 'the result is anchored at %s, the last visited node is %s' % (result[0].path, want.path)
                    break
            out.append((cls, verdict, detail))
        return out
    return repo.memo('exprend', build)
