"""Abstract interpretation of util.get_expr_end on symbolic expression trees: the result must be the start of the
last visited node with one added column, both components taken from the same node, obtained without comparing or
combining positions of different nodes."""
from .core import AnalysisError
from .facts import get_facts
from .absint import (Interp, SymNode, SymPos, SymPosMix, InterpRaise, Uninterpretable, explore)
from .e1 import ShapeBuilder

UTIL = 'supp/util.py'


def _last_leaf(node):
    from . import grammar as G
    last = node
    for fld in G.NODE_FIELDS.get(node.cls or '', []):
        v = node.fields.get(fld.name)
        items = v if isinstance(v, list) else [v]
        for x in items:
            if isinstance(x, SymNode) and x.sort != 'expr_context' and x.cls not in ('Load', 'Store'):
                last = _last_leaf(x)
    return last


def _find(root, path):
    if root.path == path:
        return root
    for v in root.fields.values():
        for x in (v if isinstance(v, list) else [v]):
            if isinstance(x, SymNode):
                r = _find(x, path)
                if r is not None:
                    return r
    return None


def _leftmost(node):
    """The textually first leaf below node: it starts at the same position as node itself."""
    from . import pyref
    kids = [c for _, _, c in pyref.children(node) if c.sort != 'expr_context' and c.cls not in ('Load', 'Store')]
    return _leftmost(kids[0]) if kids else node


def has_expr_end(repo):
    """util.py still binds the name get_expr_end at module level (a def, a class or an assignment)"""
    import ast
    for n in repo.tree('supp/util.py').body:
        if isinstance(n, (ast.FunctionDef, ast.ClassDef)) and n.name == 'get_expr_end':
            return True
        if isinstance(n, ast.Assign) and any(isinstance(t, ast.Name) and t.id == 'get_expr_end' for t in n.targets):
            return True
    return False


def expr_end_semantics(repo):
    """-> list of (shape name, verdict, detail); verdict in ok / mixes / wrong / unknown"""
    def build():
        facts = get_facts(repo)
        if not has_expr_end(repo):
            return []        # the helper is gone and nothing refers to it: whatever replaced it is interpreted like any other code
        if 'get_expr_end_visitor' not in facts.classes:
            raise AnalysisError('util.get_expr_end_visitor vanished')
        out = []
        shapes = []
        from . import grammar as G
        done = set()
        for cls in ('Tuple', 'BinOp', 'Call', 'Dict', 'IfExp', 'Compare'):
            shapes.append((cls, ShapeBuilder({}, 'max').node(cls, 'node')))
            done.add(cls)
        # every other expression class of the grammar, as the whole value (a visitor method of its own for any of them - an
        # f-string, a lambda, a subscript - must still end at the last node visited inside it)
        for cls in sorted(G.NODE_FIELDS):
            if G.SORT_OF.get(cls) != 'expr' or cls in done or cls in ('Constant', 'Name'):
                continue
            try:
                root = ShapeBuilder({}, 'max').node(cls, 'node')
            except Exception:
                continue
            if not any(isinstance(v, (SymNode, list)) and v for v in root.fields.values()):
                continue
            shapes.append((cls, root))
        # an f-string reading a name: f"text{x}"
        js = SymNode('JoinedStr', 'node', 'expr', {'values': [
            SymNode('Constant', 'node.values[0]', 'expr', {'value': 'text', 'kind': None}),
            SymNode('FormattedValue', 'node.values[1]', 'expr', {
                'value': SymNode('Name', 'node.values[1].value', 'expr', {'id': 'x', 'ctx': SymNode('Load', 'node.values[1].value.ctx', 'expr_context')}),
                'conversion': -1, 'format_spec': None})]})
        shapes.append(('f-string reading a name', js))
        # a literal as the last node (visit_Constant is a method of its own)
        t = ShapeBuilder({}, 'max').node('Tuple', 'node')
        t.fields['elts'][-1] = SymNode('Constant', 'node.elts[1]', 'expr', {'value': 'text', 'kind': None})
        shapes.append(('Tuple ending in a literal', t))
        # attribute of a call whose arguments lie further right: f(x).attr
        a = ShapeBuilder({}, 'max').node('Attribute', 'node')
        a.fields['value'] = ShapeBuilder({}, 'max').node('Call', 'node.value')
        shapes.append(('Attribute of a Call', a))
        n = ShapeBuilder({}, 'max').node('Attribute', 'node')
        n.fields['value'] = SymNode('Name', 'node.value', 'expr', {'id': 'x', 'ctx': SymNode('Load', 'node.value.ctx', 'expr_context')})
        shapes.append(('Attribute of a Name', n))
        for cls, root in shapes:
            it = Interp(repo, facts)
            it.nodevisitor_model = True
            want = _last_leaf(root)
            from . import pyref

            def order(wa, wb, root=root):
                try:
                    ka, kb = pyref.pathkey(root, wa[0]), pyref.pathkey(root, wb[0])
                except Exception:
                    return None
                ka, kb = (ka, wa[1]), (kb, wb[1])
                return -1 if ka < kb else 1 if ka > kb else 0
            it.position_order = order

            def run(it=it, root=root):
                fn = it.lookup_global(UTIL, 'get_expr_end')
                return it.call(fn, [root], {})
            try:
                paths = explore(it, run)
            except Uninterpretable as e:
                out.append((cls, 'unknown', str(e)))
                continue
            verdict, detail = 'ok', ''
            for decisions, result, exc, effects, objs in paths:
                if exc is not None:
                    verdict, detail = 'wrong', 'raises %s' % exc
                    break
                cmp_ = [e for e in effects if e[0] == 'position-compare']
                if cmp_ or any(isinstance(x, SymPosMix) for x in (result if isinstance(result, tuple) else ())):
                    verdict, detail = 'mixes', 'the result %r is computed by comparing/combining positions of several nodes' % (result,)
                    break
                ok = (isinstance(result, tuple) and len(result) == 2 and isinstance(result[0], SymPos)
                      and isinstance(result[1], SymPos) and result[0].path == result[1].path
                      and (result[0].part, result[0].delta, result[1].part, result[1].delta) == ('line', 0, 'col', 1))
                if not ok:
                    verdict, detail = 'wrong', 'the result %r is not (node.lineno, node.col_offset + 1) of one node' % (result,)
                    break
                anchor = _find(root, result[0].path)
                if result[0].path != want.path and not (anchor is not None and _leftmost(anchor).path == want.path):
                    verdict, detail = 'wrong', 'the result is anchored at %s, the last visited node is %s' % (result[0].path, want.path)
                    break
            out.append((cls, verdict, detail))
        return out
    return repo.memo('exprend', build)


# ---------------------------------------------------------------------------------------------------------------
# concrete layouts: get_expr_end interpreted on real parse trees
# ---------------------------------------------------------------------------------------------------------------

LAYOUTS = [
    "f(k=1, *x)", "f(*x, k=1)", "f(a, *x, k=1, **kw)", "f(k=1, **kw)", "f(**kw)", "f(a)(b).c", "a.b.c[d]", "a[1:2, ::3]",
    "x if c else y", "(x\n    if c\n else y)", "[i for i in x if i]", "{k: v for k, v in it}", "(i for i in\n x)",
    "lambda a, b=1, *c, d=2, **e: a", "{**a, 'k': 1}", "{'k': 1, **a}", "[*a, b]", "(a, b,\n c)", "(a,\n  b,\nc)", "f(a,\n  b)\n",
    "a + b * c", "not a", "-a", "a and b or c", "a < b <= c", "await f(x)", "(yield x)", "(yield from x)", "(n := f(x))",
    "f'{x}: {y!r:>{w}}'", "'text' 'more'", "'''multi\nline'''", "('''multi\nline''', a)", "f(x, '''multi\nline''')", "f('''m\nl''', x)",
    "a if b else c if d else e", "f(g(h(1)))", "x[f(k=1, *y)]", "f(*a, *b)", "f(k=1, *a, **b)", "{a, b}", "{a for a in b}",
    # round 13 (C13-r13-expr-end-compared-componentwise): a node visited later lies on an earlier line at a larger column - a
    # keyword before a starred argument, the continuation line indented less than the keyword value
    "f(key=1111111111,\n  *x)", "f(a, key=1111111111,\n *x,\n b=2)", "f(key=g(1111111111),\n*x, **kw)",
    "x[f(key=1111111111,\n  *y)]", "{**aaaaaaaaaa,\n 'k': 1}",
]


def from_ast(node, path='node'):
    """a real ast node -> SymNode tree carrying the parser's positions"""
    import ast
    from . import grammar as G
    cls = type(node).__name__
    flds = {}
    for name, val in ast.iter_fields(node):
        p = '%s.%s' % (path, name)
        if isinstance(val, ast.AST):
            flds[name] = from_ast(val, p)
        elif isinstance(val, list):
            flds[name] = [from_ast(v, '%s[%d]' % (p, i)) if isinstance(v, ast.AST) else v for i, v in enumerate(val)]
        else:
            flds[name] = val
    n = SymNode(cls, path, G.SORT_OF.get(cls, cls), flds)
    for a in ('lineno', 'col_offset', 'end_lineno', 'end_col_offset'):
        if hasattr(node, a):
            n.extra[a] = getattr(node, a)
    return n


def expr_end_layouts(repo):
    """-> list of (text, ok, detail): get_expr_end on the parse tree of each layout must be one column after the start of the
    textually last node (the largest start position in the tree)."""
    def build():
        import ast
        facts = get_facts(repo)
        out = []
        if not has_expr_end(repo):
            return []
        for text in LAYOUTS:
            tree = ast.parse('_ = ' + text.lstrip() if not text.startswith('(') else '_ = ' + text)
            value = tree.body[0].value
            want = max((n.lineno, n.col_offset) for n in ast.walk(value) if hasattr(n, 'lineno'))
            want = (want[0], want[1] + 1)
            it = Interp(repo, facts)
            it.nodevisitor_model = True
            it.reset_path([])
            try:
                got = it.call(it.lookup_global(UTIL, 'get_expr_end'), [from_ast(value)], {})
            except InterpRaise as e:
                out.append((text, False, 'raises %s' % e))
                continue
            except Uninterpretable as e:
                out.append((text, None, str(e)))
                continue
            out.append((text, got == want, 'get_expr_end(%r) = %r, the textually last node starts at %r' % (text, got, (want[0], want[1] - 1))))
        return out
    return repo.memo('exprend-layouts', build)


# first statements of a block whose first token is not where the parser positions the statement node: a decorated definition
# is positioned at its `def` / `class` keyword, its decorators come before
FIRST_STATEMENTS = [
    "x = 1\ny = 2\n",
    "@deco(arg)\ndef inner():\n    pass\n",
    "@deco(arg)\nasync def inner():\n    pass\n",
    "@deco(arg)\nclass Inner(object):\n    pass\n",
    "@first\n@second(arg)\nasync def inner():\n    pass\n",
    "'''doc'''\nx = 1\n",
    "if arg:\n    pass\n",
    "@ deco(arg)\ndef inner():\n    pass\n",              # white space may follow the @
    "@(\n deco)\ndef inner():\n    pass\n",               # the decorator expression may start on a later line than its @
]


EXACT = {}      # text -> (what the helper returned, start of the first token of the body): filled by first_statement_layouts


def first_statement_layouts(repo):
    """-> list of (text, ok, detail): the helper that gives the position from which the parameters of a function are visible
    (scope.get_first_body_node_loc, when supp has it) applied to concrete bodies: the position must not lie after the first token of
    the body - the `@` of the first decorator for a decorated definition."""
    def build():
        import ast
        facts = get_facts(repo)
        fb = repo.optional_helper('supp/scope.py', 'get_first_body_node_loc')
        if fb is None:
            return []
        rel = next(r for r, t in repo.trees.items() if any(n is fb for n in t.body))
        out = []
        for text in FIRST_STATEMENTS:
            body = ast.parse(text).body
            st = body[0]
            decs = getattr(st, 'decorator_list', [])
            first = (st.lineno, st.col_offset)
            if decs:
                # the first token of a decorated definition is the `@` of its first decorator (no ast node has its position)
                import io, tokenize
                tok = next(t for t in tokenize.generate_tokens(io.StringIO(text).readline) if t.type == tokenize.OP and t.string == '@')
                first = tok.start
            it = Interp(repo, facts)
            it.reset_path([])
            try:
                got = it.call(it.lookup_global(rel, 'get_first_body_node_loc'), [[from_ast(s, 'body[%d]' % i) for i, s in enumerate(body)]], {})
            except InterpRaise as e:
                out.append((text, False, 'raises %s' % e))
                continue
            except Uninterpretable as e:
                out.append((text, None, str(e)))
                continue
            ok = isinstance(got, tuple) and len(got) == 2 and all(isinstance(x, int) for x in got) and tuple(got) <= first
            EXACT[text] = (got, first)
            out.append((text, ok, 'get_first_body_node_loc gives %r for a body starting with %r, whose first token is at %r: names '
                        'visible from that position on (the parameters) are missing at the reads in front of it'
                        % (got, text.splitlines()[0] + ' / ' + text.splitlines()[1], first)))
        return out
    return repo.memo('first-statement-layouts', build)
