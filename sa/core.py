"""Core plumbing for the static checkers: repository facts access, findings,
known-findings matching, evidence writing, exit-code discipline.

Nothing here (or anywhere under sa/) imports or runs supp.  Everything is read
from the working tree rooted at $SA_REPO (default /repo) with `ast`.
"""
import ast
import hashlib
import json
import os
import sys
import time
import traceback

VERIF = os.path.dirname(os.path.dirname(os.path.abspath(__file__)))
REPO = os.environ.get('SA_REPO', '/repo')

ANCHOR_FILES = [
    'supp/__init__.py', 'supp/assistant.py', 'supp/compat.py', 'supp/evaluator.py',
    'supp/linter.py', 'supp/merged_dict.py', 'supp/module.py', 'supp/name.py',
    'supp/nast.py', 'supp/project.py', 'supp/remote.py', 'supp/scope.py',
    'supp/server.py', 'supp/umsgpack.py', 'supp/util.py',
]
SCRIPT_FILES = ['supp-lint', 'supp-find']


class AnalysisError(Exception):
    """The checker met source it cannot interpret, or an anchor vanished.
    Exit 2, never a VIOLATION and never a silent pass."""


class Finding(object):
    __slots__ = ('prop', 'rule', 'key', 'file', 'line', 'msg', 'detail')

    def __init__(self, prop, rule, key, file, line, msg, detail=None):
        self.prop = prop
        self.rule = rule
        self.key = key          # construct key: stable across line moves
        self.file = file
        self.line = line
        self.msg = msg
        self.detail = detail or {}

    def ident(self):
        return (self.prop, self.rule, self.key)

    def as_dict(self):
        return {'property': self.prop, 'rule': self.rule, 'key': self.key,
                'file': self.file, 'line': self.line, 'msg': self.msg,
                'detail': self.detail}

    def __repr__(self):
        return '%s %s [%s] %s:%s %s' % (self.prop, self.rule, self.key,
                                        self.file, self.line, self.msg)


class Repo(object):
    """Parsed view of the working tree.  One instance per run."""

    def __init__(self, root=None):
        self.root = root or REPO
        self.sources = {}
        self.trees = {}
        self.digests = {}
        for rel in ANCHOR_FILES + SCRIPT_FILES:
            path = os.path.join(self.root, rel)
            try:
                with open(path, 'rb') as f:
                    data = f.read()
            except OSError as e:
                if rel in SCRIPT_FILES:
                    continue
                raise AnalysisError('anchor file missing: %s (%s)' % (rel, e))
            self.digests[rel] = hashlib.sha256(data).hexdigest()[:16]
            text = data.decode('utf-8')
            self.sources[rel] = text
            try:
                self.trees[rel] = ast.parse(text, rel, type_comments=True)
            except SyntaxError as e:
                raise AnalysisError('anchor file does not parse: %s (%s)' % (rel, e))
        for tree in self.trees.values():
            for parent in ast.walk(tree):
                for child in ast.iter_child_nodes(parent):
                    child._parent = parent
        self._cache = {}
        self.tier = 'quick'

    def tree(self, rel):
        try:
            return self.trees[rel]
        except KeyError:
            raise AnalysisError('file not parsed: %s' % rel)

    def src(self, rel):
        return self.sources[rel]

    def line_text(self, rel, lineno):
        try:
            return self.sources[rel].splitlines()[lineno - 1].strip()
        except IndexError:
            return ''

    # --- lookups -----------------------------------------------------
    def module_func(self, rel, name):
        for n in self.tree(rel).body:
            if isinstance(n, (ast.FunctionDef, ast.AsyncFunctionDef)) and n.name == name:
                return n
        # moved to another module of the package (and imported back): follow it when the new home is unambiguous
        found = [(r, n) for r, t in sorted(self.trees.items()) if r.startswith('supp/') for n in t.body
                 if isinstance(n, (ast.FunctionDef, ast.AsyncFunctionDef)) and n.name == name]
        if len(found) == 1:
            return found[0][1]
        raise AnalysisError('anchor function vanished: %s:%s' % (rel, name))

    def optional_helper(self, rel, name):
        """module_func, or None when the helper is gone *and* nothing in supp refers to it any more (inlined or made
        unnecessary by its only callers); a dangling reference is still an analysis error."""
        try:
            return self.module_func(rel, name)
        except AnalysisError:
            for r, t in self.trees.items():
                if r.startswith('supp/') and any(isinstance(n, ast.Name) and n.id == name for n in ast.walk(t)):
                    raise
            return None

    def klass(self, rel, name):
        for n in ast.walk(self.tree(rel)):
            if isinstance(n, ast.ClassDef) and n.name == name:
                return n
        found = [(r, n) for r, t in sorted(self.trees.items()) if r.startswith('supp/') for n in t.body
                 if isinstance(n, ast.ClassDef) and n.name == name]
        if len(found) == 1:
            return found[0][1]
        raise AnalysisError('anchor class vanished: %s:%s' % (rel, name))

    def method(self, rel, cls, name, required=True):
        c = self.klass(rel, cls)
        found = None
        for n in c.body:
            if isinstance(n, (ast.FunctionDef, ast.AsyncFunctionDef)) and n.name == name:
                found = n
        if found is None and required:
            raise AnalysisError('anchor method vanished: %s:%s.%s' % (rel, cls, name))
        return found

    def memo(self, key, fn):
        if key not in self._cache:
            self._cache[key] = fn()
        return self._cache[key]


def unparse(node):
    try:
        return ast.unparse(node)
    except Exception:
        return '<%s>' % type(node).__name__


def norm_stmt(node):
    """Normalised statement text used in construct keys (never line numbers)."""
    return ' '.join(unparse(node).split())[:160]


def enclosing_func(node):
    n = getattr(node, '_parent', None)
    while n is not None:
        if isinstance(n, (ast.FunctionDef, ast.AsyncFunctionDef, ast.Lambda)):
            return n
        n = getattr(n, '_parent', None)
    return None


def enclosing_class(node):
    n = getattr(node, '_parent', None)
    while n is not None:
        if isinstance(n, ast.ClassDef):
            return n
        n = getattr(n, '_parent', None)
    return None


def qualname(node):
    parts = []
    n = node
    while n is not None:
        if isinstance(n, (ast.FunctionDef, ast.AsyncFunctionDef, ast.ClassDef)):
            parts.append(n.name)
        elif isinstance(n, ast.Lambda):
            parts.append('<lambda>')
        n = getattr(n, '_parent', None)
    return '.'.join(reversed(parts)) or '<module>'


# ---------------------------------------------------------------------------
# known findings
# ---------------------------------------------------------------------------

def load_known():
    path = os.path.join(VERIF, 'known_findings.json')
    try:
        with open(path) as f:
            data = json.load(f)
    except OSError:
        return {}, []
    known = {}
    for e in data.get('findings', []):
        known[(e['property'], e['rule'], e['key'])] = e
    return known, data.get('fixed', [])


# ---------------------------------------------------------------------------
# check result / evidence
# ---------------------------------------------------------------------------

class Result(object):
    """Accumulates obligations, findings and notes of one property check."""

    def __init__(self, prop, tier):
        self.prop = prop
        self.tier = tier
        self.findings = []
        self.obligations = 0
        self.discharged = 0
        self.nontrivial = set()
        self.samples = []
        self.notes = []
        self.rules = {}
        self.floors = {}
        self.counts = {}
        self.assumptions = []
        self.extra = {}
        self.floor_errors = []

    def ob(self, rule, key, ok, nontrivial=True, sample=None):
        """Record one obligation (rule instance).  Returns ok."""
        self.obligations += 1
        r = self.rules.setdefault(rule, {'obligations': 0, 'failed': 0})
        r['obligations'] += 1
        if ok:
            self.discharged += 1
        else:
            r['failed'] += 1
        if nontrivial:
            self.nontrivial.add((rule, key))
        if sample is not None and len([s for s in self.samples if s.get('rule') == rule]) < 3:
            self.samples.append({'rule': rule, 'construct': key, 'holds': bool(ok),
                                 'obligation': sample})
        return ok

    def fail(self, rule, key, file, line, msg, detail=None):
        self.findings.append(Finding(self.prop, rule, key, file, line, msg, detail))

    def check(self, rule, key, ok, file, line, msg, detail=None, nontrivial=True, sample=None):
        """ob() + fail() in one call."""
        self.ob(rule, key, ok, nontrivial, sample if sample is not None else msg)
        if not ok:
            self.fail(rule, key, file, line, msg, detail)
        return ok

    def note(self, text):
        if text not in self.notes:
            self.notes.append(text)

    def count(self, name, n, floor=None):
        self.counts[name] = n
        if floor is not None:
            self.floors[name] = floor
            if n < floor:
                self.floor_errors.append(
                    'instance count %s=%d fell below the floor %d confirmed by hand '
                    '(a rule matching too few sites would pass vacuously)' % (name, n, floor))


def write_evidence(res, repo, wall, explanation, technique, violations, known_hit):
    ev = {
        'property_id': res.prop,
        'tier': res.tier,
        'seed': int(os.environ.get('VERIF_SEED', '0') or 0),
        'level': 'other',
        'coverage': {
            'explanation': explanation,
            'technique': technique,
            'evaluations': res.obligations,
            'distinct_nontrivial': len(res.nontrivial),
            'rule': ('every obligation is one (rule, construct) instance enumerated from '
                     "the repository's current source; non-trivial = the verdict needed a "
                     'path, table row, cycle, family or summary comparison rather than a '
                     'presence test; distinct = distinct (rule, construct key)'),
            'obligations': res.obligations,
            'discharged': res.discharged,
            'exhaustive': True,
            'samples': res.samples[:40] or [{'note': 'no obligations'}],
            'rules': res.rules,
            'instance_counts': res.counts,
            'floors': res.floors,
            'files_analysed': repo.digests if repo else {},
            'notes': res.notes,
            'known_findings_reported': known_hit,
            'new_violations': [f.as_dict() for f in violations],
            'repo_root': repo.root if repo else REPO,
        },
        'assumptions': res.assumptions,
        'wall_s': round(wall, 3),
        'violations': len(violations),
    }
    ev['coverage'].update(res.extra)
    d = os.path.join(VERIF, 'evidence')
    os.makedirs(d, exist_ok=True)
    out_dir = os.environ.get('SA_EVIDENCE_DIR', d)
    os.makedirs(out_dir, exist_ok=True)
    with open(os.path.join(out_dir, res.prop + '.json'), 'w') as f:
        json.dump(ev, f, indent=1, sort_keys=True, default=str)
        f.write('\n')


def run_check(prop, tier, fn, explanation, technique):
    """Drive one property check; returns the process exit code."""
    t0 = time.time()
    res = Result(prop, tier)
    repo = None
    try:
        repo = Repo()
        repo.tier = tier
        fn(repo, res)
    except AnalysisError as e:
        print('ANALYSIS-ERROR property=%s %s' % (prop, e))
        return 2
    except Exception:
        print('ANALYSIS-ERROR property=%s internal error in checker' % prop)
        traceback.print_exc()
        return 2
    known, _fixed = load_known()
    violations, known_hit = [], []
    seen = set()
    for f in res.findings:
        if f.ident() in seen:
            continue
        seen.add(f.ident())
        if f.ident() in known:
            known_hit.append(f)
        else:
            violations.append(f)
    for f in known_hit:
        print('KNOWN-FINDING: property=%s %s [%s] %s:%s %s' % (
            prop, f.rule, f.key, f.file, f.line, f.msg))
    if res.floor_errors and not violations:
        for m in res.floor_errors:
            print('ANALYSIS-ERROR property=%s %s' % (prop, m))
        return 2
    wall = time.time() - t0
    write_evidence(res, repo, wall, explanation, technique, violations,
                   [f.as_dict() for f in known_hit])
    print('%s %s: %d obligations over %d rules, %d discharged, %d known findings, '
          '%d new violations (%.2fs)' % (prop, tier, res.obligations, len(res.rules),
                                         res.discharged, len(known_hit), len(violations), wall))
    if violations:
        out = os.environ.get('SA_OUT_DIR', os.path.join(VERIF, 'out'))
        os.makedirs(out, exist_ok=True)
        for i, f in enumerate(violations):
            path = os.path.join(out, '%s-%s-%d.json' % (prop, f.rule, i))
            with open(path, 'w') as fh:
                json.dump(f.as_dict(), fh, indent=1, default=str)
            print('  %s [%s] %s:%s %s' % (f.rule, f.key, f.file, f.line, f.msg))
            print('VIOLATION property=%s replay=%s' % (prop, path))
        return 1
    return 0


def private_state_accesses(repo, facts, owner):
    """Accesses `<expr>.<attr>` to the private tables of class `owner` (attributes with a leading underscore that its __init__
    initialises to an empty container) made outside the module that defines `owner` -> [(attr, rel, lineno, qualname)]."""
    import ast as _ast
    ci = facts.classes.get(owner)
    if ci is None or '__init__' not in ci.methods:
        raise AnalysisError('%s.__init__ vanished' % owner)
    priv = set()
    for st in _ast.walk(ci.methods['__init__'].node):
        if isinstance(st, _ast.Assign) and len(st.targets) == 1 and isinstance(st.targets[0], _ast.Attribute) and \
                isinstance(st.targets[0].value, _ast.Name) and st.targets[0].value.id == 'self' and st.targets[0].attr.startswith('_'):
            v = st.value
            if (isinstance(v, (_ast.Dict, _ast.List, _ast.Set)) and not getattr(v, 'keys', getattr(v, 'elts', None))) or \
                    (isinstance(v, _ast.Call) and isinstance(v.func, _ast.Name) and v.func.id in ('dict', 'set', 'list') and not v.args):
                priv.add(st.targets[0].attr)
    out = []
    for rel, tree in repo.trees.items():
        for node in _ast.walk(tree):
            if isinstance(node, _ast.Attribute) and node.attr in priv:
                fi = facts.func_of(node)
                if rel == ci.rel:
                    continue      # the owner's module: helpers next to the class act on its behalf
                out.append((node.attr, rel, node.lineno, fi.qual if fi else '<module>'))
    return sorted(priv), out
