"""C05 -- names resolve in the scope CPython's compiler assigns them to.
"""
import ast

from ..core import AnalysisError, unparse, qualname
from .. import rules_e1 as R
from .. import resolve_model as M

EXPLANATION = (
    "Static scoping rules. R1 (E1): every expression-bearing grammar path of def/lambda/class is visited "
    'in the scope the language reference prescribes (decorators, defaults, keyword-only defaults, '
    'annotations, bases and keywords in the enclosing scope; bodies in the new scope) and every binder '
    'is entered in the right scope; R2/R3: the entry-region and class-skipping rules of scope.py, '
    'abstractly interpreted on symbolic scope chains (a function-local name is never satisfied by an '
    'outer or builtin binding, class bodies see all outer names, methods and nested functions skip the '
    'class body, closures resolve to the owning function, global-declared bindings land in the module '
    'table); R4 scope.locals (the masking set) is written only by Flow.add_name, so it contains every '
    'name the scope binds; R5 global and nonlocal declarations are both recorded. Agreement with '
    'symtable on real files is NOT decided.'
    " Later additions to R3: sixteen lookup scenarios on supp's own scope classes, among them sibling functions of which one declares a name global (both resolution orders) and a global statement at module level as supp's own visit_Global records it.")
TECHNIQUE = ('visitor summaries (abstract interpretation) against the T1 evaluation-scope table + abstract '
             'interpretation of the scope-chain resolution functions + who-may-write rule on scope.locals')

SCOPE = 'supp/scope.py'


def run(repo, res):
    _ns, _np = R.shape_stats(repo)
    res.extra['e1_shapes_interpreted'] = _ns
    res.extra['e1_shape_paths_interpreted'] = _np
    cov = R.read_coverage(repo)
    n = 0
    for (cls, path), r in sorted(cov.items()):
        if cls not in ('FunctionDef', 'AsyncFunctionDef', 'Lambda', 'ClassDef') or r['skip']:
            continue
        n += 1
        if r['unvisited']:
            continue      # C01-R1 reports unvisited paths
        key = '%s %s' % (R.method_name(repo, cls), path)
        res.check('C05-R1', key, not r['misplaced'], r['line'][0], r['line'][1],
                  '%s.%s is evaluated in the %s scope by CPython but supp visits it in region %s (scope %s): names '
                  'there resolve against the wrong scope'
                  % (cls, path, 'new' if r['scope'] == 'new' else 'enclosing',
                     r['misplaced'][0][2] if r['misplaced'] else '', r['misplaced'][0][3] if r['misplaced'] else ''),
                  sample='%s evaluated in the %s scope' % (key, 'new' if r['scope'] == 'new' else 'enclosing'))
    res.count('scoped_paths', n, floor=25)
    brecs = R.binder_records(repo)
    for (cls, kind, path), r in sorted(brecs.items()):
        if r['n'] == 0:
            continue
        key = '%s %s %s' % (R.method_name(repo, cls), kind, path)
        if r['missing']:
            # a binder that registers nothing leaves the name out of the scope's locals: an outer or builtin binding of the same
            # spelling satisfies the reads
            res.check('C05-R1', key + ' scope', False, r['line'][0], r['line'][1],
                      'binder %s registers no binding (shape %s): the name is not made a local of the scope CPython assigns it to, an '
                      'outer binding of the same spelling is reported for its reads' % (key, r['missing'][0]))
            continue
        res.check('C05-R1', key + ' scope', not r['wrong_scope'], r['line'][0], r['line'][1],
                  'binder %s is entered in scope %s; CPython makes it a name of the %s scope'
                  % (key, r['wrong_scope'][0][2] if r['wrong_scope'] else '',
                     'new' if kind in ('param', 'posonly') else 'enclosing'),
                  sample='%s bound in the %s scope' % (key, 'new' if kind in ('param', 'posonly') else 'enclosing'))
    hyg = R.binding_hygiene_records(repo)
    seen_sp = set()
    for cls, variant, ipath, line in hyg['spurious']:
        k = '%s binds %s' % (R.method_name(repo, cls), ipath)
        if k in seen_sp:
            continue
        seen_sp.add(k)
        res.check('C05-R1', k, False, line[0], line[1],
                  'on %s shape `%s` the identifier at %s is registered as a binding of the current scope although the construct only reads '
                  'it (`for obj.attr in xs`, `with cm as table[key]` read obj / table / key): the name becomes a local and masks the outer '
                  'binding it refers to' % (cls, variant, ipath))
    seen_nl = set()
    for cls, variant, line in hyg['nonlocal_leak']:
        k = '%s hands a nonlocal rebinding to the scope the definition stands in' % R.method_name(repo, cls)
        if k in seen_nl:
            continue
        seen_nl.add(k)
        res.check('C05-R5', k, False, line[0], line[1],
                  'a function whose body rebinds a name under `nonlocal`: visiting the definition makes that name a local of the scope the '
                  'definition stands in, without knowing that this scope owns it - with an owner further out (A > B > C, C rebinds a name '
                  'of A) the name becomes a local of B and every read of it in B and C resolves there')
    res.ob('C05-R5', 'a nonlocal rebinding does not become a local of the nearest enclosing scope', not hyg['nonlocal_leak'],
           sample='def with `nonlocal n; n = ...` in its body: nothing is added to the enclosing scope\'s locals')
    res.ob('C05-R1', 'only the identifiers a construct binds are registered', not hyg['spurious'],
           sample='%d shape paths: every registered binding corresponds to a binder of the language reference' % hyg['n'])
    M.check_scopes(repo, res, 'C05-R2', 'C05-R3')

    # ---- R4 who may write scope.locals ------------------------------------------------------------
    writers = []
    for rel, tree in repo.trees.items():
        for nd in ast.walk(tree):
            w = None
            if isinstance(nd, ast.Call) and isinstance(nd.func, ast.Attribute) \
                    and nd.func.attr in ('add', 'update', 'remove', 'discard', 'clear', 'pop') \
                    and unparse(nd.func.value).endswith('.locals'):
                w = nd
            if isinstance(nd, (ast.Assign, ast.AugAssign)):
                tg = nd.targets if isinstance(nd, ast.Assign) else [nd.target]
                if any(unparse(t).endswith('.locals') for t in tg):
                    w = nd
            if w is not None:
                fn = nd
                while fn is not None and not isinstance(fn, (ast.FunctionDef, ast.AsyncFunctionDef)):
                    fn = getattr(fn, '_parent', None)
                writers.append((rel, qualname(fn) if fn else '<module>', nd.lineno))
    allowed = {('supp/scope.py', 'Scope.__init__'): 'initialisation to the empty set',
               ('supp/scope.py', 'Flow.add_name'): 'the single binder entry point',
               ('supp/nast.py', 'marked_flow'): 'renames the cursor-marked identifier, set stays in step with _names'}
    for rel, q, line in writers:
        res.check('C05-R4', 'locals written in %s' % q, (rel, q) in allowed, rel, line,
                  'scope.locals (the set that masks outer names) is modified in %s; only Flow.add_name may add to '
                  'it, otherwise a bound name is not masked or an unbound one is' % q,
                  sample='%s writes scope.locals: %s' % (q, allowed.get((rel, q), 'NOT ALLOWED')))
    res.count('locals_writers', len(writers), floor=3)
    addn = repo.method(SCOPE, 'Flow', 'add_name')
    txt = unparse(addn)
    ok = 'self.scope.locals.add(name.name)' in txt and 'self.scope.globals' in txt and 'add_global(name)' in txt
    res.check('C05-R4', 'add_name masks and routes', ok, SCOPE, addn.lineno,
              'Flow.add_name must add every non-global binding to scope.locals and route global-declared names to the '
              'module table')
    # binds all go through add_name: every BIND effect of E1 was produced by insert_loc inside add_name
    inserts = []
    for rel, tree in repo.trees.items():
        for nd in ast.walk(tree):
            if isinstance(nd, ast.Call) and unparse(nd.func) in ('insert_loc', 'insort') and nd.args \
                    and unparse(nd.args[0]).endswith('._names'):
                fn = nd
                while fn is not None and not isinstance(fn, (ast.FunctionDef, ast.AsyncFunctionDef)):
                    fn = getattr(fn, '_parent', None)
                inserts.append((rel, qualname(fn), nd.lineno))
            if isinstance(nd, ast.Call) and isinstance(nd.func, ast.Attribute) and nd.func.attr in ('append', 'insert', 'extend') \
                    and unparse(nd.func.value).endswith('._names') and 'Flow' in qualname(nd) + rel:
                inserts.append((rel, qualname(nd), nd.lineno))
    for rel, q, line in inserts:
        res.check('C05-R4', '_names written in %s' % q, q == 'Flow.add_name', rel, line,
                  'a region\'s binding list is written outside Flow.add_name (in %s): that binding bypasses scope.locals' % q,
                  nontrivial=False)

    # ---- R5 declarations ------------------------------------------------------------------------------
    d = R.declaration_records(repo)
    for cls in ('Global', 'Nonlocal'):
        r = d.get(cls)
        res.check('C05-R5', '%s declaration' % cls, r is not None and not r['undeclared'], r['line'][0] if r else SCOPE,
                  r['line'][1] if r else 0,
                  '%s declarations are not recorded: a binding under the declaration is made a local of the inner '
                  'scope instead of the scope CPython assigns it to' % cls,
                  sample='%s names recorded' % cls)
        if r is not None:
            res.check('C05-R5', '%s declaration touches only its own block' % cls, not r['foreign'], r['line'][0], r['line'][1],
                      'a %s statement changes the name tables of another scope (%s): a %s declaration only affects the block that '
                      'contains it' % (cls.lower(), sorted({f for _v, f in r['foreign']}), cls.lower()),
                      sample='%s changes only the declaring scope' % cls)
    res.assumptions.extend(['T1 table (sa/pyref.py) transcribes the language reference',
                            'comprehension targets are compared as bindings of the enclosing scope (property text)'])
