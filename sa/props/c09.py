"""C09 -- a long-lived project answers exactly like a fresh one.
Decides whether the validity predicate of the long-lived cache can see every
input the cached value was computed from.
"""
import ast

from ..core import AnalysisError, unparse, qualname
from ..facts import get_facts, enclosing_withs, always_exits
from ..callgraph import get_callgraph
from . import c04

EXPLANATION = (
    'Static cache-validity analysis. Cross-module sources are the calls of Project.get_module/get_nmodule made '
    'from analysis code; retention sites are memo stores (attribute idiom, cached_property, context_property) and '
    'bindings copied into cached regions whose value derives from such a call and that live on objects reachable '
    'from Project._module_cache (a SourceModule keeps its scope, the scope its regions and names). The validity '
    'predicate is what get_module evaluates before reusing an entry (SourceModule.changed). R1: for every '
    'retention site either the predicate (transitively) consults the dependencies of the entry - it iterates or '
    'recurses over recorded modules - or check_changes discards the whole long-lived cache, or there is no '
    'retention; R2 every server request runs the API inside `with self.project.check_changes()` and '
    'check_changes clears the per-request cache before yielding; R3 both lookups of a request (the second is answered from the '
    'per-request table) serve the analysis of the current file content and the same module object (decided in the history model); R5 Project.get_module, check_changes and SourceModule.changed are '
    'abstractly interpreted on a modelled file system with scripted modification times over every history of bounded length '
    '(edit, touch, restore an older revision, create, request, request that fails after validating its module; supp\'s own extract_scope '
    'is interpreted, module a star-imports b): the module served '
    'inside a fresh change-checking context must carry the current modification time of its file - for the module asked for '
    'directly; staleness reached through imports of unchanged modules is R1. Equality of complete answers after a concrete edit '
    'history is NOT decided.'
    ' Later additions: the history model has the operations touch, delete and re-creation of a module, and a request that fails after its module was validated.')
TECHNIQUE = 'retention-site inventory vs. read-set of the cache validity predicate + abstract interpretation of the module cache over all bounded edit histories'

PROJECT = 'supp/project.py'
MODULE = 'supp/module.py'
SERVER = 'supp/server.py'


def _api_calls(tree, srv, fn, bound, inside, depth):
    """(call, inside check_changes?) for every call of the assistant / linter API made by fn or by the helpers of server.py it calls
    (methods of Server, module-level functions); an API function handed to a helper as an argument is followed into the helper."""
    def is_api_ref(e):
        return (isinstance(e, ast.Attribute) and isinstance(e.value, ast.Name) and e.value.id in ('assistant', 'linter')) or \
            (isinstance(e, ast.Name) and e.id in bound)
    for c in ast.walk(fn):
        if not isinstance(c, ast.Call):
            continue
        here = inside or any(any('check_changes()' in unparse(it.context_expr) for it in w.items) for w in enclosing_withs(c, fn))
        if is_api_ref(c.func):
            yield c, here
            continue
        helper = None
        if isinstance(c.func, ast.Name):
            helper = next((f for f in tree.body if isinstance(f, ast.FunctionDef) and f.name == c.func.id), None)
            params = [a.arg for a in helper.args.args] if helper else []
        elif isinstance(c.func, ast.Attribute) and isinstance(c.func.value, ast.Name) and c.func.value.id == 'self':
            helper = next((f for f in srv.body if isinstance(f, ast.FunctionDef) and f.name == c.func.attr), None)
            params = [a.arg for a in helper.args.args][1:] if helper else []
        if helper is None or helper is fn or depth >= 3:
            continue
        nb = {p for p, a in zip(params, c.args) if is_api_ref(a)} | {k.arg for k in c.keywords if k.arg and is_api_ref(k.value)}
        for x in _api_calls(tree, srv, helper, frozenset(nb), here, depth + 1):
            yield x


def run(repo, res):
    facts = get_facts(repo)
    cg = get_callgraph(repo)
    # ---- cross-module sources and retention sites ----------------------------------------------------
    sources = []
    for fi in facts.funcs.values():
        if fi.rel in (PROJECT, 'supp/assistant.py', 'supp/linter.py', SERVER):
            continue        # the project itself and the per-request entry points keep nothing across requests
        for c in ast.walk(fi.node):
            if isinstance(c, ast.Call) and isinstance(c.func, ast.Attribute) and c.func.attr in ('get_module', 'get_nmodule'):
                sources.append((fi, c))
    res.count('cross_module_lookups', len(sources), floor=3)
    retention = []
    for fi, c in sources:
        # (a) memo idiom in the same function: self._x = <derived>
        for st in ast.walk(fi.node):
            if isinstance(st, ast.Assign):
                for t in st.targets:
                    if isinstance(t, ast.Attribute) and unparse(t.value) == 'self' and t.attr.startswith('_'):
                        retention.append((fi, st, 'memo self.%s filled from %s(...)' % (t.attr, c.func.attr)))
        # (b) names of the other module copied into this module's regions
        for st in ast.walk(fi.node):
            if isinstance(st, ast.Call) and isinstance(st.func, ast.Attribute) and st.func.attr == 'add_name':
                retention.append((fi, st, "names of the imported module copied into a cached region (add_name)"))
    # (c) evaluation memos whose computation can cross an import
    crossing = {fi.key for fi, _ in sources}
    for s in c04.memo_sites(repo):
        if s['fi'].rel in (PROJECT, MODULE):
            continue
        if s['key'] in crossing:
            continue
        if crossing & cg.reach(s['key'], True):
            retention.append((s['fi'], s['fi'].node, 'evaluation memos whose computation can cross an import'))
    res.count('retention_sites', len(retention), floor=3)
    res.extra['retention_sites'] = sorted({'%s: %s' % (fi.qual, why) for fi, _, why in retention})

    # ---- the validity predicate ---------------------------------------------------------------------------
    gm = repo.method(PROJECT, 'Project', 'get_module')
    preds = [n for n in ast.walk(gm) if isinstance(n, ast.If) and '.changed' in unparse(n.test)]
    if len(preds) > 1:
        raise AnalysisError('get_module: several cache reuse tests; re-triage C09')
    reuses = [n for n in ast.walk(gm) if isinstance(n, ast.Subscript) and isinstance(n.ctx, ast.Load)
              and unparse(n.value) == 'self._module_cache']
    if reuses:
        res.check('C09-R3', 'long-lived cache entries are validated before reuse', len(preds) == 1, PROJECT,
                  reuses[0].lineno, 'get_module reuses an entry of the long-lived _module_cache without testing that the '
                  'module is unchanged (m.changed): every edit is invisible until the process restarts')
    ch = facts.classes['SourceModule'].lookup('changed')
    if ch is None:
        raise AnalysisError('SourceModule.changed vanished')
    pred_funcs = {ch.key} | {k for k in cg.reach(ch.key, True)}
    dependency_aware = False
    reads = set()
    for k in pred_funcs:
        f = facts.funcs.get(k)
        if f is None or f.rel not in (MODULE, PROJECT):
            continue
        for n in ast.walk(f.node):
            if isinstance(n, ast.Attribute) and unparse(n.value) == 'self' and isinstance(n.ctx, ast.Load):
                reads.add(n.attr)
            if isinstance(n, (ast.For, ast.comprehension)) or (isinstance(n, ast.Call) and unparse(n.func) in ('any', 'all')):
                dependency_aware = True
    cc = repo.method(PROJECT, 'Project', 'check_changes')
    clears_all = any(isinstance(c, ast.Call) and unparse(c.func) in ('self._module_cache.clear',)
                     for c in ast.walk(cc)) or any(
        isinstance(a, ast.Assign) and unparse(a.targets[0]) == 'self._module_cache' for a in ast.walk(cc))
    res.extra['validity_predicate_reads'] = sorted(reads)
    seen = set()
    for fi, node, why in retention:
        key = why if why.startswith('evaluation memos') else '%s: %s' % (fi.qual, why.split(' (')[0][:60])
        if key in seen:
            continue
        seen.add(key)
        ok = dependency_aware or clears_all
        res.check('C09-R1', key, ok, fi.rel, getattr(node, 'lineno', fi.node.lineno),
                  '%s keeps a value derived from another module on an object reachable from Project._module_cache, but '
                  'the reuse test of the cache (SourceModule.changed, reading only %s) looks at the module\'s own file: '
                  'after an edit of the imported module the importing module\'s cached analysis is served stale'
                  % (fi.qual, sorted(reads)),
                  sample='%s validated by a dependency-aware predicate: %s' % (key, ok))

    # ---- R4 the predicate detects every change of the modification time ----------------------------------------
    rets = [r for r in ast.walk(ch.node) if isinstance(r, ast.Return) and r.value is not None]
    ok = False
    shape = ''
    for r in rets:
        v = r.value
        shape = unparse(v)
        neg = False
        if isinstance(v, ast.UnaryOp) and isinstance(v.op, ast.Not):
            v, neg = v.operand, True
        if isinstance(v, ast.Compare) and len(v.ops) == 1:
            sides = {unparse(v.left), unparse(v.comparators[0])}
            stored = any(x in ('self.mtime', 'self._mtime') for x in sides)
            current = any('getmtime(' in x or 'st_mtime' in x for x in sides)
            differs = (isinstance(v.ops[0], ast.NotEq) and not neg) or (isinstance(v.ops[0], ast.Eq) and neg)
            ok = stored and current and differs
        elif isinstance(v, ast.BoolOp) and isinstance(v.op, ast.Or):
            # own change OR a dependency changed
            ok = any(isinstance(x, ast.Compare) and isinstance(x.ops[0], ast.NotEq) and 'mtime' in unparse(x) for x in v.values)
    res.check('C09-R4', 'validity predicate detects any change of mtime', ok, MODULE, ch.node.lineno,
              'SourceModule.changed must be true whenever the modification time differs from the one seen at load time '
              '(an edit may move the mtime backwards: restore, cp -p, rsync -t); it returns `%s`' % shape,
              sample='changed = %s' % shape)
    lm = [a for a in ast.walk(facts.classes['SourceModule'].methods['__init__'].node)
          if isinstance(a, ast.Assign) and unparse(a.targets[0]) == 'self.mtime']
    res.check('C09-R4', 'mtime recorded at load time', len(lm) == 1 and 'getmtime(filename)' in unparse(lm[0].value), MODULE,
              lm[0].lineno if lm else 0, 'the modification time must be recorded when the module object is created', nontrivial=False)

    # ---- R2 every request runs inside the change-checking context -------------------------------------------
    srv = repo.klass(SERVER, 'Server')
    nreq = 0
    for m in srv.body:
        if isinstance(m, ast.FunctionDef) and m.name in ('assist', 'location', 'lint'):
            nreq += 1
            api = list(_api_calls(repo.tree(SERVER), srv, m, frozenset(), False, 0))
            ok = bool(api) and all(inside for _c, inside in api)
            res.check('C09-R2', 'Server.%s inside check_changes' % m.name, ok, SERVER, m.lineno,
                      'Server.%s must call the API inside `with self.project.check_changes()`' % m.name,
                      sample='Server.%s wraps the API call in check_changes()' % m.name)
    res.count('request_methods', nreq, floor=3)
    body = [s for s in cc.body if not (isinstance(s, ast.Expr) and isinstance(s.value, ast.Constant))]
    idx_clear = [i for i, s in enumerate(body) if 'self._context_cache.clear()' in unparse(s) or
                 (isinstance(s, ast.Assign) and unparse(s.targets[0]) == 'self._context_cache')]
    idx_yield = [i for i, s in enumerate(body) if any(isinstance(n, ast.Yield) for n in ast.walk(s))]
    ok = bool(idx_clear) and bool(idx_yield) and min(idx_clear) < min(idx_yield) and \
        'contextmanager' in [unparse(d) for d in cc.decorator_list]
    res.check('C09-R2', 'check_changes clears the per-request cache before yielding', ok, PROJECT, cc.lineno,
              'check_changes must clear _context_cache before it yields')

    # the module tables belong to Project: their validity is decided in get_module / check_changes only
    from ..core import private_state_accesses
    priv, outside = private_state_accesses(repo, facts, 'Project')
    for attr, rel, line, qual in outside:
        if 'norm' not in attr:
            res.check('C09-R2', '%s touched in %s' % (attr, qual), False, rel, line,
                      'a module table of Project is read or written outside Project (in %s): entries that bypass get_module are never '
                      're-validated against the file, entries removed or added elsewhere change what a request sees' % qual)
    res.ob('C09-R2', 'module tables owned by Project', not any('norm' not in a for a, _r, _l, _q in outside),
           sample='%s accessed only inside Project' % ', '.join(p for p in priv if 'norm' not in p))

    # ---- R3 the per-request cache cannot resurrect a stale entry ----------------------------------------------
    # decided by the history model below: both lookups of a request (the second one goes through the per-request table) must
    # serve the analysis of the current file content, and the module must keep its identity within the request.  (The former
    # structural form of this rule - "the store sits in the else-branch of `if m.changed` inside get_module" - alarmed on a
    # behaviour-preserving split of get_module into helpers and was withdrawn.)
    # ---- R5 the cache protocol itself, interpreted over edit histories on a modelled file system -------------------
    from .. import api_model
    depth = 5 if getattr(repo, 'tier', 'quick') == 'thorough' else 3
    api_model.apply(res, api_model.cache_history_model(repo, depth), {'history': 'C09-R5', 'history-count': 'C09-R5', 'identity': 'C09-R3', 'second-lookup': 'C09-R3'}, PROJECT, 0)
    res.assumptions.extend(['a validity predicate that iterates/recurses over recorded modules is taken to be dependency aware',
                            'mtime granularity, deletions and shadowing are outside the property domain'])
