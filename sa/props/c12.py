"""C12 -- completion contract: exact prefix, clean sorted proposals.
Decides three structural clauses; the "transparent cursor" relation between the
marked and unmarked analyses is NOT decided.
"""
import ast
import re
import string

from ..core import AnalysisError, unparse, norm_stmt
from ..derive import Expander
from ..facts import get_facts

EXPLANATION = (
    'assistant.assist is abstractly interpreted (sa/api_model.py) on stub analyses: Source, the prefix computation, the package-name '
    'arithmetic and the result formatting are supp\'s own code, the cursor finders / the analysis / the evaluator / the project are '
    'recording stubs. R1 prefix: for every printable ASCII character c the line `xy = a<c>bcd|efg` (cursor in the middle of three '
    'lines), plus start-of-line, empty-prefix, string/comment, `from ...` and `import(` lines: the prefix must be exactly the '
    'trailing run of identifier characters of the text left of the cursor; R2 every branch (bare name, attribute, import, '
    'from-import, unresolvable package) returns (prefix, list) with the proposals sorted and duplicate-free although the stub '
    'tables contain duplicates, names differing only in case and both plain and cursor-marked forms - under both iteration orders '
    'of sets; if the sink does not remove duplicates every attr_list implementation must return unique keys; on half-typed '
    '`from` lines the relative level and path handed to norm_package are the typed ones; R3 the cursor marker cannot reach the '
    'proposals (sink sanitised in the model; otherwise names must be un-marked where they are created); R4 the visitors that '
    'locate the cursor-marked node continue into every expression child when the mark is not on the visited node (a cursor below '
    'a call or subscript must still be found). Mark transparency as a whole (a relation between two analyses of every file and '
    'position) is NOT decided.'
    ' Later additions: R3 the table of recorded attribute assignments is computed from the marked text - SourceScope.assigns (interpreted) must not evaluate a receiver that contains the cursor mark; R4 every statement kind with an expression the cursor can stand in is handled by the statement finders.')
TECHNIQUE = 'abstract interpretation of assist on stub analyses (one probe per ASCII character before the cursor, stub tables with duplicates and marked names, both set-iteration orders) + finder-visitor completeness rule'

ASSIST = 'supp/assistant.py'
IDENT = set(string.ascii_letters + string.digits + '_')
TEXT_ROOTS = {'line', 'source', 'ln', 'col', 'position', 're', 'len', 'str'}
TREE_FUNCS = ('get_marked_import', 'get_marked_name', 'get_marked_atribute', 'get_marked_attribute', 'extract_scope')


def names_in(e):
    return {n.id for n in ast.walk(e) if isinstance(n, ast.Name)}


def run(repo, res):
    assist = repo.module_func(ASSIST, 'assist')
    from .. import api_model
    recs = api_model.assist_model(repo)
    n = api_model.apply(res, recs, {'prefix': 'C12-R1', 'shape': 'C12-R2', 'sorted': 'C12-R2', 'unique': 'C12-R2', 'ident': 'C12-R2',
                                    'pkg': 'C12-R2', 'branch': 'C12-R2'}, ASSIST, assist.lineno)
    res.count('assist_scenarios', n, floor=120)
    # what an import line proposes comes from Project.list_packages: interpreted on a modelled directory with the suffixes importlib
    # uses (ABI-tagged extension modules included), every proposed name must be an identifier
    api_model.apply(res, api_model.list_packages_model(repo), {'lp-ident': 'C12-R2'}, 'supp/project.py', 0)
    # the analysis assist asks is that of the *marked* text: what it computes from recorded assignments must not depend on where the mark is
    api_model.apply(res, api_model.assigns_model(repo), {'assigns-mark': 'C12-R3'}, 'supp/scope.py', 0)
    # a sink that removes duplicates makes the proposals duplicate-free whatever attr_list returns; otherwise every
    # attr_list implementation must return unique keys
    sink = [r for r in recs if r[0] == 'unique-sink']
    sink_dedups = bool(sink) and all(r[2] for r in sink)
    facts = get_facts(repo)
    nal = 0
    for fi in facts.funcs.values():
        if fi.name != 'attr_list' or fi.cls is None:
            continue
        nal += 1
        for r in [x for x in ast.walk(fi.node) if isinstance(x, ast.Return) and x.value is not None]:
            ok, why = (True, 'assist removes duplicates at the sink') if sink_dedups else unique_iter(Expander(fi.node).expand(r.value))
            res.check('C12-R2', '%s cannot introduce duplicates' % fi.qual, ok, fi.rel, r.lineno,
                      'assist does not remove duplicates and %s returns `%s`, which may contain duplicates (%s)'
                      % (fi.qual, unparse(r.value), why), nontrivial=False)
    res.count('attr_list_impls', nal, floor=2)   # Object's default and at least one override
    from .. import resolve_model as M
    M.check_merged_dict(repo, res, 'C12-R2')
    # ---- R3 the marker cannot reach the proposals -----------------------------------------------------
    clean = [r for r in recs if r[0] == 'clean']
    sink_clean = bool(clean) and all(r[2] for r in clean)
    src_cls = repo.klass('supp/util.py', 'Source')
    spliced = 'SOURCE_MARK' in unparse(src_cls)
    source_clean = True
    for rel in ('supp/nast.py', 'supp/scope.py'):
        for c in ast.walk(repo.tree(rel)):
            if isinstance(c, ast.Call) and unparse(c.func) in ('AssignedName', 'ImportedName', 'ArgumentName') and c.args:
                a0 = unparse(c.args[0])
                if any(a0.endswith(sfx) for sfx in ('.id', '.arg', '.name', 'name', '.attr')) and 'unmark(' not in a0:
                    source_clean = False
    ok = sink_clean or source_clean or not spliced
    bad = [r for r in clean if not r[2]]
    res.check('C12-R3', 'cursor marker cannot reach proposals', ok, ASSIST, assist.lineno,
              'the cursor marker is spliced into the analysed text, binders under the cursor are created with the marked '
              'identifier, and assist returns the names unfiltered (%s): `self.ba|r = 1` proposes `ba__supp_mark__r`. Un-mark or '
              'filter at the sink, or un-mark every identifier where names are created' % (bad[0][3] if bad else ''),
              sample='marker spliced=%s, sink sanitised=%s, sources sanitised=%s' % (spliced, sink_clean, source_clean))
    # ---- R4 the cursor node is found wherever it is --------------------------------------------------------------
    # (a necessary condition of cursor transparency: the mark finders must reach every position of the tree)
    UTIL = 'supp/util.py'
    nfind = 0
    for cname in ('get_marked_atribute_visitor', 'get_marked_name_visitor', 'get_any_marked_name_visitor',
                  'get_marked_import_visitor'):
        k = repo.klass(UTIL, cname)
        for m in k.body:
            if not (isinstance(m, ast.FunctionDef) and m.name.startswith('visit_')):
                continue
            nfind += 1
            kind = m.name[6:]
            # children of this node kind that can contain further expressions
            from .. import grammar as G
            kids = [f.name for f in G.fields(kind) if f.sort in ('expr', 'stmt') or f.sort in G.NODE_FIELDS and f.sort not in ('expr_context',)] \
                if kind in G.NODE_FIELDS else []
            kids = [f for f in kids if f not in ('ctx',)]
            # statements executed when the mark is not here: top-level statements of the method that are not the mark test
            top = [st for st in m.body if not (isinstance(st, ast.Expr) and isinstance(st.value, ast.Constant))]
            descends = set()
            for st in top:
                if isinstance(st, ast.Expr) and isinstance(st.value, ast.Call):
                    f = unparse(st.value.func)
                    if f == 'self.generic_visit':
                        descends.update(kids)
                    if f == 'self.visit' and st.value.args:
                        a = unparse(st.value.args[0])
                        if a.startswith('node.'):
                            descends.add(a[5:])
                if isinstance(st, ast.For) and unparse(st.iter).startswith('node.') and '[' not in unparse(st.iter):
                    descends.add(unparse(st.iter)[5:])
            need = [f for f in kids if G.SORT_OF.get(kind) == 'expr' or kind in ('Import', 'ImportFrom')]
            if G.SORT_OF.get(kind) == 'stmt' and kind not in ('Import', 'ImportFrom'):
                # a statement handled by a method of its own: every expression child must still be searched - somewhere in the method
                # (a visit under a condition counts: the other branch is the one that found the mark), local aliases followed
                alias = {}
                for st in ast.walk(m):
                    if isinstance(st, ast.Assign) and len(st.targets) == 1 and isinstance(st.targets[0], ast.Name) \
                            and unparse(st.value).startswith('node.'):
                        alias[st.targets[0].id] = unparse(st.value)[5:]
                for c in ast.walk(m):
                    if isinstance(c, ast.Call) and unparse(c.func) in ('self.visit', 'self.generic_visit') and c.args:
                        a = unparse(c.args[0])
                        if a == 'node':
                            descends.update(kids)
                        elif a.startswith('node.'):
                            descends.add(a[5:].split('[')[0].split('.')[0])
                        elif a in alias:
                            descends.add(alias[a].split('[')[0].split('.')[0])
                    if isinstance(c, ast.For) and isinstance(c.target, ast.Name):
                        it_ = unparse(c.iter)
                        src_ = it_[5:] if it_.startswith('node.') else alias.get(it_)
                        if src_ and any(isinstance(x, ast.Call) and unparse(x.func) == 'self.visit' and x.args and
                                        unparse(x.args[0]).split('.')[0] == c.target.id for x in ast.walk(c)):
                            descends.add(src_.split('[')[0].split('.')[0])
                need = [f.name for f in G.fields(kind) if f.sort == 'expr']
            if kind in ('Import', 'ImportFrom'):
                need = ['names']
            if kind == 'Name':
                need = []
            missing = [f for f in need if f not in descends]
            res.check('C12-R4', '%s.%s keeps searching' % (cname, m.name), not missing, UTIL, m.lineno,
                      '%s.%s does not continue into %s when the mark is not on this node: a cursor below it is never found, so '
                      'assist/location answer as if there were no cursor (empty proposals)' % (cname, m.name, missing),
                      sample='%s.%s descends into %s' % (cname, m.name, sorted(descends) or 'nothing (leaf)'))
    res.count('mark_finder_methods', nfind, floor=5)
    res.note('the `from pkg.mod|` branch derives the prefix by rpartition on " " and "."; the line is known to start with '
             '"from " and to contain no " import ", so the text is a dotted module path (note only).')
    res.assumptions.extend(['stdlib re implements the pattern literal (constant folding of a pure stdlib call)',
                            'mark transparency is not decided'])


def unique_iter(e):
    """Is the expression a container that iterates unique keys?"""
    t = unparse(e)
    if isinstance(e, (ast.Set, ast.SetComp, ast.Dict, ast.DictComp)):
        return True, 'set/dict display'
    if isinstance(e, ast.Call):
        f = unparse(e.func)
        if f in ('set', 'frozenset', 'dict', 'MergedDict'):
            return True, f + '(...)'
        if f.endswith('.names_at') or f.endswith('.attr_list') or f.endswith('.copy'):
            return True, 'keyed table (%s)' % f.split('.')[-1]
    if isinstance(e, ast.BinOp) and isinstance(e.op, (ast.BitOr, ast.BitAnd, ast.Sub)):
        a, _ = unique_iter(e.left)
        b, _ = unique_iter(e.right)
        return a and b, 'set expression'
    if isinstance(e, ast.Attribute) and e.attr in ('_attrs', '_names', 'names'):
        return True, 'keyed table .%s' % e.attr
    if isinstance(e, ast.Name) and e.id in ('names', 'result'):
        return True, 'locally built table'
    if isinstance(e, ast.IfExp):
        a, _ = unique_iter(e.body)
        b, _ = unique_iter(e.orelse)
        return a and b, 'conditional'
    if isinstance(e, (ast.GeneratorExp, ast.ListComp)):
        # a filter / un-marking over a unique container stays unique only under set(...)
        return False, 'comprehension (wrap in set(...))'
    return False, 'unknown container `%s`' % t[:40]


def extraction_shape(full, call):
    """-> function (pattern, line) -> prefix, for the recognised extraction idioms."""
    fn = unparse(call.func)
    p = getattr(call, '_parent', None)
    # the expanded tree has no parent links: search for the wrapper by structure
    for n in ast.walk(full):
        if isinstance(n, ast.Subscript) and n.value is call and unparse(n.slice) == '-1' and fn == 're.split':
            return lambda pat, line: re.split(pat, line)[-1]
        if isinstance(n, ast.Call) and isinstance(n.func, ast.Attribute) and n.func.value is call \
                and n.func.attr == 'group' and fn in ('re.search', 're.match'):
            return lambda pat, line, _f=fn: getattr(re, _f[3:])(pat, line).group()
        if isinstance(n, ast.Subscript) and n.value is call and unparse(n.slice) == '0' and fn in ('re.search',):
            return lambda pat, line: re.search(pat, line)[0]
        if isinstance(n, ast.Subscript) and n.value is call and unparse(n.slice) == '-1' and fn == 're.findall':
            return lambda pat, line: re.findall(pat, line)[-1]
    return None
