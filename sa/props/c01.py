"""C01 -- names bound at run time are visible (no false E02/E42, offered in
completion).  Decides the exhaustiveness / placement / continuity necessary
conditions on the extractor; value-level lookup for arbitrary programs is not
decided.
"""
import ast

from ..core import AnalysisError, unparse
from .. import rules_e1 as R
from ..derive import Expander
from ..facts import handler_catches

EXPLANATION = (
    "Static exhaustiveness analysis of supp's name extractor. Engine E1 abstractly interprets "
    'every visit_* method of nast.extract_visitor (and the scope/name constructors it calls) '
    'over symbolic node shapes of every statement/expression type of the running Python '
    'grammar (list fields 0/1/2 long, optionals present/absent, all assignment-target kinds) '
    'and yields, per node type, which children are visited in which region and which names '
    'are bound where. Rules: R1 every expression-bearing grammar path is visited (else E42); '
    'R2 every binding grammar position produces a binding of the right class, global/nonlocal '
    'declarations are honoured (else E02); R3 visits/bindings are placed in the scope the '
    'language reference prescribes; R4 a binding is visible at every sibling expression '
    'Python evaluates after it, and after the construct; R5 no region produced inside a child '
    'is dropped (continuity) and every block Python can reach from a block is reachable in '
    "supp's region graph; R6 lint's E02/E42 and assist's name branch consult names_at of the "
    "read's own region and position; R7 SourceScope.resolve_star_imports, abstractly interpreted, binds every public name of "
    'every resolvable star import and skips (does not stop at) an unresolvable one. Each failure is a concrete in-domain program class with a '
    'false E02/E42. The value-level correctness of lookups for arbitrary programs is NOT decided.'
    " Later additions to R5: every region a visit method creates is the final region of the construct or one of its ancestors (no dead end); supp's own names_at / lookup, interpreted on the region graph of every construct rebuilt from its Flow objects in the state the extractor leaves them in (flags and name tables written on regions, back edges through Flow.loop), finds exactly the bindings the graph makes visible; one composed shape (a try body ending in `if ...: raise`) is generated beside the depth-1 shapes.")
TECHNIQUE = ('abstract interpretation of the extractor over grammar shapes (visitor summaries) + '
             'exhaustiveness/placement/visibility rules against Python-reference tables')

LINTER = 'supp/linter.py'
ASSIST = 'supp/assistant.py'


def run(repo, res):
    _ns, _np = R.shape_stats(repo)
    res.extra['e1_shapes_interpreted'] = _ns
    res.extra['e1_shape_paths_interpreted'] = _np
    # ---- R1 / R3 read coverage and placement ---------------------------------
    cov = R.read_coverage(repo)
    for (cls, path), r in sorted(cov.items()):
        key = '%s %s' % (R.method_name(repo, cls), path)
        if r['skip']:
            res.ob('C01-R1', key, True, nontrivial=False, sample='%s: exempt, %s' % (key, r['skip']))
            continue
        res.check('C01-R1', key, not r['unvisited'], r['line'][0], r['line'][1],
                  'reads below %s.%s are never visited by the extractor (in %d of %d shape paths): '
                  'every Name there gets no region -> lint reports E42 and completion/definition '
                  'fail at that position' % (cls, path, len(r['unvisited']), r['n']),
                  sample='%s visited in every one of %d shape paths' % (key, r['n']))
        if not r['unvisited']:
            res.check('C01-R3', key, not r['misplaced'], r['line'][0], r['line'][1],
                      '%s.%s is evaluated in the %s scope by Python but visited in region %s of scope %s'
                      % (cls, path, 'new' if r['scope'] == 'new' else 'enclosing',
                         r['misplaced'][0][2] if r['misplaced'] else '', r['misplaced'][0][3] if r['misplaced'] else ''),
                      sample='%s placed in the %s scope' % (key, 'new' if r['scope'] == 'new' else 'enclosing'))
    res.count('read_paths', len(cov), floor=120)

    # ---- R2 / R3 / R4 binders ---------------------------------------------------
    brecs = R.binder_records(repo)
    for (cls, kind, path), r in sorted(brecs.items()):
        key = '%s %s %s' % (R.method_name(repo, cls), kind, path)
        line = r['line']
        if r['n'] == 0:
            # every shape with this binder makes the extractor raise: reported by C08-R2
            res.note('%s: extractor raises on every shape with this binder (see C08-R2)' % key)
            continue
        res.check('C01-R2', key, not r['missing'] and not r['wrong_class'], line[0], line[1],
                  'binder %s (%s.%s) %s -> the name is never entered in any region: E02 on every read'
                  % (kind, cls, path, 'produces no binding' if r['missing'] or not r['wrong_class'] else
                     'produces a %s' % r['wrong_class'][0][1]),
                  sample='%s bound as %s in %d shapes' % (key, R.EXPECTED_CLASS[kind], r['n']))
        if r['missing']:
            continue
        res.check('C01-R3', key + ' scope', not r['wrong_scope'], line[0], line[1],
                  'binder %s is bound in scope %s; Python binds it in the %s scope'
                  % (key, r['wrong_scope'][0][2] if r['wrong_scope'] else '', 'new' if kind in ('param', 'posonly') else 'enclosing'),
                  nontrivial=False)
        res.check('C01-R2', key + ' global route', not r['global_route'], line[0], line[1],
                  'a global-declared %s is not routed to the module table' % key, nontrivial=False)
        if r.get('nonlocal_paths'):
            res.check('C01-R2', key + ' nonlocal route', not r.get('nonlocal_route'), line[0], line[1],
                      'a nonlocal-declared %s is still made a local of the declaring scope (or filed with the module): it masks the '
                      'owner\'s binding, reads before it in the inner function get E02' % key, nontrivial=False)
        nv = sorted({p for _, p in r['not_visible']})
        res.check('C01-R4', key, not nv, line[0], line[1],
                  'binding %s is not visible at %s, which Python evaluates after the binding '
                  '(anchor of the binding lies textually after these expressions in the same region): '
                  'false E02 there' % (key, nv),
                  sample='%s visible at every later sibling expression' % key)
        if r.get('np_of_stmt'):
            res.check('C01-R4', key + ' visible from the first token of the block', False, line[0], line[1],
                      'binding %s becomes visible at np(%s), the position the parser gives that statement; for a decorated def / async def '
                      '/ class this is the keyword, not the `@`: a read of the name in the decorators of a definition that opens the '
                      'block gets E02 (and the binding W01)' % (key, r['np_of_stmt'][0][1]))
        res.check('C01-R4', key + ' after', not r['not_after'], line[0], line[1],
                  'binding %s does not reach the code after the construct' % key, nontrivial=False)
    res.count('binders', len(brecs), floor=45)
    from ..exprend import first_statement_layouts
    for text, ok, detail in first_statement_layouts(repo):
        if ok is None:
            raise AnalysisError('get_first_body_node_loc is outside the interpretable subset on %r: %s' % (text, detail))
        res.check('C01-R4', 'first token of a body starting with %r' % ' / '.join(l.strip() for l in text.splitlines()[:2]),
                  ok, 'supp/scope.py', 0, detail, sample='parameters visible from the first token of %r' % text.splitlines()[0])

    drecs = R.declaration_records(repo)
    nl = drecs.get('Nonlocal')
    if nl is not None and not nl['undeclared']:
        consulted = sum(r.get('nonlocal_paths', 0) for r in brecs.values())
        res.check('C01-R2', 'nonlocal declarations are consulted when a name is bound', consulted > 0, nl['line'][0], nl['line'][1],
                  'nonlocal statements are recorded, but no binder ever looks the identifier up in that table: the assignment still '
                  'creates a local of the inner function and masks the owner\'s binding (E02 on reads before it)',
                  sample='%d binder paths decide on the nonlocal table' % consulted)
    for cls in ('Global', 'Nonlocal'):
        r = drecs.get(cls)
        if r is None:
            raise AnalysisError('no summary for %s' % cls)
        res.check('C01-R2', '%s declaration' % cls, not r['undeclared'], r['line'][0], r['line'][1],
                  '%s statements are not recorded by the extractor: a later assignment creates a local '
                  "binding in the inner scope and masks the owner's binding (E02 on reads before it)" % cls,
                  sample='%s names recorded in the scope' % cls)
        res.check('C01-R2', '%s declaration touches only its own block' % cls, not r['foreign'], r['line'][0], r['line'][1],
                  'a %s statement changes the name tables of another scope (%s): bindings of that name made there - e.g. at module '
                  'level after the function - are filed away from the region they are made in and reads next to them get E02'
                  % (cls.lower(), sorted({f for _v, f in r['foreign']})), sample='%s changes only the declaring scope' % cls)

    # ---- R5 continuity -------------------------------------------------------------
    crecs = R.continuity_records(repo)
    for cls, r in sorted(crecs.items()):
        for path, line in sorted(r['dropped'].items()):
            res.check('C01-R5', '%s %s exit dropped' % (R.method_name(repo, cls), path), False, line[0], line[1],
                      'the region left current after visiting %s.%s is discarded: bindings made in regions '
                      'created inside it (branches, comprehensions with walrus) are invisible to the code '
                      'that follows -> false E02' % (cls, path))
        if r['desync'] and not r['dropped']:
            res.check('C01-R5', '%s scope.flow' % R.method_name(repo, cls), False, r['line'][0], r['line'][1],
                      'after %s the visitor continues in %s but scope.flow is %s: closures and module '
                      'exports resolve against a different region than the following statements'
                      % (cls, r['desync'][0][1], r['desync'][0][2]))
        if not r['dropped'] and not r['desync']:
            res.ob('C01-R5', '%s continuity' % cls, True, nontrivial=cls in (
                'If', 'For', 'While', 'Try', 'With', 'ListComp', 'FunctionDef', 'ClassDef', 'Lambda'),
                sample='%s: every child exit region is consumed, scope.flow == self.flow at exit' % cls)
    dead, ncreated = R.dead_end_records(repo)
    for (cls, hint), r in sorted(dead.items()):
        res.check('C01-R5', '%s region `%s` leads nowhere' % (R.method_name(repo, cls), hint), False, r['line'][0], r['line'][1],
                  'on %s shape `%s` the region `%s` created by the visit method is neither the region the construct ends in nor an ancestor '
                  'of it: names bound there (a walrus in the expression visited there) are lost to the code after the construct'
                  % (cls, r['variants'][0], hint))
    res.ob('C01-R5', 'no created region is a dead end', not dead, sample='%d regions created by visit methods all lead to the final region' % ncreated)
    res.count('created_regions', ncreated, floor=300)
    seen = set()
    nblocks = 0
    for r in R.block_records(repo):
        k = (R.method_name(repo, r['cls']), r['a'], r['b'])
        nblocks += 1
        bad = r['ref_may'] and not r['supp_may']
        if k in seen and not bad:
            continue
        if bad and (k, 'bad') in seen:
            continue
        seen.add(k)
        if bad:
            seen.add((k, 'bad'))
        res.check('C01-R5', '%s %s -> %s reach' % k, not bad, r['line'][0], r['line'][1],
                  'Python can reach %s.%s after executing %s.%s, but in the region graph %s is not '
                  'an ancestor of the region %s is visited in: names bound in %s are reported '
                  'undefined there' % (r['cls'], r['b'], r['cls'], r['a'], r['a'], r['b'], r['a']),
                  sample='%s: bindings of block %s reach block %s' % (r['cls'], r['a'], r['b']))
    res.count('block_pairs', nblocks, floor=100)
    # the lookups honour that region graph: supp's own names_at interpreted on the graph rebuilt from its own Flow objects
    from .. import resolve_model as _M
    lrecs, lq = _M.lookup_reach_records(repo)
    seen = set()
    for r in lrecs:
        bad = r['struct_may'] and not r['sem_may']
        k = (R.method_name(repo, r['cls']), r['a'], r['b'], bad)
        if k in seen:
            continue
        seen.add(k)
        res.check('C01-R5', '%s %s -> %s lookup' % k[:3], not bad, r['line'][0], r['line'][1],
                  'on %s shape `%s` the region %s is visited in inherits from the region of %s, yet supp\'s own lookup (names_at on '
                  'the graph rebuilt from its Flow objects, in the state the extractor leaves them) does not find a name bound in %s '
                  'there: it is reported undefined' % (r['cls'], r['variant'], r['b'], r['a'], r['a']),
                  sample='%s: the lookup at %s finds the bindings of %s' % (r['cls'], r['b'], r['a']))
    res.count('lookup_reach_queries', lq, floor=300)

    # ---- R7 star imports ---------------------------------------------------------------------------
    from .. import resolve_model as M
    M.check_star_imports(repo, res, 'C01-R7')
    M.check_module_level_globals(repo, res, 'C01-R2')

    # ---- R6 lint / assist wiring -------------------------------------------------------
    lint = repo.module_func(LINTER, 'lint')
    from .. import api_model
    api_model.apply(res, api_model.lint_model(repo), {'producers': 'C01-R6', 'lookup': 'C01-R6'}, LINTER, lint.lineno)
    assist = repo.module_func(ASSIST, 'assist')
    api_model.apply(res, [r for r in api_model.assist_model(repo) if 'name branch' in r[1]], {'source': 'C01-R6'}, ASSIST,
                    assist.lineno)
    res.assumptions.extend([
        'CPython ast node classes/fields as published in their __doc__ (grammar table)',
        'T1/T2 reference tables (sa/pyref.py) transcribe the language reference correctly',
        'frozen summaries of np/get_expr_end/insert_loc/get_first_body_node_loc (re-validated structurally each run)',
        'ideal region-graph resolution semantics (checked by C02-R4, C03-R2, C04)',
        'an opaque child creates no region (depth-1 templates); region-creating children are covered by R5 continuity',
    ])
