"""C02 -- the definition actually read is reported (no false 'unused', goto-def
complete).  Decides the join construction: which regions are predecessors of
which (completeness direction), that all alternatives are marked/expanded, that
no partial join is memoised, and that the predecessor union is total.
"""
import ast

from ..core import AnalysisError, unparse
from .. import rules_e1 as R
from .. import resolve_model as M
from . import c04

EXPLANATION = (
    "Static analysis of the join construction of supp's region graph. R1 (E1+E2 depth 1): for "
    'every compound construct the block-level may-reach relation of the Python reference CFG '
    "(sa/pyref.py T3) must be contained in the may-reach relation of supp's region template "
    '(regions, parents, back edges extracted by abstract interpretation of the visitor), and '
    'every binding must be visible at each sibling expression evaluated after it; R2 lint '
    'marks every alternative of a multiply-bound name and declarations() expands all of them; '
    'R3 no table computed while a loop back edge is unresolved is memoised (the C04 rule on '
    'the LoopFlow cycle); R4 Flow.parent_names/names/names_at, abstractly interpreted on '
    'symbolic region graphs with 1..3 predecessors, return the union over all predecessors '
    'with own bindings shadowing inherited ones. Correctness of the position cut for every '
    'layout and inter-scope reads are NOT decided.'
    " Later addition to R1: supp's own names_at / lookup is interpreted on the region graph of every construct rebuilt from its Flow objects, in the state the extractor leaves them in (a definition the graph makes live must be found).")
TECHNIQUE = ('region-template extraction by abstract interpretation + reaching-definition containment '
             'against reference CFG templates + abstract interpretation of the resolution functions')

LINTER = 'supp/linter.py'
EVAL = 'supp/evaluator.py'


def run(repo, res):
    _ns, _np = R.shape_stats(repo)
    res.extra['e1_shapes_interpreted'] = _ns
    res.extra['e1_shape_paths_interpreted'] = _np
    # ---- R1 template completeness -------------------------------------------------
    seen = set()
    n = 0
    for r in R.block_records(repo):
        k = (R.method_name(repo, r['cls']), r['a'], r['b'])
        n += 1
        bad = r['ref_may'] and not r['supp_may']
        tag = (k, bad)
        if tag in seen:
            continue
        seen.add(tag)
        res.check('C02-R1', '%s %s -> %s' % k, not bad, r['line'][0], r['line'][1],
                  'a definition made in %s.%s can be live at %s.%s (Python control flow), but the region '
                  '%s is visited in does not inherit from the region of %s: the read is not associated with '
                  'that definition -> false W01/W02 on it, go-to-definition misses it'
                  % (r['cls'], r['a'], r['cls'], r['b'], r['b'], r['a']),
                  sample='%s: definitions of %s reach %s' % (r['cls'], r['a'], r['b']))
    res.count('block_pairs', n, floor=100)
    from .. import resolve_model as _M
    lrecs, lq = _M.lookup_reach_records(repo)
    seen = set()
    for r in lrecs:
        bad = r['struct_may'] and not r['sem_may']
        k = (R.method_name(repo, r['cls']), r['a'], r['b'], bad)
        if k in seen:
            continue
        seen.add(k)
        res.check('C02-R1', '%s %s -> %s lookup' % k[:3], not bad, r['line'][0], r['line'][1],
                  'on %s shape `%s` a definition made in %s can be live at %s and the region graph says so, yet supp\'s own lookup '
                  '(names_at interpreted on the graph rebuilt from its Flow objects, in the state the extractor leaves them) does not '
                  'associate the read with it' % (r['cls'], r['variant'], r['a'], r['b']),
                  sample='%s: the lookup at %s finds the definitions of %s' % (r['cls'], r['b'], r['a']))
    res.count('lookup_reach_queries', lq, floor=300)
    # ---- lookup order: the later statement of a block is consulted before the earlier one ----------------------
    nsh = 0
    for (cls, blk, reader), r in sorted(R.shadow_records(repo).items()):
        nsh += r['n']
        bad = r['bad']
        res.check('C02-R1', '%s %s lookup order from %s' % (R.method_name(repo, cls), blk, reader), not bad, r['line'][0], r['line'][1],
                  'a read in %s.%s reaches the region of %s (walk %s) without first consulting the region(s) %s of the later '
                  'statements of the same block: a name bound there and rebound later in the block resolves to the earlier, '
                  'overwritten binding (the later one is reported unused, go-to-definition misses it)'
                  % (cls, reader, bad[0][1] if bad else '', bad[0][3] if bad else '', bad[0][2] if bad else ''),
                  sample='%s: from %s the later statements of %s shadow the earlier ones' % (cls, reader, blk))
    res.count('lookup_order_cases', nsh, floor=150)
    # ---- continuity of statement blocks (shared with C01-R5): a dropped exit region loses/keeps definitions ----
    for cls, r in sorted(R.continuity_records(repo).items()):
        for path, line in sorted(r['dropped'].items()):
            stmt_block = path.split('.')[-1].split('[')[0] in ('body', 'orelse', 'finalbody')
            # round 13: an expression child of a *statement* (the iterable of a for, a with item, a test) whose exit region is
            # dropped loses the walrus bindings made inside it just the same: they are reported unused (false W01). The
            # children of comprehensions stay with C01-R5 (one root cause, recorded there).
            of_stmt = isinstance(getattr(ast, cls, None), type) and issubclass(getattr(ast, cls), ast.stmt)
            if not (stmt_block or of_stmt):
                continue
            res.check('C02-R5', '%s %s exit dropped' % (R.method_name(repo, cls), path), False, line[0], line[1],
                      'the region left current after %s.%s is discarded: bindings made in regions created inside it are never associated with later reads (false W01, go-to-definition misses them)' % (cls, path))
    res.ob('C02-R5', 'statement-block continuity', True, sample='every statement block\'s exit region is consumed by a join, the next block or the scope')
    brecs = R.binder_records(repo)
    for (cls, kind, path), r in sorted(brecs.items()):
        if r['n'] == 0 or r['missing']:
            continue
        key = '%s %s %s' % (R.method_name(repo, cls), kind, path)
        nv = sorted({p for _, p in r['not_visible']})
        res.check('C02-R1', key + ' visible', not nv and not r['not_after'], r['line'][0], r['line'][1],
                  'binding %s does not reach %s although Python evaluates it after the binding'
                  % (key, nv or 'the code after the construct'),
                  sample='%s reaches every later sibling and the continuation' % key)
        # a binding visible at a read Python evaluates before it *replaces* the definition that read actually obtains: in
        # `x = x + 1`, `def f(g=f)`, `class A(A if c else B)` the earlier binding is the one read - if the new one shadows it
        # there, the earlier one is not among the definitions of the read (false W01 on it)
        vb = sorted({p for _, p in r['visible_before']})
        res.check('C02-R1', key + ' does not shadow what its own expressions read', not vb, r['line'][0], r['line'][1],
                  'binding %s is already visible at %s, which Python evaluates before the binding exists: a read of the same name '
                  'there obtains the earlier binding, which supp no longer associates with it' % (key, vb), nontrivial=False)
    res.count('binders', len(brecs), floor=45)

    # ---- R2 all alternatives marked / expanded ----------------------------------------
    lint = repo.module_func(LINTER, 'lint')
    from .. import api_model
    api_model.apply(res, api_model.lint_model(repo), {'marks': 'C02-R2'}, LINTER, lint.lineno)
    decl = repo.method(EVAL, 'EvalCtx', 'declarations')
    api_model.apply(res, api_model.declarations_model(repo), {'alts': 'C02-R2', 'single': 'C02-R2', 'chain': 'C02-R2'}, EVAL,
                    decl.lineno)
    api_model.apply(res, api_model.location_model(repo), {'pairs': 'C02-R2'}, 'supp/assistant.py', 0)

    # ---- R3 no partial join memoised ----------------------------------------------------
    c04.rule_provisional_memo(repo, res, 'C02-R3', only_cycle='LoopFlow.names')

    # ---- R4 predecessor union is total ---------------------------------------------------
    M.check_union(repo, res, 'C02-R4')
    M.check_merged_dict(repo, res, 'C02-R4')
    res.assumptions.extend([
        'reference CFG templates (sa/pyref.py T3) restricted to the C02 domain: loops left by exhaustion, '
        'exceptions only at the first/last statement of a try body and always caught',
        'depth-1 templates: opaque children create no regions (continuity is C01-R5)',
    ])
