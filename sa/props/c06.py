"""C06 -- attribute completion and definition follow Python's lookup order.
Decides the precedence with which attribute tables are merged, the evaluate
dispatch, and the identity discipline the instance-attribute grouping relies on.
"""
import ast
import itertools

from ..core import AnalysisError, unparse, qualname
from ..facts import get_facts
from ..absint import Interp, Obj, Native, InterpRaise, Uninterpretable, Unknown

EXPLANATION = (
    'Static analysis of attribute lookup. R1 merge precedence: ClassObject._attrs and InstanceValue._attrs '
    '(supp/name.py) are abstractly interpreted (sa/absint.py) on a symbolic hierarchy D(B, C), B(A) - for every '
    'combination of classes defining an attribute in the class body and assigning it through self (256 '
    'combinations) the entry the merged table holds must be the one Python\'s lookup selects: an instance '
    'assignment if any class of the MRO makes one, otherwise the first class of the MRO (D, B, A, C) that defines '
    'it; R3 dispatch: every class that can be handed to EvalCtx.evaluate / declarations reaches the branch meant '
    'for it (order of the isinstance/type chain against the class table); R4 identity: ClassObject and '
    'InstanceValue are constructed only behind a memo, because SourceScope.assigns groups `self.x = ...` '
    'assignments by identity of the evaluated receiver, and FuncScope.get_argument binds exactly the first '
    'parameter of a method to that instance. That evaluation reaches the right class for an arbitrary expression '
    'is NOT decided.')
TECHNIQUE = 'abstract interpretation of the attribute-table merge on a symbolic class hierarchy, of evaluate/declarations dispatch on stub nodes of every class, and of the instance-assignment grouping'

NAME = 'supp/name.py'
MRO = ['D', 'B', 'A', 'C']          # D(B, C), B(A): depth-first left-to-right == C3 (no repeated ancestors)
BASES = {'D': ['B', 'C'], 'B': ['A'], 'A': [], 'C': []}
# thorough tier: depth 4, three bases: E(D, F, G), D(B, C), B(A)
MRO_T = ['E', 'D', 'B', 'A', 'C', 'F', 'G']
BASES_T = {'E': ['D', 'F', 'G'], 'D': ['B', 'C'], 'B': ['A'], 'A': [], 'C': [], 'F': [], 'G': []}


class AssignsModel(dict):
    """SourceScope.assigns(ctx): instance assignments grouped by receiver object; here by the receiver's class."""
    def get(self, inst, default=None):
        cls = inst.attrs.get('cls') if isinstance(inst, Obj) else None
        for k, v in self.items():
            if k is cls:
                return v
        return default


def run(repo, res):
    facts = get_facts(repo)
    for need in ('ClassObject', 'InstanceValue'):
        if need not in facts.classes:
            raise AnalysisError('%s vanished' % need)
    it = Interp(repo, facts)
    it.reset_path([])
    it.memoise_cached = True
    bad_cls, bad_inst = [], []
    n = 0
    global MRO, BASES
    if getattr(repo, 'tier', 'quick') == 'thorough':
        MRO, BASES = MRO_T, BASES_T
    try:
        for body_bits in itertools.product([False, True], repeat=len(MRO)):
            for inst_bits in itertools.product([False, True], repeat=len(MRO)):
                if len(MRO) > 4 and sum(inst_bits) > 2:
                    continue      # thorough tier: every body subset x every set of at most two assigning classes
                body = {c for c, b in zip(MRO, body_bits) if b}
                inst = {c for c, b in zip(MRO, inst_bits) if b}
                if not body and not inst:
                    continue
                n += 1
                it.steps = 0
                try:
                    got_c, got_i = scenario(it, facts, body, inst)
                except InterpRaise as e:
                    bad_inst.append((sorted(body), sorted(inst), 'raises %s' % e, 'a table'))
                    continue
                want_c = ('body', next(c for c in MRO if c in body)) if body else None
                want_i = 'inst' if inst else want_c
                if got_c != want_c:
                    bad_cls.append((sorted(body), sorted(inst), got_c, want_c))
                gi = 'inst' if (got_i and got_i[0] == 'inst') else got_i
                if gi != want_i:
                    bad_inst.append((sorted(body), sorted(inst), got_i, want_i))
    except Uninterpretable as e:
        raise AnalysisError('attribute merge is outside the interpretable subset: %s' % e)
    res.count('hierarchy_scenarios', n, floor=255)
    res.extra['hierarchy'] = {c: BASES[c] for c in MRO}
    co = repo.method(NAME, 'ClassObject', '_attrs')
    iv = repo.method(NAME, 'InstanceValue', '_attrs')
    res.obligations += n * 2 - 2
    res.discharged += n * 2 - 2 - (1 if bad_cls else 0) - (1 if bad_inst else 0)
    b = sorted(bad_cls, key=lambda x: (len(x[0]) + len(x[1])))[:1]
    res.check('C06-R1', 'ClassObject._attrs precedence', not bad_cls, NAME, co.lineno,
              'class-level lookup on the hierarchy %s: with the attribute defined in the bodies of %s the merged table '
              'holds %s, Python selects %s (%d of %d combinations differ)'
              % (BASES, b[0][0] if b else '', b[0][2] if b else '', b[0][3] if b else '', len(bad_cls), n),
              sample='ClassObject(%s)._attrs agrees with the MRO %s on all %d combinations' % (MRO[0], ', '.join(MRO), n))
    b = sorted(bad_inst, key=lambda x: (len(x[0]) + len(x[1])))[:1]
    res.check('C06-R1', 'InstanceValue._attrs precedence', not bad_inst, NAME, iv.lineno,
              'instance lookup on the hierarchy ' + str(BASES) + ': attribute defined in the bodies of %s and assigned through self in %s: '
              'the merged table holds %s, Python selects %s (%d of %d combinations differ)'
              % (b[0][0] if b else '', b[0][1] if b else '', b[0][2] if b else '', b[0][3] if b else '', len(bad_inst), n),
              sample='InstanceValue(%s)._attrs agrees with instance-assignment > MRO on all %d combinations' % (MRO[0], n))

    # instance-assignment tables are shared objects (the module's grouping of `self.x = ...` sites): computing the table of a
    # derived instance must not change what a base instance, or a sibling, sees
    ok, detail = sharing_scenario(it, facts)
    res.check('C06-R1', 'instance tables of a subclass do not leak into its base', ok, NAME, iv.lineno,
              'B(A), both assign self.m: after the instance table of B was computed, %s' % detail,
              sample='the assignment sites recorded for a base class are not extended by its subclasses')

    from .. import resolve_model as _M
    _M.check_dotted_imports(repo, res, 'C06-R3')
    _M.check_from_import_precedence(repo, res, 'C06-R3')
    # ---- R3 dispatch chains -------------------------------------------------------------------------
    check_dispatch(repo, res, facts)

    # ---- R4 identity discipline ------------------------------------------------------------------------
    nctor = 0
    for rel, tree in repo.trees.items():
        for c in ast.walk(tree):
            if isinstance(c, ast.Call) and unparse(c.func) in ('ClassObject', 'InstanceValue'):
                nctor += 1
                fi = facts.func_of(c)
                memo = fi is not None and any(d in ('context_property', 'cached_property') for d in fi.decorators)
                res.check('C06-R4', '%s constructed in %s' % (unparse(c.func), fi.qual if fi else rel), memo, rel, c.lineno,
                          '%s objects must be created behind a memo: SourceScope.assigns groups `self.x = ...` assignments '
                          'by identity of the evaluated receiver, a fresh object per evaluation loses every instance '
                          'attribute' % unparse(c.func), sample='%s(...) inside memoised %s' % (unparse(c.func), fi.qual if fi else '?'))
    res.count('object_constructors', nctor, floor=2)
    # ... and that memo must never forget: a bounded table (functools.lru_cache with its default or any finite maxsize) evicts entries,
    # and the next evaluation builds a second object for the same class or instance
    for rel, tree in repo.trees.items():
        for c in ast.walk(tree):
            bounded = None
            if isinstance(c, ast.Call) and unparse(c.func).split('.')[-1] == 'lru_cache':
                ms = [k.value for k in c.keywords if k.arg == 'maxsize'] + list(c.args[:1])
                if not ms or not (isinstance(ms[0], ast.Constant) and ms[0].value is None):
                    if not (c.args and isinstance(c.args[0], (ast.Name, ast.Lambda)) and not c.keywords):
                        bounded = unparse(c)
            elif isinstance(c, (ast.FunctionDef, ast.AsyncFunctionDef)):
                for d in c.decorator_list:
                    if unparse(d).split('.')[-1] == 'lru_cache':
                        bounded = '@' + unparse(d)
            if bounded:
                res.check('C06-R4', 'memo %s in %s never forgets' % (bounded, rel), False, rel, c.lineno,
                          '%s keeps at most a fixed number of results (128 by default): once an entry is evicted the next evaluation builds '
                          'a new ClassObject / InstanceValue for the same class, and the instance attributes recorded under the first '
                          'object (SourceScope.assigns groups by identity) are not found any more' % bounded)
    # (what the first parameter of a method evaluates to is decided by the first-parameter scenarios of the descriptor model, below)
    # parameter indices (E1): the i-th positional parameter (positional-only ones first) carries idx [i]; get_argument
    # recognises the instance parameter by idx == [0]
    from .. import rules_e1 as R
    bad = []
    nidx = 0
    for cls in ('FunctionDef', 'AsyncFunctionDef', 'Lambda'):
        for sm in R.summaries(repo).get(cls, []):
            bp = R.base_path(sm)
            if bp is None or bp.raised is not None:
                continue
            a = sm.root.fields['args']
            order = [x.fields['arg'] for x in list(a.fields['posonlyargs']) + list(a.fields['args'])]
            for i, ident in enumerate(order):
                for b in bp.binds:
                    if b.get('ident') == str(ident) and b.get('cls') == 'ArgumentName':
                        nidx += 1
                        if b.get('idx') != [i]:
                            bad.append((cls, sm.variant, str(ident), b.get('idx'), i))
    res.count('parameter_index_bindings', nidx, floor=100)
    res.check('C06-R4', 'positional parameters are numbered in signature order', not bad, 'supp/scope.py', 0,
              'the positional parameter %s of a %s is given index %s, its position in the signature is %s: the first parameter of a '
              'method (idx [0]) is what binds `self` to the instance - with a positional-only self every `self.x = ...` is lost'
              % ((bad[0][2], bad[0][0], bad[0][3], bad[0][4]) if bad else ('', '', '', '')),
              sample='%d parameter bindings carry their signature position as idx' % nidx)
    # every assignment through an attribute target is recorded with the module (and only assignments are)
    arecs = R.attribute_target_records(repo)
    for (cls, path), r in sorted(arecs.items()):
        key = '%s records the attribute target %s' % (R.method_name(repo, cls), path)
        if r.get('spurious') is not None and 'bare annotation' in path:
            res.check('C06-R4', '%s nothing is recorded for %s' % (R.method_name(repo, cls), path), not r['spurious'], r['line'][0], r['line'][1],
                      'a bare annotation `self.x: T` is recorded as an instance assignment: go-to-definition on obj.x lands on the '
                      'annotation although Python finds the class attribute')
            continue
        res.check('C06-R4', key, not r['missing'], r['line'][0], r['line'][1],
                  'an attribute bound through the target %s of a %s statement (`with cm as self.fd`, `for self.i in xs`, `self.a, self.b = '
                  'v`) is not recorded as an instance assignment: it is missing from the attribute proposals of the instance' % (path, cls),
                  sample='%s: attribute targets recorded' % cls)
    res.count('attribute_target_kinds', len(arecs), floor=8)
    asg = repo.method('supp/scope.py', 'SourceScope', 'assigns')
    from .. import api_model
    api_model.apply(res, api_model.assigns_model(repo), {'assigns': 'C06-R4'}, 'supp/scope.py', asg.lineno)
    ok = 'context_property' in [unparse(d) for d in asg.decorator_list]
    res.check('C06-R4', 'assigns groups by receiver identity behind a memo', ok, 'supp/scope.py', asg.lineno,
              'SourceScope.assigns must group attribute assignments by the evaluated receiver object', nontrivial=False)
    res.note('C06-R2 (every base kind supports the merge protocol _attrs/call) is reported under C08-R3 (it is a crash).')
    res.assumptions.extend(['hierarchies without repeated ancestors: C3 equals depth-first left-to-right',
                            'SourceScope.assigns is modelled as "instance assignments of the receiver\'s class"'])


def scenario(it, facts, body, inst):
    """Build D(B,C), B(A) with attribute 'm' defined in the bodies of `body` and self-assigned in `inst`;
    interpret ClassObject(D)._attrs['m'] and InstanceValue(D)._attrs['m']."""
    CO, IV = facts.classes['ClassObject'], facts.classes['InstanceValue']
    assigns = AssignsModel()
    top = Obj(facts.classes['SourceScope'], {}, 'TOP')
    top.attrs['assigns'] = Native('assigns', lambda i, a, k: assigns)
    objs = {}
    ctx = Unknown('ctx')
    for c in reversed(MRO):        # bases first
        # the class body binds `m` (or nothing): supp's own class-attribute table is computed from the scope's names and locals
        table = {'m': ('body', c), 'outer': ('module', c)} if c in body else {'outer': ('module', c)}
        sc = Obj(facts.classes['ClassScope'], {'top': top, 'names': table, 'locals': ({'m'} if c in body else set()),
                                               'flow': Obj(facts.classes['Flow'], {'names': table}, 'exit region of ' + c)}, 'scope' + c)
        o = Obj(CO, {'ctx': ctx, 'scope': sc}, 'class ' + c)
        objs[c] = o
    for c in MRO:
        objs[c].attrs['bases'] = [objs[b] for b in BASES[c]]
        if c in inst:
            # what supp's own recorder stores for `self.m = ...` in a method of c: a MultiValue holding the assignment site
            site = Obj(facts.classes['AssignedAttribute'], {'name': 'm'}, 'self.m = ... in ' + c)
            assigns[objs[c]] = {'m': it.instantiate(facts.classes['MultiValue'], [_multivalue_arg(it.repo, site)], {})}
    d = objs[MRO[0]]
    # the answers are taken through the protocol the evaluator and assist use (get_attr / attr_list), whatever tables are behind it
    got_c = it.call(it.getattr(d, 'get_attr'), [ctx, 'm'], {})
    listed_c = 'm' in set(str(x) for x in it.iterate(it.call(it.getattr(d, 'attr_list'), [ctx], {})))
    # instances are created through supp's own ClassObject.call (raw function under the memo decorator)
    iv = it.call(it.getattr(d, 'call'), [ctx], {})
    got_i = it.call(it.getattr(iv, 'get_attr'), [ctx, 'm'], {})
    listed_i = 'm' in set(str(x) for x in it.iterate(it.call(it.getattr(iv, 'attr_list'), [ctx], {})))
    if listed_c != (got_c is not None):
        got_c = ('attr_list and get_attr disagree', got_c)
    if listed_i != (got_i is not None):
        got_i = ('attr_list and get_attr disagree', got_i)
    elif isinstance(got_i, Obj) and got_i.cls.name == 'MultiValue':
        vals = list(it.iterate(got_i.attrs.get('values') or []))
        if vals and all(isinstance(v, Obj) and v.cls.name == 'AssignedAttribute' for v in vals):
            got_i = ('inst', tuple(v.label for v in vals))
    return got_c, got_i


def _multivalue_arg(repo, site):
    """What supp's own SourceScope.assigns hands the MultiValue constructor for one assignment site: the site, or a display holding it."""
    calls = [c for c in ast.walk(repo.tree('supp/scope.py')) if isinstance(c, ast.Call) and isinstance(c.func, ast.Name)
             and c.func.id == 'MultiValue' and len(c.args) == 1]
    if not calls:
        raise AnalysisError('no MultiValue(...) construction in supp/scope.py: the anchor of the instance-attribute tables vanished')
    a = calls[0].args[0]
    if isinstance(a, (ast.List, ast.Tuple)) and len(a.elts) == 1:
        return [site] if isinstance(a, ast.List) else (site,)
    if isinstance(a, ast.Set) and len(a.elts) == 1:
        return {site}
    return site


def sharing_scenario(it, facts):
    CO, IV, MV = facts.classes['ClassObject'], facts.classes['InstanceValue'], facts.classes['MultiValue']
    assigns = AssignsModel()
    top = Obj(facts.classes['SourceScope'], {}, 'TOP')
    top.attrs['assigns'] = Native('assigns', lambda i, a, k: assigns)
    ctx = Unknown('ctx')
    objs, mvs = {}, {}
    for c, bases in (('A', []), ('B', ['A'])):
        sc = Obj(facts.classes['ClassScope'], {'top': top, 'names': {}, 'locals': set(),
                                               'flow': Obj(facts.classes['Flow'], {'names': {}}, 'exit region of ' + c)}, 'scope' + c)
        o = Obj(CO, {'ctx': ctx, 'scope': sc}, 'class ' + c)
        o.attrs['bases'] = [objs[b] for b in bases]
        objs[c] = o
        site = Obj(facts.classes['AssignedAttribute'], {'name': 'm'}, 'self.m = ... in ' + c)
        try:
            mv = it.instantiate(MV, [_multivalue_arg(it.repo, site)], {})
        except InterpRaise as e:
            return False, 'MultiValue(site) raises %s' % e
        mvs[c] = (mv, site)
        assigns[o] = {'m': mv}
    try:
        ib = it.call(it.getattr(objs['B'], 'call'), [ctx], {})
        tb = it.getattr(ib, '_attrs')
        ia = it.call(it.getattr(objs['A'], 'call'), [ctx], {})
        ta = it.getattr(ia, '_attrs')
        got_a = it.call(it.getattr(ia, 'get_attr'), [ctx, 'm'], {})
    except InterpRaise as e:
        return False, 'the instance tables raise %s' % e
    va = list(mvs['A'][0].attrs.get('values') or [])
    vb = list(mvs['B'][0].attrs.get('values') or [])
    ok = va == [mvs['A'][1]] and vb == [mvs['B'][1]] and got_a is mvs['A'][0]
    return ok, 'the sites recorded for A.m are %s (must stay [%s]), for B.m %s; an instance of A resolves m to %s' % (va, mvs['A'][1], vb, got_a)


def check_dispatch(repo, res, facts):
    from .. import api_model
    ev = repo.method('supp/evaluator.py', 'EvalCtx', '_evaluate')
    nd = api_model.apply(res, api_model.evaluate_model(repo), {'dispatch': 'C06-R3', 'dispatch-count': 'C06-R3'},
                         'supp/evaluator.py', ev.lineno)
    res.count('dispatch_candidates', nd, floor=18)
    decl = repo.method('supp/evaluator.py', 'EvalCtx', 'declarations')
    api_model.apply(res, api_model.declarations_model(repo), {'single': 'C06-R3', 'chain': 'C06-R3', 'alts': 'C06-R3'},
                    'supp/evaluator.py', decl.lineno)
    api_model.apply(res, [r for r in api_model.assist_model(repo) if 'attribute branch' in r[1]], {'source': 'C06-R3'},
                    'supp/assistant.py', 0)
    api_model.apply(res, api_model.location_model(repo), {'asks': 'C06-R3', 'import': 'C06-R3'}, 'supp/assistant.py', 0)
    api_model.apply(res, api_model.descriptor_model(repo), {'descriptor': 'C06-R3', 'first-param': 'C06-R4'}, 'supp/scope.py', 0)
