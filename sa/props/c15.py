"""C15 -- remote calls: protocol skeleton.
Decides stub/handler agreement, exception containment, exactly-one-reply and
request/reply pairing by abstract interpretation of the client and the server
on a modelled connection.  Does not decide payload equality or concurrency.
"""
from .. import api_model

REMOTE = 'supp/remote.py'
SERVER = 'supp/server.py'

EXPLANATION = (
    'Abstract interpretation (sa/absint.py, sa/api_model.py) of supp/remote.py Environment and supp/server.py Server on a '
    'modelled connection: dumps/loads are an opaque pack/unpack pair that refuses unserialisable values, the connection is a '
    'scripted queue with injectable send failures, end of stream and garbage, the in-process API modules are recording stubs. '
    'R1 every public client stub is called with distinguishable arguments; the request it sends is handed to the interpreted '
    'Server.run, which must serve it without error, and every argument must arrive at the same-named parameter of the '
    'in-process API function (position as a tuple), inside project.check_changes(), the reply carrying the API result (lint '
    'rows trimmed to four fields); configure must build the Project from the configuration. R2 a handler that raises, an '
    'unknown method and rejected arguments each give exactly one ((class name, message), False) reply, the loop goes on, and '
    'the client raises an exception carrying the message. R3 every request gets exactly one reply; an unserialisable result '
    'gets the constant error reply; a failing send does not end the loop. R4 _call sends one (name, args, kwargs) request, '
    'then consumes one reply; sequential calls pair in order. Payload equality through the real serialiser is C14; '
    'concurrent callers are NOT decided.'
    " Later additions to R2: an exception whose __str__ raises still gets an error reply (server model); objects reached from the failing request's exception are converted to text only inside a try of their own, in process() or in the helper of server.py they are handed to.")
TECHNIQUE = 'abstract interpretation of client and server on a modelled connection with injected faults'


def check_foreign_exception_formatting(repo, res):
    """The exception a request raises is an object of the analysed / evaluated code: turning it - or anything reached from it (its
    members, its arguments) - into text runs foreign __str__ / __repr__ / __format__ methods, which may raise.  Inside the handler
    that builds the error reply every such conversion must sit in a try of its own (in the handler, or in the helper of server.py
    the object is handed to), otherwise the failure leaves process() and ends the serving loop.  (Reading __class__.__name__ runs no
    foreign code.)"""
    import ast
    from ..core import unparse, AnalysisError
    tree = repo.tree(SERVER)
    srv = repo.klass(SERVER, 'Server')
    proc = next((f for f in srv.body if isinstance(f, ast.FunctionDef) and f.name == 'process'), None)
    if proc is None:
        raise AnalysisError('Server.process vanished')

    def guarded_in(node, root):
        p, child = getattr(node, '_parent', None), node
        while p is not None and p is not root:
            if isinstance(p, ast.Try) and child in p.body and any(
                    x.type is None or unparse(x.type) in ('Exception', 'BaseException') for x in p.handlers):
                return True
            child, p = p, getattr(p, '_parent', None)
        return False

    def analyse(root, seed_names, outer_guard, depth):
        """-> [(sink node, guarded)] for the conversions of objects named in seed_names (and what is derived from them) inside root"""
        tainted = set(seed_names)
        changed = True
        while changed:
            changed = False
            for st in ast.walk(root):
                tgt = None
                if isinstance(st, ast.Assign) and len(st.targets) == 1 and isinstance(st.targets[0], ast.Name):
                    tgt, val = st.targets[0].id, st.value
                elif isinstance(st, (ast.For, ast.comprehension)) and isinstance(st.target, ast.Name):
                    tgt, val = st.target.id, st.iter
                if tgt and tgt not in tainted and any(isinstance(x, ast.Name) and x.id in tainted for x in ast.walk(val)) \
                        and not _only_class_name(val, tainted):
                    tainted.add(tgt)
                    changed = True

        def foreign(e):
            if isinstance(e, ast.Name):
                return e.id in tainted
            if isinstance(e, ast.Tuple):
                return any(foreign(x) for x in e.elts)
            return False
        out = []
        for c in ast.walk(root):
            sink = False
            if isinstance(c, ast.Call) and unparse(c.func) in ('str', 'repr', 'format', 'ascii') and c.args and foreign(c.args[0]):
                sink = True
            elif isinstance(c, ast.Call) and isinstance(c.func, ast.Attribute) and c.func.attr == 'format' \
                    and any(foreign(a) for a in c.args + [k.value for k in c.keywords]):
                sink = True
            elif isinstance(c, ast.BinOp) and isinstance(c.op, ast.Mod) and isinstance(c.left, (ast.Constant, ast.JoinedStr)) and foreign(c.right):
                sink = True
            elif isinstance(c, ast.FormattedValue) and foreign(c.value):
                sink = True
            if sink:
                out.append((c, outer_guard or guarded_in(c, root)))
                continue
            # the object handed to a helper of this module
            if isinstance(c, ast.Call) and depth < 2:
                helper, params = None, []
                if isinstance(c.func, ast.Name):
                    helper = next((f for f in tree.body if isinstance(f, ast.FunctionDef) and f.name == c.func.id), None)
                    params = [a.arg for a in helper.args.args] if helper else []
                elif isinstance(c.func, ast.Attribute) and isinstance(c.func.value, ast.Name) and c.func.value.id == 'self':
                    helper = next((f for f in srv.body if isinstance(f, ast.FunctionDef) and f.name == c.func.attr), None)
                    params = [a.arg for a in helper.args.args][1:] if helper else []
                if helper is not None and helper is not root:
                    passed = {p for p, a in zip(params, c.args) if foreign(a)} | {k.arg for k in c.keywords if k.arg and foreign(k.value)}
                    if passed:
                        out.extend(analyse(helper, passed, outer_guard or guarded_in(c, root), depth + 1))
        return out
    n = 0
    for h in [x for x in ast.walk(proc) if isinstance(x, ast.ExceptHandler) and x.name]:
        for c, guarded in analyse(h, {h.name}, False, 0):
            n += 1
            res.check('C15-R2', 'process: `%s` is guarded' % unparse(c)[:50], guarded, SERVER, c.lineno,
                      'the error reply is built by converting an object of the failing request (%s) to text outside a try of its own: a '
                      '__str__ / __repr__ of evaluated code that raises leaves Server.process and ends the serving loop' % unparse(c)[:80],
                      sample='conversion of the request\'s exception to text sits in try/except Exception')
    res.count('foreign_conversions_in_process', n, floor=1)


def _only_class_name(val, tainted):
    import ast
    from ..core import unparse
    names = [x for x in ast.walk(val) if isinstance(x, ast.Name) and x.id in tainted]
    return bool(names) and all(unparse(getattr(getattr(x, '_parent', None), '_parent', None) or x).endswith('.__class__.__name__') for x in names)


def run(repo, res):
    env = repo.klass(REMOTE, 'Environment')
    srv = repo.klass(SERVER, 'Server')
    server = api_model.server_model(repo)
    client = api_model.client_model(repo)
    n = api_model.apply(res, client, {'stub': 'C15-R1', 'stub-count': 'C15-R1'}, REMOTE, env.lineno)
    res.count('client_stub_obligations', n, floor=15)
    api_model.apply(res, server, {'handler': 'C15-R1', 'configure': 'C15-R1'}, SERVER, srv.lineno)
    api_model.apply(res, server, {'error': 'C15-R2'}, SERVER, srv.lineno)
    api_model.apply(res, [r for r in client if 'error reply' in r[1]], {'call': 'C15-R2'}, REMOTE, env.lineno)
    n = api_model.apply(res, server, {'reply': 'C15-R3', 'fallback': 'C15-R3', 'send': 'C15-R3'}, SERVER, srv.lineno)
    res.count('server_scenarios', n, floor=5)
    api_model.apply(res, [r for r in client if 'error reply' not in r[1]], {'call': 'C15-R4'}, REMOTE, env.lineno)
    check_foreign_exception_formatting(repo, res)
    # the server writes a traceback to stderr for every failing request (logger.exception): a pipe nobody drains
    # blocks it for ever once the kernel buffer is full, and every later request is lost
    import ast
    from ..core import unparse
    tree = repo.tree(REMOTE)
    npopen = 0
    for c in ast.walk(tree):
        if isinstance(c, ast.Call) and unparse(c.func).split('.')[-1] == 'Popen':
            npopen += 1
            piped = [k.arg for k in c.keywords if k.arg in ('stdin', 'stdout', 'stderr') and unparse(k.value).split('.')[-1] == 'PIPE']
            drained = [k for k in piped if any(isinstance(a, ast.Attribute) and a.attr == k and isinstance(a.ctx, ast.Load)
                                               for a in ast.walk(tree))
                       or any(isinstance(a, ast.Attribute) and a.attr == 'communicate' for a in ast.walk(tree))]
            bad = [k for k in piped if k not in drained]
            res.check('C15-R3', 'server process stdio is not an undrained pipe', not bad, REMOTE, c.lineno,
                      'the server is spawned with %s=PIPE and the client never reads it: the server logs a traceback per failing '
                      'request, the pipe buffer fills after ~64 KiB and the server blocks in the middle of a reply - later requests '
                      'are never answered' % ', '.join(bad), sample='Popen: stdio inherited or redirected, no undrained PIPE')
    res.count('popen_sites', npopen, floor=1)
    res.assumptions.extend([
        'dumps/loads round-trip every value the serialiser accepts (C14) and raise on the others',
        'the connection delivers whole messages in order (multiprocessing.connection)',
        'one caller at a time (interleavings of callers on one connection are C16)',
    ])
