"""C15 -- remote calls: protocol skeleton (engine E6a).
Decides stub/handler agreement, exception containment, exactly-one-reply and
request/reply pairing.  Does not decide payload equality or concurrency.
"""
import ast

from ..core import AnalysisError, unparse, norm_stmt
from ..facts import (get_facts, always_exits, may_exit, handler_catches,
                     enclosing_try_bodies, calls_in, stmt_of)

REMOTE = 'supp/remote.py'
SERVER = 'supp/server.py'

EXPLANATION = (
    'Static protocol-skeleton rules over supp/remote.py and supp/server.py: R1 every client '
    'stub that calls self._call(name, ...) has a Server method of that name accepting that '
    'arity, and the server method hands the stub parameters, by position, to the same-named '
    'parameters of the in-process API function (after the documented nstr/tuple '
    'normalisations) and returns its result (lint rows trimmed); R2 Server.process runs the '
    'dispatch inside try/except Exception returning ((class, message), False) and the client '
    'raises with the server message; R3 on every non-close request the server loop attempts '
    'exactly one send_bytes, serialisation and send are inside non-escaping handlers, and the '
    'fallback reply is a serialisable constant; R4 _call sends once then receives once on the '
    'same connection. Payload equality and ordering under concurrent callers are NOT decided.')
TECHNIQUE = 'AST signature/arity agreement + handler-containment and must-pass-through path rules'

API = {'assistant': 'supp/assistant.py', 'linter': 'supp/linter.py'}
NORMALISERS = ('nstr', 'tuple')


def params_of(fn, skip_self=True):
    a = fn.args
    pos = [x.arg for x in a.posonlyargs + a.args]
    if skip_self and pos and pos[0] == 'self':
        pos = pos[1:]
    ndef = len(a.defaults)
    required = len(pos) - ndef
    return pos, required, a.vararg is not None, a.kwarg is not None


def run(repo, res):
    facts = get_facts(repo)
    env = repo.klass(REMOTE, 'Environment')
    srv = repo.klass(SERVER, 'Server')
    srv_methods = {n.name: n for n in srv.body if isinstance(n, ast.FunctionDef)}

    # ---------------- R1 stub / handler agreement -----------------------
    stubs = 0
    for m in env.body:
        if not isinstance(m, ast.FunctionDef):
            continue
        for c in calls_in(m):
            if unparse(c.func) != 'self._call':
                continue
            if not c.args or not isinstance(c.args[0], ast.Constant):
                raise AnalysisError('%s: _call with a computed method name' % m.name)
            stubs += 1
            rname = c.args[0].value
            key = 'stub %s -> %s' % (m.name, rname)
            h = srv_methods.get(rname)
            if not res.check('C15-R1', key + ' exists', h is not None, REMOTE, c.lineno,
                             'client stub %s calls remote method %r but Server has no such method'
                             % (m.name, rname), nontrivial=False):
                continue
            hp, hreq, hvar, hkw = params_of(h)
            npos = len(c.args) - 1
            kws = [k.arg for k in c.keywords]
            ok = (hreq <= npos + len([k for k in kws if k in hp]) and (npos <= len(hp) or hvar)
                  and all(k in hp or hkw for k in kws if k is not None))
            res.check('C15-R1', key + ' arity', ok, REMOTE, c.lineno,
                      'stub %s sends %d positional argument(s) %s to Server.%s%s'
                      % (m.name, npos, kws or '', rname, tuple(hp)),
                      sample='%s(%s) -> Server.%s(%s)' % (m.name, ', '.join(unparse(a) for a in c.args[1:]),
                                                          rname, ', '.join(hp)))
            # stub returns the reply
            st = stmt_of(c)
            res.check('C15-R1', key + ' returns reply', isinstance(st, ast.Return) and st.value is c,
                      REMOTE, c.lineno, 'stub %s must return the reply of _call unchanged' % m.name,
                      nontrivial=False)
            # positional link: stub parameter -> server parameter
            sp, _, _, _ = params_of(m)
            link = {}
            for i, a in enumerate(c.args[1:]):
                if isinstance(a, ast.Name) and a.id in sp and i < len(hp):
                    link[hp[i]] = a.id
                elif isinstance(a, ast.Constant):
                    continue
                else:
                    res.check('C15-R1', key + ' arg %d' % i, False, REMOTE, c.lineno,
                              'stub %s passes a transformed argument %s' % (m.name, unparse(a)))
            if rname in ('assist', 'location', 'lint'):
                check_server_method(repo, res, facts, h, rname, link)
    res.count('client_stubs', stubs, floor=5)
    # configure: a fresh Project from the given configuration on every path (a later request must equal what the
    # in-process API returns on a project built from *this* configuration)
    cfg = srv_methods.get('configure')
    if cfg is None:
        raise AnalysisError('Server.configure vanished')
    stores = [n for n in ast.walk(cfg) if isinstance(n, ast.Assign) and unparse(n.targets[0]) == 'self.project']
    early = may_exit(cfg.body[:-1] if cfg.body else [], (ast.Return,)) if len(cfg.body) > 1 else None
    ok = (len(stores) == 1 and stores[0] is cfg.body[-1] and early is None and isinstance(stores[0].value, ast.Call)
          and unparse(stores[0].value.func) == 'Project' and "config['sources']" in unparse(cfg)
          and 'dyn_modules' in unparse(stores[0].value))
    res.check('C15-R1', 'Server.configure builds the project from the configuration', ok, SERVER, cfg.lineno,
              'Server.configure must replace the session project by Project(config[\'sources\'], dyn_modules=...) on every '
              'path; a path that keeps the old project makes later replies differ from the in-process result for the same '
              'configuration', sample='configure: self.project = Project(config[...]) unconditionally')

    # ---------------- R2 containment -------------------------------------
    proc = srv_methods.get('process')
    if proc is None:
        raise AnalysisError('Server.process vanished')
    dispatch = [c for c in calls_in(proc)
                if isinstance(c.func, ast.Call) and unparse(c.func.func) == 'getattr']
    if len(dispatch) != 1:
        # also accept a two-step form: m = getattr(self, name); m(*args, **kwargs)
        dispatch = [c for c in calls_in(proc) if any(isinstance(a, ast.Starred) for a in c.args)]
    if len(dispatch) != 1:
        raise AnalysisError('Server.process: dispatch call not recognised')
    d = dispatch[0]
    getattrs = [c for c in calls_in(proc) if unparse(c.func) == 'getattr']
    tries = enclosing_try_bodies(d, proc)
    ok = False
    hline = d.lineno
    for t in tries:
        if all(enclosing_try_bodies(g, proc) for g in getattrs):
            for hd in t.handlers:
                if handler_catches(hd):
                    hline = hd.lineno
                    reraises = may_exit(hd.body, (ast.Raise,))
                    ok = not reraises
                    break
    res.check('C15-R2', 'Server.process dispatch', ok, SERVER, hline,
              'the method lookup and call in Server.process must sit in a try whose handler '
              'catches Exception and does not re-raise (a failing request must not kill the server)',
              sample='getattr(self, name)(*args, **kwargs) inside try/except Exception')
    # handler result shape: (class name, str(e)), flag False
    shape_ok = False
    if ok:
        for t in tries:
            for hd in t.handlers:
                if not handler_catches(hd) or not hd.name:
                    continue
                assigns = {unparse(s.targets[0]): s.value for s in hd.body if isinstance(s, ast.Assign)}
                rets = [s for s in ast.walk(proc) if isinstance(s, ast.Return)]
                for r in rets:
                    if isinstance(r.value, ast.Tuple) and len(r.value.elts) == 2:
                        a, b = r.value.elts
                        av = assigns.get(unparse(a), a)
                        bv = assigns.get(unparse(b), b)
                        msg = isinstance(av, ast.Tuple) and len(av.elts) == 2 and \
                            unparse(av.elts[1]) in ('str(%s)' % hd.name, 'repr(%s)' % hd.name,
                                                    '%s.args[0]' % hd.name)
                        flag = isinstance(bv, ast.Constant) and bv.value is False
                        shape_ok = bool(msg and flag)
    res.check('C15-R2', 'Server.process error reply', shape_ok, SERVER, hline,
              'on failure process() must return ((class name, str(e)), False)')
    # the ok path returns flag True
    call = repo.method(REMOTE, 'Environment', '_call')
    raises = [n for n in ast.walk(call) if isinstance(n, ast.Raise)]
    ok = False
    for r in raises:
        # guarded by not is_ok
        p = r
        while p is not None and not isinstance(p, ast.If):
            p = getattr(p, '_parent', None)
        if p is None or r.exc is None:
            continue
        in_else = any(r is s or r in ast.walk(s) for s in p.orelse)
        cond = unparse(p.test)
        neg = (cond == 'is_ok' and in_else) or (cond in ('not is_ok', 'is_ok is False', 'is_ok == False') and not in_else)
        if neg and 'result' in unparse(r.exc):
            ok = True
    res.check('C15-R2', 'client raises with server message', ok, REMOTE, call.lineno,
              'Environment._call must raise an exception built from the server\'s (class, message) '
              'pair when the reply flag is false')
    rets = [n for n in ast.walk(call) if isinstance(n, ast.Return)]
    res.check('C15-R2', 'client returns result', any(unparse(r.value) == 'result' for r in rets if r.value),
              REMOTE, call.lineno, '_call must return the result unmodified when the flag is true',
              nontrivial=False)

    # ---------------- R3 one reply per request; loop survives -------------
    runm = srv_methods.get('run')
    if runm is None:
        raise AnalysisError('Server.run vanished')
    loops = [n for n in runm.body if isinstance(n, ast.While)]
    if len(loops) != 1:
        raise AnalysisError('Server.run: expected one top-level loop')
    loop = loops[0]
    # locate the request branch: the If testing args[0] == 'close'
    close_if = None
    for n in ast.walk(loop):
        if isinstance(n, ast.If) and isinstance(n.test, ast.Compare) and 'close' in unparse(n.test):
            close_if = n
    if close_if is None:
        raise AnalysisError("Server.run: no test for the 'close' request")
    req = close_if.orelse if "== 'close'" in unparse(close_if.test) else close_if.body
    if not req:
        # fall-through form: if close: ...break ; <request statements follow>
        parent_body = getattr(close_if._parent, 'body', [])
        idx = parent_body.index(close_if)
        req = parent_body[idx + 1:]
    sends = [c for s in req for c in calls_in(s)
             if isinstance(c.func, ast.Attribute) and c.func.attr in ('send_bytes', 'send')]
    inloop = [c for c in sends if any(isinstance(p, (ast.For, ast.While)) for p in parents_until(c, loop))]
    res.check('C15-R3', 'one send per request', len(sends) == 1 and not inloop, SERVER,
              sends[0].lineno if sends else close_if.lineno,
              'exactly one reply (send_bytes) must be attempted per non-close request; found %d'
              % len(sends), sample='request branch of Server.run has %d send site(s)' % len(sends))
    for c in sends:
        tr = enclosing_try_bodies(c, loop)
        ok = any(any(handler_catches(h) and not may_exit(h.body, (ast.Raise, ast.Break, ast.Return))
                     for h in t.handlers) for t in tr)
        res.check('C15-R3', 'send failure contained', ok, SERVER, c.lineno,
                  'a failing send_bytes must be caught without leaving the loop (later requests '
                  'must still be answered)')
    dumps_calls = [c for s in req for c in calls_in(s) if unparse(c.func) in ('dumps', 'umsgpack.dumps', 'packb')]
    primary = [c for c in dumps_calls if not in_handler(c, loop)]
    fallback = [c for c in dumps_calls if in_handler(c, loop)]
    for c in primary:
        tr = enclosing_try_bodies(c, loop)
        # packing can fail with more than PackException (UnicodeEncodeError for a lone surrogate, RecursionError for a
        # self-containing list, struct.error): the handler must catch Exception
        ok = any(any(handler_catches(h, ('Exception', 'BaseException'))
                     and not may_exit(h.body, (ast.Raise, ast.Break, ast.Return))
                     for h in t.handlers) for t in tr)
        res.check('C15-R3', 'serialisation failure contained', ok, SERVER, c.lineno,
                  'serialising the reply must be inside a try whose handler substitutes an error '
                  'reply and stays in the loop')
    res.check('C15-R3', 'fallback reply exists', len(fallback) >= 1, SERVER, close_if.lineno,
              'a result that cannot be serialised must be answered with a fallback error reply',
              nontrivial=False)
    for c in fallback:
        ok = len(c.args) == 1 and serialisable_const(c.args[0]) and error_shape(c.args[0])
        res.check('C15-R3', 'fallback reply constant', ok, SERVER, c.lineno,
                  'the serialisation-error fallback must be a constant ((name, message), False) '
                  'made only of str/bool/tuple so that it can itself be serialised: %s'
                  % unparse(c.args[0]))
    # the process() call result is what is serialised, and nothing on the request path leaves the loop
    leave = may_exit(req, (ast.Break, ast.Return, ast.Raise))
    res.check('C15-R3', 'request path stays in loop', leave is None, SERVER,
              leave.lineno if leave else close_if.lineno,
              'no break/return/raise may be reachable on the non-close request path of Server.run')
    pc = [c for s in req for c in calls_in(s) if unparse(c.func) == 'self.process']
    res.check('C15-R3', 'request is processed once', len(pc) == 1, SERVER, close_if.lineno,
              'each request must be dispatched exactly once through self.process', nontrivial=False)
    if pc and not enclosing_try_bodies(pc[0], loop):
        res.note('Server.run: `args[0]` and `self.process(*args)` are outside any try: a decodable '
                 'request that is not a 3-sequence would end the loop. The client always sends '
                 '(name, args, kwargs), so this is outside the stated request domain (note only).')

    # ---------------- R4 pairing in the client ---------------------------
    order = []
    for n in ast.walk(call):
        if isinstance(n, ast.Call) and isinstance(n.func, ast.Attribute) \
                and n.func.attr in ('send_bytes', 'recv_bytes'):
            order.append((n.lineno, n.col_offset, n.func.attr, unparse(n.func.value)))
    order.sort()
    kinds = [o[2] for o in order]
    conns = {o[3] for o in order}
    top_level = all(stmt_of_in(call, o[0]) for o in order)
    res.check('C15-R4', '_call send/recv pairing', kinds == ['send_bytes', 'recv_bytes'] and len(conns) == 1
              and top_level, REMOTE, call.lineno,
              '_call must perform one send_bytes followed by one recv_bytes on the same connection, '
              'unconditionally; found %s on %s' % (kinds, sorted(conns)),
              sample='_call: %s' % kinds)
    # request tuple shape (name, args, kwargs) matches process(name, args, kwargs)
    sends_c = [n for n in ast.walk(call) if isinstance(n, ast.Call) and isinstance(n.func, ast.Attribute)
               and n.func.attr == 'send_bytes']
    ok = False
    if sends_c and sends_c[0].args and isinstance(sends_c[0].args[0], ast.Call) and sends_c[0].args[0].args:
        t = sends_c[0].args[0].args[0]
        pp, _, _, _ = params_of(proc)
        ok = isinstance(t, ast.Tuple) and [unparse(e) for e in t.elts] == pp == ['name', 'args', 'kwargs']
    res.check('C15-R4', 'request tuple shape', ok, REMOTE, call.lineno,
              'the request sent by _call must be (name, args, kwargs), the parameters of Server.process')
    # reply unpack shape
    ok = any(isinstance(n, ast.Assign) and isinstance(n.targets[0], ast.Tuple)
             and [unparse(e) for e in n.targets[0].elts] == ['result', 'is_ok']
             and 'recv_bytes' in unparse(n.value) for n in ast.walk(call))
    res.check('C15-R4', 'reply tuple shape', ok, REMOTE, call.lineno,
              'the reply must be unpacked as (result, is_ok), what Server.process returns', nontrivial=False)
    res.assumptions.extend([
        'multiprocessing.connection delivers whole messages in order (stdlib)',
        'equality of remote and in-process results is not decided; only the argument/return wiring',
    ])


def parents_until(node, stop):
    out = []
    p = getattr(node, '_parent', None)
    while p is not None and p is not stop:
        out.append(p)
        p = getattr(p, '_parent', None)
    return out


def in_handler(node, stop):
    p, child = getattr(node, '_parent', None), node
    while p is not None and p is not stop:
        if isinstance(p, ast.ExceptHandler):
            return True
        child, p = p, getattr(p, '_parent', None)
    return False


def stmt_of_in(fn, lineno):
    for s in fn.body:
        if s.lineno <= lineno <= getattr(s, 'end_lineno', s.lineno):
            return not isinstance(s, (ast.If, ast.For, ast.While, ast.Try))
    return False


def serialisable_const(e):
    if isinstance(e, ast.Constant):
        return isinstance(e.value, (str, bool, int, bytes, float)) or e.value is None
    if isinstance(e, (ast.Tuple, ast.List)):
        return all(serialisable_const(x) for x in e.elts)
    return False


def error_shape(e):
    return (isinstance(e, ast.Tuple) and len(e.elts) == 2 and isinstance(e.elts[0], ast.Tuple)
            and len(e.elts[0].elts) == 2 and isinstance(e.elts[1], ast.Constant)
            and e.elts[1].value is False)


def check_server_method(repo, res, facts, h, rname, link):
    """The server method must call the same-named API function with the stub's
    parameters in the API's own parameter order."""
    key = 'Server.%s' % rname
    api_calls = []
    for c in calls_in(h):
        if isinstance(c.func, ast.Attribute) and isinstance(c.func.value, ast.Name) \
                and c.func.value.id in API:
            api_calls.append(c)
    if not res.check('C15-R1', key + ' calls API', len(api_calls) == 1, SERVER, h.lineno,
                     'Server.%s must call the in-process API exactly once' % rname, nontrivial=False):
        return
    c = api_calls[0]
    mod, fname = c.func.value.id, c.func.attr
    res.check('C15-R1', key + ' API function', fname == rname and
              mod == {'assist': 'assistant', 'location': 'assistant', 'lint': 'linter'}[rname],
              SERVER, c.lineno, 'Server.%s must call %s.%s, calls %s.%s'
              % (rname, {'lint': 'linter'}.get(rname, 'assistant'), rname, mod, fname))
    api = repo.module_func(API[mod], fname)
    ap, areq, _, _ = params_of(api, skip_self=False)
    ok = True
    msgs = []
    for i, a in enumerate(c.args):
        if i >= len(ap):
            ok = False
            msgs.append('too many arguments')
            break
        want = ap[i]
        e = a
        while isinstance(e, ast.Call) and unparse(e.func) in NORMALISERS and len(e.args) == 1:
            e = e.args[0]
        txt = unparse(e)
        if want == 'project':
            good = txt == 'self.project'
        else:
            good = isinstance(e, ast.Name) and link.get(e.id) == want
        if not good:
            ok = False
            msgs.append('argument %d (%s) feeds API parameter %r but carries stub parameter %r'
                        % (i, unparse(a), want, link.get(txt, txt)))
    for k in c.keywords:
        e = k.value
        while isinstance(e, ast.Call) and unparse(e.func) in NORMALISERS and len(e.args) == 1:
            e = e.args[0]
        if k.arg in ap and isinstance(e, ast.Name) and link.get(e.id) != k.arg:
            ok = False
            msgs.append('keyword %s carries %s' % (k.arg, unparse(e)))
    if len(c.args) + len(c.keywords) < areq:
        ok = False
        msgs.append('missing required API arguments')
    res.check('C15-R1', key + ' argument order', ok, SERVER, c.lineno,
              'Server.%s -> %s.%s%s: %s' % (rname, mod, fname, tuple(ap), '; '.join(msgs) or 'ok'),
              sample='Server.%s passes %s to %s.%s%s' % (rname, [unparse(a) for a in c.args], mod, fname,
                                                         tuple(ap)))
    # position normalisation: tuples arrive as lists; API indexes/compares positions as tuples
    if rname in ('assist', 'location'):
        posarg = [a for a in c.args if 'position' in unparse(a)]
        res.check('C15-R1', key + ' position normalised', bool(posarg) and unparse(posarg[0]).startswith('tuple('),
                  SERVER, c.lineno, 'the position (a list on the wire) must be converted back to a tuple',
                  nontrivial=False)
    # result: returned unmodified, or (lint) trimmed rows
    st = stmt_of(c)
    if isinstance(st, ast.Return) and st.value is c:
        good = rname != 'lint' or True
        res.check('C15-R1', key + ' result', True, SERVER, st.lineno, 'result returned unmodified', nontrivial=False)
    elif isinstance(st, ast.Return) and isinstance(st.value, ast.ListComp) and st.value.generators[0].iter is c:
        lc = st.value
        v = unparse(lc.generators[0].target)
        good = (rname == 'lint' and not lc.generators[0].ifs and len(lc.generators) == 1
                and unparse(lc.elt) in ('%s[:4]' % v, 'tuple(%s[:4])' % v, 'list(%s[:4])' % v))
        res.check('C15-R1', key + ' result', good, SERVER, st.lineno,
                  'Server.lint may only trim each diagnostic to its first four fields (the fifth is an '
                  'unserialisable flow object); found %s' % unparse(lc))
    else:
        res.check('C15-R1', key + ' result', False, SERVER, st.lineno if st else h.lineno,
                  'Server.%s must return the API result (found `%s`)' % (rname, norm_stmt(st) if st else '?'))
