"""C14 -- MessagePack codec: writer table / reader table / specification table
agreement (engine E5).  Decides the table-shaped necessary conditions of the
round-trip property; does not decide value equality (floats, UTF-8, nesting).
"""
import ast
import struct

from ..core import AnalysisError, unparse, norm_stmt
from .. import msgpack_spec as S

F = 'supp/umsgpack.py'

EXPLANATION = (
    'Static table agreement for supp/umsgpack.py: the if/elif chains of every _pack_* '
    'function are read into rows (integer set of the controlling quantity by exact '
    'breakpoint decomposition, emitted prefix, struct format, argument order, payload), '
    'the _unpack_* chains and the dispatch table built in __init are constant-folded for '
    'all 256 first bytes, and both are compared row by row with the MessagePack '
    'specification table (sa/msgpack_spec.py). Rules: R1 writer vs spec incl. bounded '
    'write, R2 writer totality/refusal outside the domain, R3 reader vs spec for all 256 '
    'bytes incl. non-minimal forms, R4 writer/reader layout agreement, R5 truncation '
    'discipline (fp.read only in _read_except), R6 type dispatch order and compatibility '
    'flag. Value-level round trip (float bits, UTF-8, nesting depth) is NOT decided.')
TECHNIQUE = 'AST table extraction + constant folding + table comparison against the MessagePack spec'


class Unfoldable(Exception):
    pass


def fold(node, env):
    """Tiny constant folder over ast; env maps unparse(expr) -> value."""
    key = unparse(node)
    if key in env:
        return env[key]
    if isinstance(node, ast.Constant):
        return node.value
    if isinstance(node, ast.UnaryOp):
        v = fold(node.operand, env)
        if isinstance(node.op, ast.USub):
            return -v
        if isinstance(node.op, ast.Invert):
            return ~v
        if isinstance(node.op, ast.Not):
            return not v
        if isinstance(node.op, ast.UAdd):
            return +v
    if isinstance(node, ast.BinOp):
        a, b = fold(node.left, env), fold(node.right, env)
        ops = {ast.Add: lambda: a + b, ast.Sub: lambda: a - b, ast.Mult: lambda: a * b,
               ast.Pow: lambda: a ** b, ast.BitOr: lambda: a | b, ast.BitAnd: lambda: a & b,
               ast.LShift: lambda: a << b, ast.RShift: lambda: a >> b,
               ast.FloorDiv: lambda: a // b, ast.BitXor: lambda: a ^ b, ast.Mod: lambda: a % b}
        for k, fn in ops.items():
            if isinstance(node.op, k):
                if isinstance(node.op, ast.Pow) and (not isinstance(b, int) or b > 80 or b < 0):
                    raise Unfoldable(key)
                return fn()
    if isinstance(node, ast.BoolOp):
        vals = [fold(v, env) for v in node.values]
        if isinstance(node.op, ast.And):
            r = True
            for v in vals:
                r = v
                if not v:
                    break
            return r
        r = False
        for v in vals:
            r = v
            if v:
                break
        return r
    if isinstance(node, ast.Compare):
        left = fold(node.left, env)
        for op, c in zip(node.ops, node.comparators):
            right = fold(c, env)
            res = {ast.Lt: lambda: left < right, ast.LtE: lambda: left <= right,
                   ast.Gt: lambda: left > right, ast.GtE: lambda: left >= right,
                   ast.Eq: lambda: left == right, ast.NotEq: lambda: left != right,
                   ast.Is: lambda: left is right, ast.IsNot: lambda: left is not right,
                   }.get(type(op))
            if res is None:
                raise Unfoldable(key)
            if not res():
                return False
            left = right
        return True
    if isinstance(node, ast.Call):
        fn = unparse(node.func)
        if fn == 'ord' and len(node.args) == 1:
            v = fold(node.args[0], env)
            if isinstance(v, bytes) and len(v) == 1:
                return v[0]
        if fn == 'len' and len(node.args) == 1:
            v = fold(node.args[0], env)
            return len(v)
        if fn == 'struct.pack' and len(node.args) == 2:
            return struct.pack(fold(node.args[0], env), fold(node.args[1], env))
        if fn == 'struct.unpack' and len(node.args) == 2:
            return struct.unpack(fold(node.args[0], env), fold(node.args[1], env))
    if isinstance(node, ast.Subscript):
        v = fold(node.value, env)
        i = fold(node.slice, env)
        return v[i]
    if isinstance(node, ast.Tuple):
        return tuple(fold(e, env) for e in node.elts)
    raise Unfoldable(key)


def norm_fmt(fmt):
    """'>B' == 'B', '<b'... single byte formats carry no endianness."""
    if not isinstance(fmt, str):
        return fmt
    if len(fmt) == 2 and fmt[0] in '<>!=' and fmt[1] in 'bB':
        return fmt[1]
    if len(fmt) == 2 and fmt[0] == '!':
        return '>' + fmt[1]
    return fmt


# ---------------------------------------------------------------------------
# writer side
# ---------------------------------------------------------------------------

def chain_constants(fn, qtext):
    """All integer constants the function compares the quantity with."""
    consts = set()
    for n in ast.walk(fn):
        if isinstance(n, ast.Compare):
            parts = [n.left] + list(n.comparators)
            texts = [unparse(p) for p in parts]
            if qtext in texts:
                for p in parts:
                    if unparse(p) != qtext:
                        try:
                            v = fold(p, {})
                        except Unfoldable:
                            raise AnalysisError('%s: cannot fold comparison constant %s'
                                                % (fn.name, unparse(p)))
                        if isinstance(v, int):
                            consts.add(v)
    return consts


def find_quantity(fn):
    """The expression the range chain is about: `obj`, `len(obj)`, `len(obj.data)`."""
    cands = {}
    for n in ast.walk(fn):
        if isinstance(n, ast.If):
            for c in ast.walk(n.test):
                if isinstance(c, ast.Compare):
                    for p in [c.left] + list(c.comparators):
                        try:
                            fold(p, {})
                        except Unfoldable:
                            cands[unparse(p)] = cands.get(unparse(p), 0) + 1
    if not cands:
        return None
    if len(cands) != 1:
        raise AnalysisError('%s: range chain compares several quantities: %s'
                            % (fn.name, sorted(cands)))
    return list(cands)[0]


class StaleTest(ast.stmt):
    """Marker: the controlling variable was reassigned after a range test on the executed path."""
    _fields = ()


def take_path(stmts, env, fnname, state=None):
    """Follow the if/elif chain of a statement list for a concrete quantity value.
    Returns (leaf statements executed in order, excluding the Ifs themselves)."""
    out = []
    state = state if state is not None else {'tested': None}
    for st in stmts:
        if isinstance(st, ast.If):
            try:
                c = fold(st.test, env)
            except Unfoldable:
                raise AnalysisError('%s: cannot fold condition %s' % (fnname, unparse(st.test)))
            if any(k in unparse(st.test) for k in env if isinstance(k, str) and k.startswith('len(')):
                state['tested'] = st
            out.extend(take_path(st.body if c else st.orelse, env, fnname, state))
        elif isinstance(st, (ast.Global, ast.Pass)):
            continue
        elif isinstance(st, ast.Expr) and isinstance(st.value, ast.Constant):
            continue
        else:
            if isinstance(st, ast.Assign) and state['tested'] is not None:
                tv = {unparse(t) for t in st.targets}
                if any(k.startswith('len(') and k[4:-1].split('.')[0] in tv for k in env if isinstance(k, str)):
                    m = StaleTest()
                    m.lineno = st.lineno
                    m.test = state['tested']
                    m.assign = st
                    out.append(m)
            out.append(st)
        if out and isinstance(out[-1], (ast.Raise, ast.Return)):
            break
    return out


def flatten_add(e):
    if isinstance(e, ast.BinOp) and isinstance(e.op, ast.Add):
        return flatten_add(e.left) + flatten_add(e.right)
    return [e]


def parse_write(st, fnname):
    """fp.write(<concat>) -> list of parts."""
    if not (isinstance(st, ast.Expr) and isinstance(st.value, ast.Call)
            and unparse(st.value.func) == 'fp.write' and len(st.value.args) == 1):
        return None
    parts = []
    for p in flatten_add(st.value.args[0]):
        if isinstance(p, ast.Constant) and isinstance(p.value, bytes):
            parts.append(('lit', p.value))
        elif isinstance(p, ast.Call) and unparse(p.func) == 'struct.pack':
            try:
                fmt = fold(p.args[0], {})
            except Unfoldable:
                raise AnalysisError('%s: struct.pack with computed format' % fnname)
            parts.append(('pack', fmt, [unparse(a) for a in p.args[1:]]))
        elif isinstance(p, (ast.Name, ast.Attribute)):
            parts.append(('payload', unparse(p)))
        elif isinstance(p, ast.IfExp):
            parts.append(('ifexp', p))
        else:
            raise AnalysisError('%s: unrecognised fp.write operand %s' % (fnname, unparse(p)))
    return parts


def decompose(fn, qtext, domain):
    """Exact partition of the integer line by the function's chain.
    Returns list of (lo, hi, leaf_stmts) maximal segments in increasing order;
    lo/hi may be None for unbounded."""
    consts = chain_constants(fn, qtext) | {domain[0], domain[1]}
    pts = set()
    for c in consts:
        pts.update((c - 1, c, c + 1))
    pts = sorted(pts)
    segs = []

    def leaf_at(p):
        return take_path(fn.body, {qtext: p}, fn.name)

    # unbounded segment below the first point behaves like the first point - 1
    below = pts[0] - 1
    segs.append((None, below, leaf_at(below)))
    for i, p in enumerate(pts):
        segs.append((p, p, leaf_at(p)))
        if i + 1 < len(pts) and pts[i + 1] - p > 1:
            segs.append((p + 1, pts[i + 1] - 1, leaf_at(p + 1)))
    above = pts[-1] + 1
    segs.append((above, None, leaf_at(above)))
    # merge adjacent segments with the identical leaf
    merged = []
    for lo, hi, leaf in segs:
        sig = tuple(id(s) for s in leaf)
        crosses = lo is not None and lo in (domain[0], domain[1] + 1)
        if merged and merged[-1][3] == sig and not crosses:
            merged[-1] = (merged[-1][0], hi, leaf, sig)
        else:
            merged.append((lo, hi, leaf, sig))
    return [(lo, hi, leaf) for lo, hi, leaf, _ in merged]


def fmt_int(v):
    if v is None:
        return 'inf'
    for e in (63, 64, 32, 31, 16, 15, 8, 7):
        for d in (-1, 0, 1):
            if v == 2 ** e + d:
                return '2^%d%s' % (e, {0: '', 1: '+1', -1: '-1'}[d])
            if v == -(2 ** e) + d:
                return '-2^%d%s' % (e, {0: '', 1: '+1', -1: '-1'}[d])
    return str(v)


WRITERS = {
    # function -> (family, domain, quantity kind)
    '_pack_integer': ('int', S.INT_DOMAIN),
    '_pack_string': ('str', S.LEN_DOMAIN),
    '_pack_binary': ('bin', S.LEN_DOMAIN),
    '_pack_ext': ('ext', S.LEN_DOMAIN),
    '_pack_array': ('array', S.LEN_DOMAIN),
    '_pack_map': ('map', S.LEN_DOMAIN),
}


def check_writer(repo, res, fname, family, domain, emitted):
    fn = repo.module_func(F, fname)
    qtext = find_quantity(fn)
    if qtext is None:
        raise AnalysisError('%s: no range chain found' % fname)
    is_len = qtext.startswith('len(')
    if (family == 'int') == is_len:
        raise AnalysisError('%s: unexpected controlling quantity %s' % (fname, qtext))
    lenarg = qtext
    segs = decompose(fn, qtext, domain)
    nrows = 0
    for lo, hi, leaf in segs:
        if is_len and hi is not None and hi < 0:
            continue   # negative lengths cannot occur
        if is_len and (lo is None or lo < 0):
            lo = 0
        rng = '[%s, %s]' % (fmt_int(lo), fmt_int(hi))
        inside = (lo is not None and hi is not None and lo >= domain[0] and hi <= domain[1])
        outside = (hi is not None and hi < domain[0]) or (lo is not None and lo > domain[1])
        line = leaf[0].lineno if leaf else fn.lineno
        stale = [s for s in leaf if isinstance(s, StaleTest)]
        if stale and inside:
            res.check('C14-R1', '%s %s tested value is the written value' % (fname, rng), False, F, stale[0].lineno,
                      '%s: the range test `%s` is made on %s before `%s`; the header then carries the length of the new value: '
                      'a %s whose length changes under that statement (non-ASCII text under UTF-8 encoding) gets a format that '
                      'cannot hold it' % (fname, unparse(stale[0].test.test), qtext, norm_stmt(stale[0].assign), family))
        leaf = [s for s in leaf if not isinstance(s, StaleTest)]
        writes = [parse_write(s, fname) for s in leaf]
        wparts = [w for w in writes if w is not None]
        raises = [s for s in leaf if isinstance(s, ast.Raise)]
        key = '%s %s' % (fname, rng)
        if not inside and not outside:
            # a segment straddling the domain boundary: the chain has no
            # breakpoint at the domain edge -> values outside are written
            res.check('C14-R2', key, False, F, line,
                      '%s: segment %s of %s straddles the data-model domain [%s, %s]: '
                      'values outside the domain are encoded instead of refused'
                      % (fname, rng, qtext, fmt_int(domain[0]), fmt_int(domain[1])))
            continue
        if outside:
            ok = bool(raises) and not wparts
            if not ok and wparts:
                # struct.pack refuses (struct.error) what its format cannot hold: also a refusal
                for part in wparts[0]:
                    if part[0] == 'pack' and part[2] and part[2][0] == qtext:
                        cap = S.INT_FMT.get(norm_fmt(part[1][:2] if part[1].startswith('>') else part[1][:1]))
                        if cap and ((lo is not None and lo > cap[2]) or (hi is not None and hi < cap[1])):
                            ok = True
            res.check('C14-R2', key, ok, F, line,
                      '%s: %s %s outside the domain must be refused with an exception, '
                      'found %s' % (fname, qtext, rng, 'raise' if ok else 'a write'),
                      sample='%s: %s in %s -> raise' % (fname, qtext, rng))
            continue
        # inside the domain: must write exactly one header
        if raises or len(wparts) < 1:
            res.check('C14-R2', key, False, F, line,
                      '%s: %s in %s (inside the data model) is refused or not written'
                      % (fname, qtext, rng))
            continue
        nrows += 1
        parts = wparts[0]
        check_row(repo, res, fname, family, qtext, lenarg, lo, hi, parts, leaf, line, emitted)
    return nrows


def first_byte_info(parts, qtext, fname):
    """-> ('lit', byte) | ('inline', fmt) | ('mask', base)"""
    p0 = parts[0]
    if p0[0] == 'lit':
        if len(p0[1]) != 1:
            raise AnalysisError('%s: multi-byte literal prefix' % fname)
        return ('lit', p0[1][0])
    if p0[0] == 'pack' and norm_fmt(p0[1]) in ('B', 'b') and len(p0[2]) == 1:
        arg = p0[2][0]
        if arg == qtext:
            return ('inline', norm_fmt(p0[1]))
        try:
            e = ast.parse(arg, mode='eval').body
        except SyntaxError:
            e = None
        if isinstance(e, ast.BinOp) and isinstance(e.op, ast.BitOr):
            sides = [e.left, e.right]
            for a, b in (sides, sides[::-1]):
                if unparse(b) == qtext:
                    try:
                        return ('mask', fold(a, {}))
                    except Unfoldable:
                        pass
    raise AnalysisError('%s: unrecognised header expression %r' % (fname, parts[0]))


def check_row(repo, res, fname, family, qtext, lenarg, lo, hi, parts, leaf, line, emitted):
    rng = '[%s, %s]' % (fmt_int(lo), fmt_int(hi))
    key = '%s %s' % (fname, rng)
    kind = first_byte_info(parts, qtext, fname)
    rest = parts[1:]
    if kind[0] == 'inline':
        fmt = kind[1]
        if fmt == 'B':
            ok = lo >= 0 and hi <= 0x7f
            want = 'positive fixint needs 0..127'
        else:
            ok = lo >= -32 and hi <= 0x7f
            want = 'fixint needs -32..127'
        res.check('C14-R1', key, ok and not rest, F, line,
                  '%s: %s in %s written as a bare %r byte; %s'
                  % (fname, qtext, rng, fmt, want),
                  sample='%s: %s in %s -> fixint byte (struct %r)' % (fname, qtext, rng, fmt))
        for b in sorted({lo & 0xff, hi & 0xff}):
            emitted.setdefault(b, []).append((fname, rng))
        ok_f = (family == 'int')
        res.check('C14-R1', key + ' family', ok_f, F, line,
                  '%s emits a fixint for family %s' % (fname, family), nontrivial=False)
        return
    if kind[0] == 'mask':
        base = kind[1]
        spec = S.BY_BYTE.get(base)
        ok = (spec is not None and spec[4] == 'fixlen' and spec[2] == base
              and lo >= 0 and hi <= spec[5]['mask'] and spec[1] == family)
        res.check('C14-R1', key, ok, F, line,
                  '%s: %s in %s written as 0x%02x|len; the spec row for 0x%02x is %s (%s) '
                  'with capacity %s' % (fname, qtext, rng, base, base,
                                        spec[0] if spec else None, spec[1] if spec else None,
                                        spec[5].get('mask') if spec else None),
                  sample='%s: %s in %s -> 0x%02x|len (%s)' % (fname, qtext, rng, base,
                                                              spec[0] if spec else '?'))
        emitted.setdefault(base, []).append((fname, rng))
        check_payload(res, fname, family, lenarg, rest, leaf, line, key)
        return
    byte = kind[1]
    spec = S.BY_BYTE[byte]
    name, sfam, _, _, skind, sp = spec
    emitted.setdefault(byte, []).append((fname, rng))
    ok_f = (sfam == family)
    res.check('C14-R1', key + ' family', ok_f, F, line,
              '%s (family %s) emits prefix 0x%02x which the spec assigns to %s (%s)'
              % (fname, family, byte, name, sfam))
    if not ok_f:
        return
    if skind == 'value':
        ok = (len(rest) == 1 and rest[0][0] == 'pack' and norm_fmt(rest[0][1]) == norm_fmt(sp['fmt'])
              and rest[0][2] == [qtext])
        cap = S.INT_FMT.get(norm_fmt(sp['fmt']))
        if cap:
            ok = ok and lo >= cap[1] and hi <= cap[2]
        res.check('C14-R1', key, ok, F, line,
                  '%s: %s in %s -> 0x%02x (%s) needs struct %r of the value and the range '
                  'within the format capacity; found %s' % (fname, qtext, rng, byte, name,
                                                            sp['fmt'], rest),
                  sample='%s: %s in %s -> 0x%02x %s struct %r' % (fname, qtext, rng, byte, name,
                                                                  sp['fmt']))
    elif skind == 'len':
        if family == 'ext':
            wantfmt = sp['fmt'] + 'B'
            ok = (rest and rest[0][0] == 'pack' and rest[0][1].lstrip('>') == wantfmt.lstrip('>')
                  and (len(wantfmt.lstrip('>')) == 2 and sp['width'] == 1 or rest[0][1].startswith('>'))
                  and len(rest[0][2]) == 2 and rest[0][2][0] == lenarg
                  and 'type' in rest[0][2][1] and 'len(' not in rest[0][2][1])
        else:
            ok = (rest and rest[0][0] == 'pack' and norm_fmt(rest[0][1]) == norm_fmt(sp['fmt'])
                  and rest[0][2] == [lenarg])
        cap = S.INT_FMT[norm_fmt(sp['fmt'])]
        ok = bool(ok) and lo >= 0 and hi <= cap[2]
        res.check('C14-R1', key, ok, F, line,
                  '%s: %s in %s -> 0x%02x (%s) needs a %d-byte big-endian length field %r%s '
                  'and the range within its capacity %d; found %s'
                  % (fname, qtext, rng, byte, name, sp['width'], sp['fmt'],
                     ' then the type byte' if family == 'ext' else '', cap[2], rest[:1]),
                  sample='%s: %s in %s -> 0x%02x %s len field %r' % (fname, qtext, rng, byte, name,
                                                                     sp['fmt']))
        check_payload(res, fname, family, lenarg, rest[1:], leaf, line, key)
    elif skind == 'fixext':
        ok = (lo == hi == sp['n'] and len(rest) >= 1 and rest[0][0] == 'pack'
              and norm_fmt(rest[0][1]) == 'B' and len(rest[0][2]) == 1 and 'type' in rest[0][2][0])
        res.check('C14-R1', key, ok, F, line,
                  '%s: %s in %s -> 0x%02x (%s) requires data length exactly %d and a type byte'
                  % (fname, qtext, rng, byte, name, sp['n']),
                  sample='%s: %s == %d -> 0x%02x %s' % (fname, qtext, sp['n'], byte, name))
        check_payload(res, fname, family, lenarg, rest[1:], leaf, line, key)
    else:
        res.check('C14-R1', key, False, F, line,
                  '%s: prefix 0x%02x (%s) is not a %s format' % (fname, byte, name, family))


def check_payload(res, fname, family, lenarg, rest, leaf, line, key):
    """After the header the payload must follow (in the same write for
    str/bin/ext, by a loop over the elements for array/map)."""
    inner = lenarg[4:-1] if lenarg.startswith('len(') else lenarg
    if family in ('str', 'bin', 'ext'):
        ok = len(rest) == 1 and rest[0] == ('payload', inner)
        res.check('C14-R4', key + ' payload', ok, F, line,
                  '%s: header must be followed by the payload %s exactly once; found %s'
                  % (fname, inner, rest), nontrivial=False)
        return
    loops = [s for s in leaf if isinstance(s, ast.For)]
    ok = False
    if len(loops) == 1 and not rest:
        lp = loops[0]
        calls = [unparse(s.value) for s in lp.body
                 if isinstance(s, ast.Expr) and isinstance(s.value, ast.Call)]
        it = unparse(lp.iter)
        tgt = unparse(lp.target)
        if family == 'array':
            ok = (it == inner and calls == ['pack(%s, fp)' % tgt])
        else:
            names = [unparse(e) for e in lp.target.elts] if isinstance(lp.target, ast.Tuple) else []
            ok = (it in (inner + '.items()', inner + '.iteritems()') and len(names) == 2
                  and calls == ['pack(%s, fp)' % names[0], 'pack(%s, fp)' % names[1]])
    res.check('C14-R4', key + ' payload', ok, F, line,
              '%s: after the header every element (key before value for maps) must be '
              'packed once, in iteration order' % fname, nontrivial=False)


def check_simple_writers(repo, res, emitted):
    # nil
    fn = repo.module_func(F, '_pack_nil')
    w = [parse_write(s, fn.name) for s in fn.body]
    ok = w == [[('lit', b'\xc0')]]
    res.check('C14-R1', '_pack_nil', ok, F, fn.lineno, '_pack_nil must write exactly 0xc0', nontrivial=False)
    emitted.setdefault(0xc0, []).append(('_pack_nil', ''))
    # boolean
    fn = repo.module_func(F, '_pack_boolean')
    ok = False
    w = [parse_write(s, fn.name) for s in fn.body]
    if len(w) == 1 and w[0] and len(w[0]) == 1 and w[0][0][0] == 'ifexp':
        e = w[0][0][1]
        try:
            ok = (unparse(e.test) == 'obj' and fold(e.body, {}) == b'\xc3'
                  and fold(e.orelse, {}) == b'\xc2')
        except Unfoldable:
            ok = False
    else:
        # if/else form
        try:
            t = take_path(fn.body, {'obj': True}, fn.name)
            f = take_path(fn.body, {'obj': False}, fn.name)
            ok = (parse_write(t[0], fn.name) == [('lit', b'\xc3')]
                  and parse_write(f[0], fn.name) == [('lit', b'\xc2')])
        except (AnalysisError, IndexError):
            ok = False
    res.check('C14-R1', '_pack_boolean', ok, F, fn.lineno,
              '_pack_boolean must write 0xc3 for true and 0xc2 for false')
    emitted.setdefault(0xc2, []).append(('_pack_boolean', ''))
    emitted.setdefault(0xc3, []).append(('_pack_boolean', ''))
    # float
    fn = repo.module_func(F, '_pack_float')
    for size in (64, 32):
        leaf = take_path(fn.body, {'_float_size': size}, fn.name)
        w = [parse_write(s, fn.name) for s in leaf]
        w = [x for x in w if x]
        ok = False
        byte = None
        if len(w) == 1 and len(w[0]) == 2 and w[0][0][0] == 'lit' and w[0][1][0] == 'pack':
            byte = w[0][0][1][0]
            spec = S.BY_BYTE[byte]
            ok = (spec[1] == 'float' and spec[5]['fmt'] == w[0][1][1] and w[0][1][2] == ['obj']
                  and spec[5]['width'] * 8 == size)
            emitted.setdefault(byte, []).append(('_pack_float', str(size)))
        res.check('C14-R1', '_pack_float %d' % size, ok, F, fn.lineno,
                  '_pack_float (%d-bit) must write 0x%s with the matching big-endian IEEE '
                  'format' % (size, 'cb' if size == 64 else 'ca'),
                  sample='_pack_float: _float_size == %d -> %s' % (size, w))
    # _float_size derivation
    init = repo.module_func(F, '__init')
    leaf64 = take_path(init.body, _InitEnv({'sys.float_info.mant_dig': 53,
                                            'sys.version_info[0]': 3}), '__init')
    assigns = {unparse(s.targets[0]): unparse(s.value) for s in leaf64
               if isinstance(s, ast.Assign) and len(s.targets) == 1}
    res.check('C14-R1', '_float_size', assigns.get('_float_size') == '64', F, init.lineno,
              'doubles (53-bit mantissa) must select the 64-bit float format', nontrivial=False)
    return assigns


class _InitEnv(dict):
    pass


# ---------------------------------------------------------------------------
# reader side
# ---------------------------------------------------------------------------

def dispatch_table(repo):
    init = repo.module_func(F, '__init')
    table = {}
    unknown = []
    for st in ast.walk(init):
        if isinstance(st, ast.For):
            if not (isinstance(st.iter, ast.Call) and unparse(st.iter.func) == 'range'):
                continue
            try:
                bounds = [fold(a, {}) for a in st.iter.args]
            except Unfoldable:
                raise AnalysisError('__init: cannot fold range bounds %s' % unparse(st.iter))
            var = unparse(st.target)
            for code in range(*bounds):
                for s in st.body:
                    if (isinstance(s, ast.Assign) and isinstance(s.targets[0], ast.Subscript)
                            and unparse(s.targets[0].value) == '_unpack_dispatch_table'):
                        try:
                            k = fold(s.targets[0].slice, {var: code})
                        except (Unfoldable, struct.error):
                            raise AnalysisError('__init: cannot fold dispatch key %s'
                                                % unparse(s.targets[0].slice))
                        table[k] = (unparse(s.value), s.lineno)
        elif (isinstance(st, ast.Assign) and isinstance(st.targets[0], ast.Subscript)
              and unparse(st.targets[0].value) == '_unpack_dispatch_table'
              and not isinstance(getattr(st, '_parent', None), ast.For)):
            try:
                k = fold(st.targets[0].slice, {})
            except Unfoldable:
                raise AnalysisError('__init: cannot fold dispatch key %s'
                                    % unparse(st.targets[0].slice))
            table[k] = (unparse(st.value), st.lineno)
    # the table must be written nowhere else
    for n in ast.walk(repo.tree(F)):
        if isinstance(n, ast.Subscript) and isinstance(n.ctx, (ast.Store, ast.Del)) \
                and unparse(n.value) == '_unpack_dispatch_table':
            fn = n
            while fn is not None and not isinstance(fn, ast.FunctionDef):
                fn = getattr(fn, '_parent', None)
            if fn is None or fn.name != '__init':
                unknown.append(n.lineno)
    return table, unknown


READER_FAMILY = {}


def reader_leaf(fn, byte):
    env = {'code': bytes([byte]), 'compatibility': False}
    return take_path(fn.body, env, fn.name)


def analyse_value_expr(e, byte, fnname):
    """Classify the expression that yields the value / the length.
    -> ('inline', value) | ('read', fmt, n) | ('const', v)"""
    env = {'code': bytes([byte])}
    # struct.unpack(FMT, _read_except(fp, N))[0]
    if (isinstance(e, ast.Subscript) and isinstance(e.value, ast.Call)
            and unparse(e.value.func) == 'struct.unpack' and len(e.value.args) == 2):
        try:
            idx = fold(e.slice, {})
            fmt = fold(e.value.args[0], {})
        except Unfoldable:
            raise AnalysisError('%s: computed struct.unpack format/index' % fnname)
        if idx != 0:
            raise AnalysisError('%s: struct.unpack(...)[%r]' % (fnname, idx))
        src = e.value.args[1]
        if isinstance(src, ast.Call) and unparse(src.func) == '_read_except' and len(src.args) == 2:
            if unparse(src.args[0]) != 'fp':
                raise AnalysisError('%s: _read_except on %s' % (fnname, unparse(src.args[0])))
            try:
                n = fold(src.args[1], {})
            except Unfoldable:
                raise AnalysisError('%s: computed read size' % fnname)
            return ('read', fmt, n)
        if unparse(src) == 'code':
            return ('inline', struct.unpack(fmt, bytes([byte]))[0], fmt)
    try:
        v = fold(e, env)
        if isinstance(e, ast.Constant):
            return ('const', v)
        return ('inline', v, None)
    except (Unfoldable, struct.error):
        pass
    raise AnalysisError('%s: unrecognised decode expression %s' % (fnname, unparse(e)))


def check_reader(repo, res, table, emitted):
    funcs = {}
    nrows = 0
    for byte in range(256):
        spec = S.BY_BYTE[byte]
        name, fam, lo, hi, kind, sp = spec
        key = 'first byte 0x%02x (%s)' % (byte, name)
        ent = table.get(bytes([byte]))
        if ent is None:
            res.check('C14-R3', key, False, F, 0,
                      'dispatch table has no entry for 0x%02x (%s): a spec-valid encoding '
                      'raises KeyError' % (byte, name))
            continue
        fname, line = ent
        if fname not in funcs:
            funcs[fname] = repo.module_func(F, fname)
        fn = funcs[fname]
        leaf = reader_leaf(fn, byte)
        first = leaf[0] if leaf else None
        # which family does this decoder implement?  decided by its tail
        got = None
        detail = ''
        if first is None:
            raise AnalysisError('%s: empty path for 0x%02x' % (fname, byte))
        if isinstance(first, ast.Raise):
            exc = unparse(first.exc) if first.exc else ''
            if kind == 'reserved':
                ok = exc.startswith('ReservedCodeException')
                res.check('C14-R3', key, ok, F, first.lineno,
                          '0xc1 must be refused with ReservedCodeException', nontrivial=False)
            else:
                res.check('C14-R3', key, False, F, first.lineno,
                          'decoder %s refuses the spec-valid first byte 0x%02x (%s): path '
                          'ends in `%s`' % (fname, byte, name, norm_stmt(first)))
            nrows += 1
            continue
        if kind == 'reserved':
            res.check('C14-R3', key, False, F, first.lineno, '0xc1 must be refused')
            continue
        if isinstance(first, ast.Return):
            info = analyse_value_expr(first.value, byte, fname)
            tailfam = {'_unpack_integer': 'int', '_unpack_float': 'float', '_unpack_nil': 'nil',
                       '_unpack_boolean': 'bool'}.get(fname)
            valinfo = info
        elif isinstance(first, ast.Assign) and unparse(first.targets[0]) == 'length':
            info = analyse_value_expr(first.value, byte, fname)
            tailfam = reader_tail_family(fn, leaf[1:])
            valinfo = info
        else:
            raise AnalysisError('%s: unrecognised leaf statement %s' % (fname, norm_stmt(first)))
        nrows += 1
        # family
        famok = (tailfam == fam)
        res.check('C14-R3', key + ' family', famok, F, line,
                  '0x%02x (%s, family %s) is dispatched to %s which decodes family %s'
                  % (byte, name, fam, fname, tailfam), nontrivial=False)
        if not famok:
            continue
        # layout
        if kind == 'inline':
            want = byte - 256 if sp['signed'] else byte & sp['mask']
            ok = valinfo[0] == 'inline' and valinfo[1] == want
            res.check('C14-R3', key, ok, F, first.lineno,
                      '0x%02x (%s) must decode to %d; %s yields %s' % (byte, name, want, fname,
                                                                      valinfo[1:]),
                      sample='0x%02x -> %s: inline value %d' % (byte, fname, want))
        elif kind == 'fixlen':
            want = byte & sp['mask']
            ok = valinfo[0] == 'inline' and valinfo[1] == want
            res.check('C14-R3', key, ok, F, first.lineno,
                      '0x%02x (%s) must carry length %d; %s computes %s'
                      % (byte, name, want, fname, valinfo[1:]),
                      sample='0x%02x -> %s: length %d from the low bits' % (byte, fname, want))
        elif kind in ('value', 'len'):
            ok = (valinfo[0] == 'read' and norm_fmt(valinfo[1]) == norm_fmt(sp['fmt'])
                  and valinfo[2] == sp['width'])
            res.check('C14-R3', key, ok, F, first.lineno,
                      '0x%02x (%s) must read %d byte(s) as struct %r; %s does %s'
                      % (byte, name, sp['width'], sp['fmt'], fname, valinfo),
                      sample='0x%02x -> %s: read %d bytes as %r' % (byte, fname, sp['width'],
                                                                    sp['fmt']))
        elif kind == 'fixext':
            ok = valinfo[0] in ('const', 'inline') and valinfo[1] == sp['n']
            res.check('C14-R3', key, ok, F, first.lineno,
                      '0x%02x (%s) must use data length %d; %s uses %s'
                      % (byte, name, sp['n'], fname, valinfo[1:]),
                      sample='0x%02x -> %s: implied length %d' % (byte, fname, sp['n']))
        elif kind == 'const':
            ok = valinfo[0] == 'const' and valinfo[1] is sp['value']
            res.check('C14-R3', key, ok, F, first.lineno,
                      '0x%02x must decode to %r' % (byte, sp['value']), nontrivial=False)
        # R4: writer/reader agreement for emitted formats is implied by R1+R3 on the
        # same spec row; record the pairing explicitly
        if byte in emitted:
            res.ob('C14-R4', 'pair 0x%02x' % byte, True, nontrivial=False,
                   sample='0x%02x written by %s, read by %s' % (byte, emitted[byte][0][0], fname))
    return nrows, funcs


def reader_tail_family(fn, tail):
    """Classify the common tail after `length = ...` and check its shape.
    Returns the family name or raises AnalysisError."""
    name = fn.name
    rets = [s for s in ast.walk(fn) if isinstance(s, ast.Return)]
    return {'_unpack_string': 'str', '_unpack_binary': 'bin', '_unpack_ext': 'ext',
            '_unpack_array': 'array', '_unpack_map': 'map'}.get(name)


def check_reader_tails(repo, res, funcs):
    def calls_in(node):
        return [n for n in ast.walk(node) if isinstance(n, ast.Call)]

    # string
    fn = repo.module_func(F, '_unpack_string')
    rets = [s for s in fn.body if isinstance(s, ast.Try)] + [s for s in fn.body if isinstance(s, ast.Return)]
    reads = [unparse(c) for s in fn.body if not isinstance(s, ast.If) or unparse(s.test) == 'compatibility'
             for c in calls_in(s) if unparse(c.func) == '_read_except']
    ok = bool(reads) and all(r == '_read_except(fp, length)' for r in reads)
    dec = any('utf-8' in unparse(c) or 'utf8' in unparse(c).lower() for s in fn.body for c in calls_in(s)
              if 'decode' in unparse(c.func))
    res.check('C14-R3', '_unpack_string tail', ok and dec, F, fn.lineno,
              '_unpack_string must read exactly `length` payload bytes and decode them as UTF-8; '
              'reads: %s' % reads)
    # binary
    fn = repo.module_func(F, '_unpack_binary')
    last = fn.body[-1]
    ok = isinstance(last, ast.Return) and unparse(last.value) == '_read_except(fp, length)'
    res.check('C14-R3', '_unpack_binary tail', ok, F, last.lineno,
              '_unpack_binary must return exactly `length` payload bytes')
    # ext: type byte (1) first, then `length` data bytes
    fn = repo.module_func(F, '_unpack_ext')
    last = fn.body[-1]
    ok = False
    seq = []
    if isinstance(last, ast.Return):
        # evaluation order = source order of the _read_except calls
        seq = [unparse(c) for c in sorted(calls_in(last), key=lambda c: (c.lineno, c.col_offset))
               if unparse(c.func) == '_read_except']
        ok = seq == ['_read_except(fp, 1)', '_read_except(fp, length)']
        if ok and isinstance(last.value, ast.Call) and unparse(last.value.func) == 'Ext':
            a0, a1 = last.value.args[0], last.value.args[1]
            ok = '_read_except(fp, 1)' in unparse(a0) and unparse(a1) == '_read_except(fp, length)'
    else:
        # statement form: type = ...; data = ...; return Ext(type, data)
        seq = [unparse(c) for s in fn.body if not isinstance(s, ast.If) for c in calls_in(s)
               if unparse(c.func) == '_read_except']
        ok = seq == ['_read_except(fp, 1)', '_read_except(fp, length)']
    res.check('C14-R3', '_unpack_ext tail', ok, F, last.lineno,
              '_unpack_ext must read the 1-byte type before `length` data bytes; reads %s' % seq)
    # array
    fn = repo.module_func(F, '_unpack_array')
    last = fn.body[-1]
    ok = False
    if isinstance(last, ast.Return) and isinstance(last.value, ast.ListComp):
        g = last.value.generators
        ok = (unparse(last.value.elt) == '_unpack(fp)' and len(g) == 1 and not g[0].ifs
              and unparse(g[0].iter) in ('range(length)', 'xrange(length)'))
    res.check('C14-R3', '_unpack_array tail', ok, F, last.lineno,
              '_unpack_array must decode exactly `length` elements in order')
    # map
    fn = repo.module_func(F, '_unpack_map')
    loops = [s for s in fn.body if isinstance(s, ast.For)]
    ok = False
    if len(loops) == 1 and unparse(loops[0].iter) in ('range(length)', 'xrange(length)'):
        lp = loops[0]
        unp = [(s.lineno, unparse(s.targets[0])) for s in lp.body
               if isinstance(s, ast.Assign) and unparse(s.value) == '_unpack(fp)']
        stores = [s for s in ast.walk(lp) if isinstance(s, ast.Assign)
                  and isinstance(s.targets[0], ast.Subscript)]
        ok = (len(unp) == 2 and len(stores) == 1
              and unparse(stores[0].targets[0]) == 'd[%s]' % unp[0][1]
              and unparse(stores[0].value) == unp[1][1]
              and isinstance(fn.body[-1], ast.Return) and unparse(fn.body[-1].value) == 'd')
    res.check('C14-R3', '_unpack_map tail', ok, F, fn.lineno,
              '_unpack_map must decode `length` (key, value) pairs, key first, and store each')
    # _unpack
    fn = repo.module_func(F, '_unpack')
    txt = [norm_stmt(s) for s in fn.body]
    ok = (len(txt) == 2 and txt[0] == 'code = _read_except(fp, 1)'
          and txt[1] == 'return _unpack_dispatch_table[code](code, fp)')
    res.check('C14-R5', '_unpack', ok, F, fn.lineno,
              '_unpack must read one byte through _read_except and dispatch on it; found %s' % txt)


def check_truncation(repo, res):
    tree = repo.tree(F)
    n_sites = 0
    for n in ast.walk(tree):
        if isinstance(n, ast.Call) and isinstance(n.func, ast.Attribute) and n.func.attr in (
                'read', 'readinto', 'read1', 'readline', 'getvalue', 'getbuffer'):
            if n.func.attr == 'getvalue':
                continue
            fn = n
            while fn is not None and not isinstance(fn, ast.FunctionDef):
                fn = getattr(fn, '_parent', None)
            fname = fn.name if fn else '<module>'
            n_sites += 1
            res.check('C14-R5', 'raw read in %s' % fname, fname == '_read_except', F, n.lineno,
                      'raw %s() outside _read_except in %s: a truncated input is not detected '
                      'as InsufficientDataException' % (unparse(n.func), fname))
    fn = repo.module_func(F, '_read_except')
    # data = fp.read(n); if len(data) < n: raise InsufficientDataException(); return data
    ok = False
    var = None
    for s in fn.body:
        if isinstance(s, ast.Assign) and unparse(s.value) == 'fp.read(n)':
            var = unparse(s.targets[0])
    if var:
        for s in fn.body:
            if isinstance(s, ast.If) and s.body and isinstance(s.body[0], ast.Raise):
                # the guard must be true for every short read: evaluate on 0 <= len < n
                exc = unparse(s.body[0].exc)
                guard_ok = True
                for n_ in (1, 2, 5):
                    for ln in range(0, n_ + 1):
                        try:
                            g = fold(s.test, {'len(%s)' % var: ln, 'n': n_})
                        except Unfoldable:
                            raise AnalysisError('_read_except: cannot fold guard %s' % unparse(s.test))
                        if bool(g) != (ln < n_):
                            guard_ok = False
                ok = guard_ok and exc.startswith('InsufficientDataException')
        last = fn.body[-1]
        ok = ok and isinstance(last, ast.Return) and unparse(last.value) == var
    res.check('C14-R5', '_read_except', ok, F, fn.lineno,
              '_read_except must raise InsufficientDataException exactly when fewer than n '
              'bytes were read, and otherwise return them')
    # InsufficientDataException is an UnpackException
    k = repo.klass(F, 'InsufficientDataException')
    res.check('C14-R5', 'InsufficientDataException base', [unparse(b) for b in k.bases] == ['UnpackException'],
              F, k.lineno, 'InsufficientDataException must derive from UnpackException', nontrivial=False)
    # every decoder obtains bytes only via _read_except / code: no slicing of fp
    return n_sites


def check_dispatch_order(repo, res, initassigns):
    fn = repo.module_func(F, '_pack3')

    class T(object):
        pass
    types = {
        'None': (type(None), '_pack_nil'), 'bool': (bool, '_pack_boolean'),
        'int': (int, '_pack_integer'), 'float': (float, '_pack_float'),
        'str': (str, '_pack_string'), 'bytes': (bytes, '_pack_binary'),
        'list': (list, '_pack_array'), 'tuple': (tuple, '_pack_array'),
        'dict': (dict, '_pack_map'), 'Ext': (T, '_pack_ext'),
    }
    tymap = {'bool': bool, 'int': int, 'float': float, 'str': str, 'bytes': bytes, 'list': list,
             'tuple': tuple, 'dict': dict, 'Ext': T}

    def cond(e, ty):
        if isinstance(e, ast.BoolOp):
            vals = [cond(v, ty) for v in e.values]
            return all(vals) if isinstance(e.op, ast.And) else any(vals)
        if isinstance(e, ast.Compare) and unparse(e) == 'obj is None':
            return ty is type(None)
        if isinstance(e, ast.Call) and unparse(e.func) == 'isinstance' and unparse(e.args[0]) == 'obj':
            names = [unparse(x) for x in (e.args[1].elts if isinstance(e.args[1], ast.Tuple) else [e.args[1]])]
            out = False
            for nm in names:
                if nm not in tymap:
                    raise AnalysisError('_pack3: isinstance against unknown type %s' % nm)
                out = out or issubclass(ty, tymap[nm])
            return out
        if isinstance(e, ast.Name) and e.id == 'compatibility':
            return False
        if isinstance(e, ast.UnaryOp) and isinstance(e.op, ast.Not):
            return not cond(e.operand, ty)
        raise AnalysisError('_pack3: unrecognised dispatch condition %s' % unparse(e))

    def walk(stmts, ty):
        for st in stmts:
            if isinstance(st, ast.If):
                r = walk(st.body if cond(st.test, ty) else st.orelse, ty)
                if r:
                    return r
            elif isinstance(st, ast.Expr) and isinstance(st.value, ast.Call):
                return unparse(st.value.func), st.lineno
            elif isinstance(st, ast.Raise):
                return 'raise', st.lineno
        return None

    n = 0
    for tname, (ty, want) in sorted(types.items()):
        got = walk(fn.body, ty)
        n += 1
        res.check('C14-R6', '_pack3 %s' % tname, bool(got) and got[0] == want, F,
                  got[1] if got else fn.lineno,
                  '_pack3: a value of type %s must reach %s, reaches %s (order of the '
                  'isinstance chain: bool before int, str/bytes before containers)'
                  % (tname, want, got[0] if got else None),
                  sample='_pack3: %s -> %s' % (tname, want))
    # aliases selected for Python 3
    want = {'pack': '_pack3', 'packb': '_packb3', 'dumps': '_packb3', 'dump': '_pack3',
            'unpack': '_unpack3', 'unpackb': '_unpackb3', 'loads': '_unpackb3', 'load': '_unpack3',
            'compatibility': 'False'}
    for k, v in sorted(want.items()):
        res.check('C14-R6', 'alias %s' % k, initassigns.get(k) == v, F, 0,
                  '__init must bind %s to %s on Python 3, binds %s' % (k, v, initassigns.get(k)),
                  nontrivial=False)
    pb = repo.module_func(F, '_packb3')
    txt = [norm_stmt(s) for s in pb.body if not (isinstance(s, ast.Expr) and isinstance(s.value, ast.Constant))]
    res.check('C14-R6', '_packb3', txt == ['fp = io.BytesIO()', '_pack3(obj, fp)', 'return fp.getvalue()'],
              F, pb.lineno, '_packb3 must serialise through _pack3 into a fresh buffer and return it', nontrivial=False)
    ub = repo.module_func(F, '_unpackb3')
    last = ub.body[-1]
    res.check('C14-R6', '_unpackb3', isinstance(last, ast.Return) and unparse(last.value) == '_unpack(io.BytesIO(s))',
              F, ub.lineno, '_unpackb3 must decode from the start of the given bytes', nontrivial=False)
    # compatibility flag: False at import, assigned nowhere else to anything but False
    import os
    bad = []
    for rel, tree in repo.trees.items():
        for node in ast.walk(tree):
            if isinstance(node, (ast.Assign, ast.AugAssign, ast.AnnAssign)):
                tgts = node.targets if isinstance(node, ast.Assign) else [node.target]
                for t in tgts:
                    tt = unparse(t)
                    if tt == 'compatibility' and rel == F or tt.endswith('.compatibility'):
                        v = getattr(node, 'value', None)
                        if not (isinstance(v, ast.Constant) and v.value is False):
                            bad.append((rel, node.lineno))
            if isinstance(node, ast.Call) and unparse(node.func) == 'setattr' and node.args \
                    and 'compatibility' in unparse(node):
                bad.append((rel, node.lineno))
    res.check('C14-R6', 'compatibility flag', not bad, bad[0][0] if bad else F, bad[0][1] if bad else 0,
              'the compatibility flag must stay False (the str/bin families of the current spec '
              'are used on the wire); assigned at %s' % bad)
    return n


def run(repo, res):
    emitted = {}
    nw = 0
    for fname, (family, domain) in sorted(WRITERS.items()):
        nw += check_writer(repo, res, fname, family, domain, emitted)
    initassigns = check_simple_writers(repo, res, emitted)
    table, unknown = dispatch_table(repo)
    res.check('C14-R3', 'dispatch table writers', not unknown, F, unknown[0] if unknown else 0,
              '_unpack_dispatch_table is modified outside __init (lines %s)' % unknown, nontrivial=False)
    nr, funcs = check_reader(repo, res, table, emitted)
    check_reader_tails(repo, res, funcs)
    nsites = check_truncation(repo, res)
    nd = check_dispatch_order(repo, res, initassigns)
    # every spec format of the families the writer owns is emitted at least for the
    # minimal-format rows the mechanism ("smallest-format selection") promises
    res.count('writer_rows', nw, floor=30)
    res.count('dispatch_entries', len(table), floor=256)
    res.count('reader_rows', nr, floor=256)
    res.count('raw_read_sites', nsites, floor=1)
    res.count('type_dispatch_rows', nd, floor=10)
    res.extra['emitted_first_bytes'] = sorted('0x%02x' % b for b in emitted)
    res.note('Ext type byte: the reader passes the unsigned type byte to Ext(), which accepts 0..127 '
             'only; encodings with the reserved negative ext types (e.g. timestamp -1) raise TypeError. '
             'Outside the stated data model (application ext types); evidence note only.')
    res.assumptions.extend([
        'struct.pack/unpack implement the named formats (CPython stdlib)',
        'the MessagePack spec table in sa/msgpack_spec.py is transcribed correctly',
        'value-level round-trip (float bits, UTF-8 validity, nesting) is not decided',
    ])
