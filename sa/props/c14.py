"""C14 -- MessagePack codec: symbolic writer table / reader table / specification table
agreement.  Decides the table-shaped necessary conditions of the round-trip property;
does not decide value equality (float bits, UTF-8 content, nesting beyond depth 1).
"""
import struct

from ..core import AnalysisError
from .. import msgpack_spec as S
from .. import symcodec as C

F = 'supp/umsgpack.py'

EXPLANATION = (
    'Symbolic interpretation of supp/umsgpack.py (sa/symcodec.py on sa/absint.py; nothing is imported or run). Writer: pack() '
    'is interpreted once per kind of the data model (nil, true, false, int, float, str, bytes, list, tuple, dict, ext, an '
    'unsupported object) with a symbolic controlling quantity (the integer, or the length of the payload / container); each '
    'comparison with a constant forks the path and narrows an interval, struct.pack of a symbolic argument yields a symbolic '
    'header field, fp.write records the emitted template. Reader: unpack() is interpreted once per first byte 0..255 on a file '
    'object whose reads return symbolic bytes; struct.unpack yields field variables, reads of symbolic size record the length '
    'expression, counted loops are summarised, nested unpack calls are cut at depth 1. Rules: R1 every non-raising writer path, '
    'evaluated at the boundary and interior points of its interval, produces a header the specification table '
    '(sa/msgpack_spec.py, written from the spec) decodes to the same family and the same value/length (bounded write: the value '
    'fits the struct format), followed by the payload / the nested items of that very length; R2 per kind the non-raising '
    'intervals partition exactly the domain of the data model and everything outside is refused with the codec\'s own '
    'exception; R3 for each of the 256 first bytes the reader performs exactly the reads the specification row prescribes '
    '(widths, formats, payload length = the length field, element counts) and builds the family\'s value, including non-minimal '
    'forms; R4 (follows from R1+R3 through the table, checked explicitly for the compatibility mode pairing); R5 every read '
    'that returns fewer bytes than asked ends in InsufficientDataException; R6 bool before int, compatibility flag switches '
    'str/bytes to the raw family in both directions, list keys become hashable tuples at any depth. Value-level round trip '
    '(float bits, UTF-8, nesting depth) is NOT decided.')
TECHNIQUE = 'symbolic interpretation of the codec (interval path splitting) + comparison of writer and reader tables with the MessagePack specification table'

INT_LO, INT_HI = S.INT_DOMAIN
LEN_LO, LEN_HI = S.LEN_DOMAIN
PACK_EXC = ('UnsupportedTypeException', 'PackException')
KIND_FAMILY = {'int': 'int', 'str': 'str', 'bytes': 'bin', 'list': 'array', 'tuple': 'array', 'dict': 'map', 'ext': 'ext',
               'float': 'float', 'nil': 'nil', 'true': 'bool', 'false': 'bool'}


def norm_fmt(fmt):
    fmt = fmt.strip()
    if fmt and fmt[0] in '<>=!@':
        order, rest = fmt[0], fmt[1:]
    else:
        order, rest = '', fmt
    if all(c in 'Bbx?c' for c in rest):
        order = ''
    elif order in ('!', '>'):
        order = '>'
    return order + rest


def samples(iv, dom=None):
    lo, hi, ex = iv
    pts = {lo, lo + 1, hi - 1, hi, (lo + hi) // 2}
    if dom:
        pts |= {p for p in (dom[0], dom[1]) if lo <= p <= hi}
    return sorted(p for p in pts if lo <= p <= hi and p not in ex)


def eval_header(parts, env):
    """Concrete bytes of the leading constant / packed parts under env; -> (bytes, rest parts) or raises struct.error."""
    out = b''
    i = 0
    for i, p in enumerate(parts):
        if isinstance(p, bytes):
            out += p
        elif isinstance(p, C.SymPack):
            vals = [C.sym_eval(a, env) if not isinstance(a, (float, C.SymFloat)) else 1.5 for a in p.args]
            out += struct.pack(p.fmt, *vals)
        else:
            return out, parts[i:]
    return out, []


def spec_header(data):
    """Decode the header bytes `data` with the specification table.
    -> dict(row, family, value | length, ext_type, used)"""
    b0 = data[0]
    name, fam, lo, hi, kind, prm = S.BY_BYTE[b0]
    d = {'row': name, 'family': fam, 'kind': kind, 'used': 1}
    if kind == 'inline':
        d['value'] = (b0 & prm['mask']) if not prm['signed'] else struct.unpack('b', bytes([b0]))[0]
    elif kind == 'fixlen':
        d['length'] = b0 & prm['mask']
    elif kind == 'const':
        d['value'] = prm['value']
    elif kind == 'value':
        w = prm['width']
        if len(data) < 1 + w:
            raise ValueError('header too short')
        if fam == 'int':
            d['value'] = struct.unpack(prm['fmt'], data[1:1 + w])[0]
        d['used'] = 1 + w
    elif kind == 'len':
        w = prm['width']
        if len(data) < 1 + w:
            raise ValueError('header too short')
        d['length'] = struct.unpack(prm['fmt'], data[1:1 + w])[0]
        d['used'] = 1 + w
    elif kind == 'fixext':
        d['length'] = prm['n']
    if fam == 'ext':
        if len(data) < d['used'] + 1:
            raise ValueError('ext type missing')
        d['ext_type'] = data[d['used']]
        d['used'] += 1
    return d


def check_writer(res, wt, compat, ext_range):
    mode = ' [compatibility]' if compat else ''
    ext_types = sorted({ext_range[0], ext_range[1], 0, -1, 127} & set(range(ext_range[0], ext_range[1] + 1)))
    nrows = 0
    for kind, rows in wt.items():
        ok_rows = [r for r in rows if r['exc'] is None]
        fam = KIND_FAMILY.get(kind)
        if compat and kind in ('str', 'bytes'):
            fam = 'str'           # the legacy raw family shares the str codes (no str 8 / bin)
        if kind == 'unsupported':
            res.check('C14-R2', 'an unsupported object is refused' + mode, rows and all(r['exc'] is not None and r['exc'].exc_name in PACK_EXC
                                                                                           for r in rows), F, 0,
                      'packing an object outside the data model must raise UnsupportedTypeException; got %s'
                      % [(r['exc'] and r['exc'].exc_name, r['written']) for r in rows], sample='object() -> UnsupportedTypeException')
            continue
        if kind in ('nil', 'true', 'false', 'float'):
            for r in rows:
                nrows += 1
                key = 'pack(%s)%s' % (kind, mode)
                if r['exc'] is not None:
                    res.check('C14-R1', key, False, F, 0, 'packing %s raises %s' % (kind, r['exc']))
                    continue
                try:
                    hdr, rest = eval_header(r['written'], {})
                    d = spec_header(hdr)
                except (struct.error, ValueError, KeyError, TypeError, IndexError) as e:
                    res.check('C14-R1', key, False, F, 0, 'the bytes written for %s (%s) are not a valid header: %s' % (kind, r['written'], e))
                    continue
                want = {'nil': None, 'true': True, 'false': False}.get(kind)
                okv = d['family'] == fam and (kind == 'float' or d.get('value') is want) and not rest and d['used'] == len(hdr)
                if kind == 'float':
                    p = [x for x in r['written'] if isinstance(x, C.SymPack)]
                    okv = okv and len(p) == 1 and norm_fmt(p[0].fmt) == norm_fmt(S.BY_BYTE[hdr[0]][5]['fmt']) \
                        and isinstance(p[0].args[0], C.SymFloat)
                res.check('C14-R1', key, okv, F, 0, 'pack(%s) writes %s, which the specification reads as %s' % (kind, r['written'], d),
                          sample='%s -> %s' % (kind, d['row']))
            continue
        # kinds with a controlling quantity
        dom = (INT_LO, INT_HI) if kind == 'int' else (LEN_LO, LEN_HI)
        covered = []
        for r in ok_rows:
            nrows += 1
            iv = r['interval']
            lo, hi, ex = iv
            key = 'pack(%s) %s..%s%s' % (kind, lo if lo > -C.BIG else '-inf', hi if hi < C.BIG else '+inf', mode)
            covered.append((lo, hi, ex))
            qn = 'n' if kind == 'int' else 'L'
            problems = []
            first_rows = set()
            # every symbolic variable the template mentions must be the tested quantity (or the ext type)
            free = set()
            for p in r['written']:
                if isinstance(p, C.SymPack):
                    for a in p.args:
                        free |= _vars(a)
                if isinstance(p, C.SymPayload):
                    free |= _vars(p.length)
            stray = sorted(v for v in free if v not in (qn, 't'))
            for v in stray:
                problems.append('the header is computed from %s, but the branch conditions test %s: the written value is not the '
                                'tested one' % (v, qn))
            for q in ([] if stray else samples(iv, dom)):
                for t in (ext_types if kind == 'ext' else (0,)):
                    env = {qn: q, 't': t}
                    try:
                        hdr, rest = eval_header(r['written'], env)
                        d = spec_header(hdr)
                    except struct.error as e:
                        problems.append('%s=%d does not fit the format written on this path (%s)' % (qn, q, e))
                        break
                    except (ValueError, KeyError, IndexError, TypeError) as e:
                        problems.append('%s=%d: header %r is not valid MessagePack (%s)' % (qn, q, r['written'], e))
                        break
                    first_rows.add(d['row'])
                    if d['family'] != fam or d['used'] != len(hdr):
                        problems.append('%s=%d is written as %s (%s family, %d header bytes of %d)' % (qn, q, d['row'], d['family'], d['used'], len(hdr)))
                        break
                    got = d.get('value') if kind == 'int' else d.get('length')
                    if got != q:
                        problems.append('%s=%d is written as %s carrying %r' % (qn, q, d['row'], got))
                        break
                    if kind == 'ext' and d.get('ext_type') != (t & 0xff):
                        problems.append('ext type %d is written as %r' % (t, d.get('ext_type')))
                        break
                    pr = payload_problem(kind, rest, r, qn)
                    if pr:
                        problems.append(pr)
                        break
                if problems:
                    break
            res.check('C14-R1', key, not problems, F, 0, 'writer path for %s in [%s, %s]: %s' % (kind, lo, hi, '; '.join(problems)),
                      sample='%s in [%s, %s] -> %s' % (kind, lo, hi, '/'.join(sorted(first_rows))))
        # R2: the non-raising intervals are exactly the domain; the rest is refused by the codec's own exception
        pts = set()
        for lo, hi, ex in covered:
            pts |= {lo, hi}
        probes = sorted({dom[0] - 1, dom[0], dom[1], dom[1] + 1, 0, -1, 1} | {p for p in pts if abs(p) < C.BIG}
                        | {p + 1 for p in pts if abs(p) < C.BIG} | {p - 1 for p in pts if abs(p) < C.BIG})
        holes, extra, multi = [], [], []
        for p in probes:
            if kind != 'int' and p < 0:
                continue
            hit = [c for c in covered if c[0] <= p <= c[1] and p not in c[2]]
            inside = dom[0] <= p <= dom[1]
            if inside and not hit:
                holes.append(p)
            if not inside and hit:
                extra.append(p)
            if len(hit) > 1:
                multi.append(p)
        res.check('C14-R2', 'pack(%s) accepts exactly the domain%s' % (kind, mode), not holes and not extra and not multi, F, 0,
                  'pack(%s): values of the domain [%d, %d] that no writer path accepts: %s; values outside it that are written '
                  'instead of refused: %s' % (kind, dom[0], dom[1], holes[:4], extra[:4]),
                  sample='%s: %d paths partition [%d, %d]' % (kind, len(covered), dom[0], dom[1]))
        for r in rows:
            if r['exc'] is not None:
                res.check('C14-R2', 'pack(%s) outside the domain is refused%s' % (kind, mode), r['exc'].exc_name in PACK_EXC, F, 0,
                          'a %s outside the domain must be refused with UnsupportedTypeException, the writer raises %s (interval %s)'
                          % (kind, r['exc'].exc_name, r['interval'][:2]), sample='%s out of range -> UnsupportedTypeException' % kind)
    return nrows


def _vars(x):
    if isinstance(x, C.SymInt):
        return {x.name}
    if isinstance(x, C.SymExpr):
        out = set()
        for a in x.args:
            out |= _vars(a)
        return out
    return set()


def payload_problem(kind, rest, r, qn):
    if kind == 'int':
        return None if not rest else 'an integer is followed by %s' % (rest,)
    if kind in ('str', 'bytes', 'ext'):
        if len(rest) != 1 or not isinstance(rest[0], C.SymPayload):
            return 'the header must be followed by exactly the payload, found %s' % (rest,)
        ln = rest[0].length
        if not (isinstance(ln, C.SymInt) and ln.name == qn):
            return 'the payload written has length %r, the header announces %s' % (ln, qn)
        return None
    want = [('nested', 'element')] if kind in ('list', 'tuple') else [('nested', 'key'), ('nested', 'value')]
    if list(rest) != want:
        return 'the header must be followed by %s per item, found %s' % (want, rest)
    rep = [x for x in r['repeat'] if x[0] in ('each-element', 'each-item')]
    if len(rep) != 1 or not (isinstance(rep[0][1], C.SymInt) and rep[0][1].name == qn):
        return 'the items are not written once per element of the container (%s)' % (rep,)
    return None


# ---------------------------------------------------------------------------------------------------------------

def describe_reads(row):
    """the reads after the first byte, as [('header', n) | ('payload', expr) | ('nested',)]"""
    out = []
    for r in row['reads'][1:]:
        if r[0] == 'header':
            out.append(('header', r[2], r[1]))
        elif r[0] == 'payload':
            out.append(('payload', r[2], r[1]))
        else:
            out.append((r[0],))
    return out


def check_reader(res, rt, compat):
    mode = ' [compatibility]' if compat else ''
    n = 0
    for b in range(256):
        name, fam, lo, hi, kind, prm = S.BY_BYTE[b]
        rows = rt[b]
        key = 'unpack 0x%02x (%s)%s' % (b, name, mode)
        n += 1
        good = [r for r in rows if r['exc'] is None]
        bad = [r for r in rows if r['exc'] is not None]
        if kind == 'reserved':
            res.check('C14-R3', key, not good and all(r['exc'].exc_name == 'ReservedCodeException' for r in bad), F, 0,
                      'the reserved code 0xc1 must be refused with ReservedCodeException; got %s' % [(r['exc'] and r['exc'].exc_name, r['result']) for r in rows],
                      sample='0xc1 -> ReservedCodeException')
            continue
        problems = []
        for r in rows:
            pr = reader_problem(b, fam, kind, prm, r, compat)
            if pr:
                problems.append(pr)
        if not good:
            problems.append('no path decodes this spec-valid first byte')
        res.check('C14-R3', key, not problems, F, 0, 'first byte 0x%02x (%s): %s' % (b, name, '; '.join(problems[:3])),
                  sample='0x%02x -> %s' % (b, name))
    return n


ALLOWED_MAP_EXC = ('UnhashableKeyException', 'DuplicateKeyException')


def reader_problem(b, fam, kind, prm, r, compat):
    reads = describe_reads(r)
    exc = r['exc']
    res_ = r['result']
    hdr = [x for x in reads if x[0] == 'header']
    pay = [x for x in reads if x[0] == 'payload']
    nested = [x for x in reads if x[0] == 'nested']
    # expected header reads
    want_hdr = []
    length = None           # int or ('field', read index)
    if kind in ('inline', 'const'):
        pass
    elif kind == 'value':
        want_hdr.append(prm['width'])
    elif kind == 'len':
        want_hdr.append(prm['width'])
    elif kind == 'fixlen':
        length = b & prm['mask']
    elif kind == 'fixext':
        length = prm['n']
    if fam == 'ext':
        want_hdr.append(1)
    if exc is not None:
        if fam == 'map' and exc.exc_name in ALLOWED_MAP_EXC:
            return None
        if fam == 'ext' and exc.exc_name == 'TypeError' and 'ext type' in str(exc.msg):
            return None            # reported once for all ext codes, see run()
        return 'raises %s: %s' % (exc.exc_name, exc.msg)
    # concrete-size payloads (fixstr, fixext) are logged as header reads: split them off
    conc_payload = None
    if fam in ('str', 'bin', 'ext') and isinstance(length, int):
        if len(hdr) != len(want_hdr) + 1:
            return 'performs the header reads %s, the format has %s plus a payload of %d bytes' % ([h[1] for h in hdr], want_hdr, length)
        conc_payload = hdr[-1]
        hdr = hdr[:-1]
        if conc_payload[1] != length:
            return 'reads a payload of %d bytes, the format carries %d' % (conc_payload[1], length)
    if [h[1] for h in hdr] != want_hdr:
        return 'performs the header reads %s, the format has %s' % ([h[1] for h in hdr], want_hdr)
    if fam == 'int':
        if kind == 'inline':
            want = (b & prm['mask']) if not prm['signed'] else struct.unpack('b', bytes([b]))[0]
            return None if res_ == want and not isinstance(res_, bool) else 'decodes to %r, the specification says %r' % (res_, want)
        if not (isinstance(res_, C.SymField) and res_.read == hdr[0][2] and norm_fmt(res_.fmt) == norm_fmt(prm['fmt']) and res_.index == 0):
            return 'decodes the %d-byte value as %r, the specification says format %s' % (prm['width'], res_, prm['fmt'])
        return None
    if fam == 'float':
        if not (isinstance(res_, tuple) and res_[:1] == ('float-field',) and norm_fmt(res_[2]) == norm_fmt(prm['fmt'])):
            return 'decodes the float as %r, the specification says format %s' % (res_, prm['fmt'])
        return None
    if fam in ('nil', 'bool'):
        return None if res_ is prm['value'] else 'decodes to %r, the specification says %r' % (res_, prm['value'])
    # families with a length
    if kind == 'len':
        # the length must be the field unpacked from the first header read with the row's format
        lf = _length_field(r, hdr[0][2])
        if lf is None or norm_fmt(lf.fmt) != norm_fmt(prm['fmt']):
            return 'does not take the length from the %d-byte header field with format %s (%s)' % (prm['width'], prm['fmt'], lf)
        length = lf
    if fam in ('str', 'bin', 'ext'):
        if isinstance(length, C.SymField):
            if len(pay) != 1 or pay[0][1] is not length:
                return 'reads a payload of %s bytes, the header field says %r' % ([p[1] for p in pay], length)
            pl_read = pay[0][2]
        else:
            pl_read = conc_payload[2]
        if fam == 'str':
            if compat:
                ok = isinstance(res_, (C.SymPayload, C.SymRead))
            else:
                ok = isinstance(res_, C.SymDecoded) and str(res_.codec).lower().replace('_', '-') in ('utf-8', 'utf8')
            return None if ok else 'builds %r from the payload (%s mode)' % (res_, 'compatibility' if compat else 'standard')
        if fam == 'bin':
            return None if isinstance(res_, (C.SymPayload, C.SymRead)) else 'returns %r instead of the payload bytes' % (res_,)
        # ext
        if not (hasattr(res_, 'attrs') and res_.cls.name == 'Ext'):
            return 'returns %r instead of an Ext' % (res_,)
        t, data = res_.attrs.get('type'), res_.attrs.get('data')
        tread = hdr[-1][2]
        if not (isinstance(t, C.SymField) and t.read == tread):
            return 'the ext type is %r, not the byte read after the length' % (t,)
        if not (isinstance(data, (C.SymPayload, C.SymRead)) and getattr(data, 'read', getattr(data, 'k', None)) == pl_read):
            return 'the ext data is %r, not the payload' % (data,)
        return None
    if fam in ('array', 'map'):
        per = 1 if fam == 'array' else 2
        if pay:
            return 'reads a raw payload %s inside a container' % (pay,)
        count = length
        if isinstance(count, int) and count == 0:
            ok = not nested and res_ in ([], {})
            return None if ok else 'an empty %s decodes to %r after %d nested reads' % (fam, res_, len(nested))
        if len(nested) != per:
            return 'decodes %d nested objects per item, a %s has %d' % (len(nested), fam, per)
        reps = [x for x in r['repeat'] if x[0] in ('begin', 'loop')]
        if isinstance(count, int) and count == 1:
            if reps:
                return 'one item is decoded in a loop over %r' % (reps,)
        else:
            if len(reps) != 1 or not (reps[0][1] is count or reps[0][1] == count):
                return 'the items are decoded %s times, the header says %r' % ([x[1] for x in reps], count)
        if fam == 'array':
            ok = isinstance(res_, C.SymRepeat) or (isinstance(res_, list) and len(res_) == 1)
            return None if ok else 'an array decodes to %r' % (res_,)
        return None if isinstance(res_, dict) and len(res_) == 1 else 'a map decodes to %r' % (res_,)
    return 'unhandled family %s' % fam


def _length_field(r, read_index):
    """the SymField unpacked from read `read_index` that the path used (found among payload sizes / repeat counts / constraints)"""
    cands = []
    for rd in r['reads']:
        if rd[0] == 'payload' and isinstance(rd[2], C.SymField):
            cands.append(rd[2])
    for x in r['repeat']:
        if isinstance(x[1], C.SymField):
            cands.append(x[1])
    for c in cands:
        if c.read == read_index:
            return c
    return None


def run(repo, res):
    try:
        tables = {}
        for compat in (False, True):
            tables[compat] = (C.writer_table(repo, compat), C.reader_table(repo, compat))
    except C.Uninterpretable as e:
        raise AnalysisError('umsgpack is outside the interpretable subset: %s' % e)
    nw = nr = 0
    for compat in (False, True):
        wt, rt = tables[compat]
        nw += check_writer(res, wt, compat, C.ext_type_range(repo.memo('codec-interp', lambda: C.CodecInterp(repo))))
        nr += check_reader(res, rt, compat)
    # the ext type byte: the specification allows -128..127 (negative = predefined types such as timestamp)
    ext_bad = sorted(b for b in range(256) if any(r['exc'] is not None and r['exc'].exc_name == 'TypeError' for r in tables[False][1][b]))
    res.check('C14-R3', 'ext type byte >= 0x80', not ext_bad, F, 0,
              'for the first bytes %s an ext whose type byte is 0x80..0xff (the predefined types of the specification, e.g. timestamp '
              '-1) makes unpack raise TypeError("ext type out of range") - a spec-valid encoding is not accepted, and the exception is '
              'not an UnpackException' % ' '.join('0x%02x' % b for b in ext_bad), sample='ext type 0x80..0xff decodes')
    # R5 truncation
    cuts = C.reader_table(repo, False, short=True)
    ncut = 0
    for b in range(256):
        badc = []
        for k, exc, result in cuts[b]:
            ncut += 1
            if exc is None or exc.exc_name != 'InsufficientDataException':
                badc.append('read %d short -> %s' % (k, exc.exc_name if exc else 'returns %r' % (result,)))
        res.check('C14-R5', 'unpack 0x%02x with a short read' % b, not badc, F, 0,
                  'first byte 0x%02x: a read that returns fewer bytes than asked must end in InsufficientDataException: %s'
                  % (b, '; '.join(badc[:3])), sample='0x%02x: every short read -> InsufficientDataException' % b, nontrivial=bool(cuts[b]))
    # R6 nested list keys
    for label, key, want in (('a flat array key', [1, 2], (1, 2)), ('an array key containing an array', [[1, 2], 3], ((1, 2), 3)),
                             ('a deeply nested array key', [[[1]], []], (((1,),), ()))):
        got, exc = C.map_with_key(repo, key)
        ok = exc is None and isinstance(got, dict) and list(got.keys()) == [want]
        res.check('C14-R6', 'map key: %s' % label, ok, F, 0,
                  'a map whose key is %s (%r) must decode to a dict keyed by the equal tuple %r; got %s'
                  % (label, key, want, exc or got), sample='%r -> %r' % (key, want))
    er = C.ext_type_range(repo.memo('codec-interp', lambda: C.CodecInterp(repo)))
    res.check('C14-R2', 'ext types accepted by the constructor', er[0] <= 0 and er[1] == 127 and er[0] in (0, -128), F, 0,
              'Ext must accept the application types 0..127 (and may accept the predefined -128..-1); it accepts %s' % (er,),
              sample='Ext types %d..%d' % er)
    # R6 the byte-string wrappers: each dumps() starts from an empty buffer, loads() reads the bytes it was given
    seq = C.dumps_sequence(repo, [5, 'UNSUPPORTED', 7, [1, 2]])
    res.check('C14-R6', 'dumps builds each encoding in a buffer of its own', seq == [b'\x05', 'UnsupportedTypeException', b'\x07', b'\x92\x01\x02'],
              F, 0, 'dumps(5), dumps([1, 2, <unsupported object>]), dumps(7), dumps([1, 2]) must give 05, UnsupportedTypeException, 07, '
              '92 01 02 - the bytes written before a failed encoding must not leak into the next one; got %s' % (seq,),
              sample='dumps after a failed dumps starts empty')
    lv = [C.loads_value(repo, d) for d in (b'\x05', b'\x92\x01\x02', b'\xc3')]
    res.check('C14-R6', 'loads decodes the bytes it is given', lv == [(5, None), ([1, 2], None), (True, None)], F, 0,
              'loads(05), loads(92 01 02), loads(c3) must give 5, [1, 2], True; got %s' % (lv,), sample='loads(bytes) = unpack(BytesIO(bytes))')
    # spec-valid maps whose keys a Python dict cannot hold side by side, or at all
    import struct as _struct
    for label, data in (('map keys 1 and 1.0 (an integer and a double: distinct MessagePack values)', b'\x82\x01\xc0\xcb' + _struct.pack('>d', 1.0) + b'\xc0'),
                        ('map keys 1 and true', b'\x82\x01\xc0\xc3\xc0'),
                        ('a map used as a map key', b'\x81\x80\xc0'),
                        ('an ext used as a map key', b'\x81\xd4\x05\x00\xc0')):
        got, exc = C.loads_value(repo, data)
        res.check('C14-R3', 'spec-valid encoding accepted: %s' % label.split(' (')[0], exc is None, F, 0,
                  'the encoding %s (%s) is valid MessagePack, the decoder refuses it with %s: maps are decoded into Python dicts, which '
                  'cannot hold keys that are equal as Python values (1 == 1.0 == True) or unhashable' % (data.hex(), label, exc),
                  sample='%s decodes' % label)
    ok, detail, ncalls = C.state_restoration(repo)
    res.check('C14-R6', 'no call leaves a trace in the module state', ok, F, 0,
              'the codec is a pure function of its argument: module-level variables of umsgpack must be the same after a call as before it, '
              'also when the call fails inside nested containers; but %s - every later call in the process sees that' % detail,
              sample='%d calls (7 failing part-way): module state unchanged' % ncalls)
    res.count('writer_rows', nw, floor=60)
    res.count('reader_rows', nr, floor=512)
    res.count('truncation_cases', ncut, floor=150)
    res.assumptions.extend([
        'struct.pack/unpack and bytes concatenation behave as documented (stdlib)',
        'sa/msgpack_spec.py transcribes the specification table correctly',
        'the writer is evaluated at the ends, the neighbours of the ends and the middle of each interval (its header fields are '
        'bitwise/affine in the quantity); nested values are cut at depth 1',
    ])
