"""C17 -- deterministic output.  Iteration-order taint: a value whose order comes
from iterating a set (or a dict filled by iterating a set) must not escape into an
ordered result unsorted.
"""
import ast

from ..core import AnalysisError, unparse, qualname, norm_stmt
from .. import rules_e1 as R
from ..callgraph import get_callgraph
from ..facts import get_facts

EXPLANATION = (
    'Static iteration-order taint analysis over supp/ (the vendored codec and the debug dump helpers excluded). '
    'Every expression is given an abstract kind: UNORDERED (set(...), set displays/comprehensions, set operators '
    'and methods, variables/fields/returns assigned from them, dicts filled while iterating an UNORDERED value) or '
    'ordered. R1: every order-observing conversion of an UNORDERED value (list(S), tuple(S), indexing, a list/dict '
    'comprehension or an appending loop over S, next(iter(S)), S.pop()) must be sanitised on the spot (wrapped in '
    'sorted/min/max/len/any/all/set/frozenset/membership, or guarded by a length-1 test) or its result must not '
    'escape the function (returned, stored in a field, passed on); hash-ordered dicts handed to other functions '
    'are followed to their consumers through the reasoned table; R2 the alternatives of an instance attribute are appended by one '
    'recorder in visiting order - any other place that builds or extends such a list must sort by position; the alternatives list of a multiply-bound '
    'name is built by a position sort; R3 the three API functions return only values built from sorted or '
    'source-ordered sequences; R4 no id()/hash() value is computed on a path reachable from the API entry points. '
    'Equality of the outputs of two concrete processes is NOT decided.')
TECHNIQUE = 'iteration-order taint (abstract kinds + local escape analysis) + abstract interpretation of the result-building code under both set-iteration orders + call-graph reachability for id()/hash()'

SKIP_FILES = ('supp/umsgpack.py',)
SANITISERS = ('sorted', 'min', 'max', 'len', 'any', 'all', 'set', 'frozenset', 'sum', 'bool')
SET_METHODS = ('union', 'difference', 'intersection', 'symmetric_difference', 'copy')
DEBUG_FUNCS = ('dump_flows', 'dumptree', 'dump', 'print_dump', 'check_names', 'usages')

# callees that order what they are given themselves (conditional on C17-R2 holding)
CONSUMER_ORDERS = {'MultiName': 'MultiName.__init__ sorts the alternatives by position (C17-R2)'}


def check_alternative_writers(repo, res, cg, facts):
    """The alternatives of an instance attribute (MultiValue.values) are in source order because one recorder appends them while
    it walks the assignment sites in visiting order (SourceScope.assigns over _attr_assigns).  Every other place that builds or
    extends such a list (a constructor call, a call of a method that writes self.values, a direct write of .values) combines lists
    of different classes or modules: its result is in source order only if it is sorted by position there."""
    mv = facts.classes.get('MultiValue')
    if mv is None:
        raise AnalysisError('class MultiValue vanished')
    # the recorder: a method that walks a list field of its object which another method of the class appends to (the assignment
    # sites in visiting order) and builds MultiValue objects (itself or through a helper of its module)
    recorders = set()
    for k, fi in facts.funcs.items():
        if fi.cls is None:
            continue
        appended = {unparse(c.func.value) for m in fi.cls.methods.values() if m.key != k for c in ast.walk(m.node)
                    if isinstance(c, ast.Call) and isinstance(c.func, ast.Attribute) and c.func.attr == 'append'
                    and unparse(c.func.value).startswith('self.')}
        def builds(node, depth=0):
            # a MultiValue constructor call in the node, or in a helper of the same module it calls
            for c in ast.walk(node):
                if isinstance(c, ast.Call) and isinstance(c.func, ast.Name) and c.func.id == 'MultiValue':
                    return True
                if isinstance(c, ast.Call) and depth < 2:
                    nm = c.func.id if isinstance(c.func, ast.Name) else (c.func.attr if isinstance(c.func, ast.Attribute) else None)
                    h = facts.module_funcs.get(fi.rel, {}).get(nm) or (fi.cls.methods.get(nm) if nm else None)
                    if h is not None and h.node is not node and builds(h.node, depth + 1):
                        return True
            return False
        if any(isinstance(n, ast.For) and unparse(n.iter) in appended for n in ast.walk(fi.node)) and builds(fi.node):
            recorders.add(k)
    if not recorders:
        raise AnalysisError('no method builds MultiValue objects while walking a recorded list of its object: the recorder of '
                            'instance-attribute assignments vanished')

    def writes_values(fn):
        for n in ast.walk(fn):
            if isinstance(n, (ast.Assign, ast.AugAssign, ast.AnnAssign)):
                for t in (n.targets if isinstance(n, ast.Assign) else [n.target]):
                    if isinstance(t, ast.Attribute) and t.attr == 'values':
                        return True
            if isinstance(n, ast.Call) and isinstance(n.func, ast.Attribute) and n.func.attr in ('append', 'extend', 'insert') \
                    and isinstance(n.func.value, ast.Attribute) and n.func.value.attr == 'values':
                return True
        return False
    mutators = {fi.key for fi in facts.funcs.values() if fi.cls is not None and fi.cls.name == 'MultiValue' and writes_values(fi.node)}
    callers = {}
    for k, es in cg.edges.items():
        for c, typed, n in es:
            callers.setdefault(c, set()).add(k)
    sites = []          # (function key, node, what)
    for k, fi in facts.funcs.items():
        in_mv = fi.cls is not None and fi.cls.name == 'MultiValue'
        for c, typed, n in cg.edges.get(k, []):
            if c in mutators and typed:
                if c.endswith('.__init__'):
                    sites.append((k, n, 'builds a MultiValue'))
                elif not in_mv:
                    sites.append((k, n, 'calls %s' % facts.funcs[c].qual))
        if not in_mv and writes_values(fi.node) and any(
                isinstance(a, ast.Attribute) and a.attr == 'values' and 'MultiValue' in repr(cg.typeof(a.value, cg.local_env(fi), fi))
                for a in ast.walk(fi.node)):
            sites.append((k, fi.node, 'writes .values of a MultiValue'))

    def recorder_only(k, depth=0, seen=()):
        if k in recorders:
            return True
        cs = callers.get(k, set()) - {k}
        if not cs or depth > 3 or k in seen:
            return False
        return all(recorder_only(c, depth + 1, seen + (k,)) for c in cs)
    n = 0
    for k, node, what in sites:
        n += 1
        fi = facts.funcs[k]
        arg = node.args[0] if isinstance(node, ast.Call) and node.args else None
        is_sorted = isinstance(arg, ast.Call) and isinstance(arg.func, ast.Name) and arg.func.id == 'sorted'
        ok = recorder_only(k) or is_sorted
        res.check('C17-R2', '%s %s' % (fi.qual, what), ok, fi.rel, getattr(node, 'lineno', fi.node.lineno),
                  '%s %s outside the recorder (%s), which lists the assignments of one attribute in visiting (= source) order: lists '
                  'assembled here from several classes or modules come out in the order of the merge (base order, lookup order), not in '
                  'source order, unless they are sorted by position' % (fi.qual, what, ', '.join(sorted(facts.funcs[r].qual for r in recorders))),
                  sample='%s: alternatives are appended by the recorder in visiting order' % fi.qual)
    res.count('alternative_writer_sites', n, floor=2)


class FnAnalysis(object):
    def __init__(self, fn, unordered_fields, unordered_funcs):
        self.fn = fn
        self.uf = unordered_fields
        self.ufn = unordered_funcs
        self.unordered_vars = set()
        changed = True
        n = 0
        while changed and n < 6:
            n += 1
            changed = False
            for st in ast.walk(fn):
                tgt, val = None, None
                if isinstance(st, ast.Assign):
                    tgt, val = st.targets, st.value
                elif isinstance(st, ast.AnnAssign) and st.value is not None:
                    tgt, val = [st.target], st.value
                elif isinstance(st, ast.AugAssign):
                    tgt, val = [st.target], st.value
                if tgt is None:
                    continue
                if self.kind(val) == 'U':
                    for t in tgt:
                        if isinstance(t, ast.Name) and t.id not in self.unordered_vars:
                            self.unordered_vars.add(t.id)
                            changed = True
            # dicts / lists filled while iterating an unordered value
            for lp in ast.walk(fn):
                if isinstance(lp, ast.For) and self.kind(lp.iter) == 'U':
                    for st in ast.walk(lp):
                        if isinstance(st, ast.Assign) and isinstance(st.targets[0], ast.Subscript) \
                                and isinstance(st.targets[0].value, ast.Name):
                            v = st.targets[0].value.id
                            if v not in self.unordered_vars:
                                self.unordered_vars.add(v)
                                changed = True

    module_unordered = frozenset()     # module-level names of the function's module that hold a set / frozenset

    def kind(self, e):
        if isinstance(e, (ast.Set, ast.SetComp)):
            return 'U'
        if isinstance(e, ast.Name):
            return 'U' if e.id in self.unordered_vars or e.id in self.module_unordered else 'O'
        if isinstance(e, ast.Attribute):
            return 'U' if e.attr in self.uf else 'O'
        if isinstance(e, ast.Call):
            f = e.func
            fname = unparse(f)
            if fname in ('set', 'frozenset'):
                return 'U'
            if isinstance(f, ast.Attribute):
                if f.attr in SET_METHODS and self.kind(f.value) == 'U':
                    return 'U'
                if f.attr in ('keys', 'values', 'items', 'iterkeys', 'itervalues', 'iteritems') and self.kind(f.value) == 'U':
                    return 'U'
                if f.attr in self.ufn:
                    return 'U'
            if fname in ('iterkeys', 'itervalues', 'iteritems', 'listkeys', 'listvalues', 'listitems') and e.args \
                    and self.kind(e.args[0]) == 'U':
                return 'U'
            if fname == 'MergedDict' and any(self.kind(a) == 'U' for a in e.args):
                return 'U'
            if fname in self.ufn:
                return 'U'
            return 'O'
        if isinstance(e, ast.BinOp) and isinstance(e.op, (ast.BitOr, ast.BitAnd, ast.Sub, ast.BitXor)):
            if self.kind(e.left) == 'U' or self.kind(e.right) == 'U':
                return 'U'
        if isinstance(e, ast.DictComp):
            if any(self.kind(g.iter) == 'U' for g in e.generators):
                return 'U'
        if isinstance(e, ast.IfExp):
            return 'U' if 'U' in (self.kind(e.body), self.kind(e.orelse)) else 'O'
        return 'O'


def parent(n):
    return getattr(n, '_parent', None)


def sanitised(node):
    """The order-observing expression is consumed by an order-insensitive operation."""
    p = parent(node)
    if isinstance(p, ast.Call) and node in p.args and unparse(p.func) in SANITISERS:
        if unparse(p.func) == 'sorted':
            keys = [k for k in p.keywords if k.arg == 'key']
            if keys and not any(w in unparse(keys[0].value) for w in ('location', 'declared_at')):
                # a sort key that is not injective (str.lower, len, ...) leaves ties in set-iteration order
                return None
        return 'argument of %s()' % unparse(p.func)
    if isinstance(p, ast.Compare) and any(isinstance(o, (ast.In, ast.NotIn)) for o in p.ops) and node in p.comparators:
        return 'membership test'
    if isinstance(p, ast.Subscript) and p.value is node:
        # list(S)[0] under a len(S) == 1 guard
        g = p
        while g is not None and not isinstance(g, ast.If):
            g = parent(g)
        if g is not None and 'len(' in unparse(g.test) and '== 1' in unparse(g.test):
            return 'single-element collection (len == 1 guard)'
    return None


def escapes(node, fn):
    """Does the value of `node` leave the function in an order-sensitive way?  -> description or None"""
    p = parent(node)
    if isinstance(p, ast.Return):
        return 'returned'
    if isinstance(p, ast.Assign):
        for t in p.targets:
            if isinstance(t, ast.Attribute):
                return 'stored in field .%s' % t.attr
            if isinstance(t, ast.Subscript):
                return 'stored in a container'
            if isinstance(t, ast.Name):
                # follow the variable: any use other than sanitisers escapes
                for u in ast.walk(fn):
                    if isinstance(u, ast.Name) and u.id == t.id and isinstance(u.ctx, ast.Load) and u is not node:
                        if sanitised(u):
                            continue
                        up = parent(u)
                        if isinstance(up, ast.Return):
                            return 'returned through %s' % t.id
                        if isinstance(up, ast.Call) and u in up.args:
                            return 'passed to %s()' % unparse(up.func)
                        if isinstance(up, ast.Subscript) and up.value is u:
                            return 'indexed (%s)' % unparse(up)
                        if isinstance(up, ast.Assign):
                            return 'copied (%s)' % norm_stmt(up)[:40]
                        if isinstance(up, (ast.For, ast.comprehension)):
                            return 'iterated in order'
                        if isinstance(up, ast.Attribute):
                            continue
                return None
    if isinstance(p, ast.Call) and node in p.args:
        return 'passed to %s()' % unparse(p.func)
    if isinstance(p, ast.Subscript) and p.value is node:
        return 'indexed (%s)' % unparse(p)
    if isinstance(p, ast.keyword):
        return 'passed as keyword %s' % p.arg
    return None


def alt_sorted(repo, want_detail=False):
    from .. import api_model
    recs = api_model.multiname_order_model(repo)
    ok = bool(recs) and all(r[2] for r in recs)
    return (ok, recs) if want_detail else ok


def run(repo, res):
    facts = get_facts(repo)
    cg = get_callgraph(repo)
    funcs = [fi for fi in facts.funcs.values() if fi.rel not in SKIP_FILES and fi.name not in DEBUG_FUNCS
             and not fi.rel.endswith(('supp-lint', 'supp-find'))]
    # fixpoint over unordered fields / unordered-returning functions
    ufields, ufuncs = set(), set()
    for _ in range(5):
        nf, nu = set(ufields), set(ufuncs)
        for fi in funcs:
            an = FnAnalysis(fi.node, ufields, ufuncs)
            for st in ast.walk(fi.node):
                if isinstance(st, ast.Assign) and an.kind(st.value) == 'U':
                    for t in st.targets:
                        if isinstance(t, ast.Attribute) and isinstance(t.value, ast.Name) and t.value.id == 'self':
                            nf.add(t.attr)
                if isinstance(st, ast.Return) and st.value is not None and an.kind(st.value) == 'U':
                    nu.add(fi.name)
        if nf == ufields and nu == ufuncs:
            break
        ufields, ufuncs = nf, nu
    res.extra['unordered_fields'] = sorted(ufields)
    res.extra['unordered_returning'] = sorted(ufuncs)

    # module-level tables that are sets (a table of suffixes built with frozenset(...).union(...)): iterating them anywhere in the
    # module observes hash order
    uglobals = {}
    for rel, tree in repo.trees.items():
        if rel in SKIP_FILES:
            continue
        probe = FnAnalysis(ast.Module(body=[], type_ignores=[]), ufields, ufuncs)
        names = set()
        for _ in range(3):
            probe.module_unordered = frozenset(names)
            for st in ast.walk(ast.Module(body=[x for x in tree.body if not isinstance(x, (ast.FunctionDef, ast.AsyncFunctionDef, ast.ClassDef))],
                                          type_ignores=[])):
                if isinstance(st, ast.Assign) and probe.kind(st.value) == 'U':
                    names.update(t.id for t in st.targets if isinstance(t, ast.Name))
        uglobals[rel] = frozenset(names)
    res.extra['unordered_module_tables'] = sorted('%s:%s' % (r, n) for r, ns in uglobals.items() for n in ns)
    # ---- R1 order-observing conversions ------------------------------------------------------------
    nsites = 0
    for fi in funcs:
        an = FnAnalysis(fi.node, ufields, ufuncs)
        an.module_unordered = uglobals.get(fi.rel, frozenset())
        for nd in ast.walk(fi.node):
            site = None
            src = None
            if isinstance(nd, ast.Call) and unparse(nd.func) in ('list', 'tuple') and nd.args and an.kind(nd.args[0]) == 'U':
                site, src = nd, nd.args[0]
            elif isinstance(nd, ast.Call) and unparse(nd.func) == 'sorted' and nd.args and an.kind(nd.args[0]) == 'U' \
                    and any(k.arg == 'key' and not any(w in unparse(k.value) for w in ('location', 'declared_at'))
                            for k in nd.keywords):
                # stable sort under a key that need not be injective: ties keep the iteration order of the set
                site, src = nd, nd.args[0]
            elif isinstance(nd, (ast.ListComp, ast.GeneratorExp)) and any(an.kind(g.iter) == 'U' for g in nd.generators):
                site, src = nd, [g.iter for g in nd.generators if an.kind(g.iter) == 'U'][0]
                # a generator handed straight to set()/sorted()/any() is order-insensitive
            elif isinstance(nd, ast.Call) and unparse(nd.func) == 'next' and nd.args and isinstance(nd.args[0], ast.Call) \
                    and unparse(nd.args[0].func) == 'iter' and an.kind(nd.args[0].args[0]) == 'U':
                site, src = nd, nd.args[0].args[0]
            elif isinstance(nd, ast.Call) and isinstance(nd.func, ast.Attribute) and nd.func.attr == 'pop' \
                    and not nd.args and an.kind(nd.func.value) == 'U' and not isinstance(nd.func.value, ast.Attribute):
                site, src = nd, nd.func.value
            elif isinstance(nd, ast.For) and an.kind(nd.iter) == 'U':
                # appending / yielding / returning inside the loop observes the order
                obs = None
                for st in ast.walk(ast.Module(body=nd.body, type_ignores=[])):
                    if isinstance(st, ast.Call) and isinstance(st.func, ast.Attribute) and st.func.attr in ('append', 'insert', 'extend'):
                        obs = st
                    if isinstance(st, (ast.Yield, ast.Return, ast.Break)):
                        obs = st
                if obs is not None:
                    nsites += 1
                    key = '%s: loop over %s' % (fi.qual, unparse(nd.iter))
                    res.check('C17-R1', key, False, fi.rel, nd.lineno,
                              'the loop over the unordered %s in %s observes its order (%s): the result differs between '
                              'processes/hash seeds' % (unparse(nd.iter), fi.qual, norm_stmt(obs)[:50]))
                continue
            if site is None:
                continue
            nsites += 1
            key = '%s: %s' % (fi.qual, unparse(site)[:60])
            why = sanitised(site)
            esc = None if why else escapes(site, fi.node)
            if isinstance(site, ast.Call) and unparse(site.func) == 'sorted' and esc is None and why is None:
                esc = 'returned / used as an ordered result'
            if esc and esc.startswith('passed to ') and esc[10:-2] in CONSUMER_ORDERS and alt_sorted(repo):
                why, esc = CONSUMER_ORDERS[esc[10:-2]], None
            ok = why is not None or esc is None
            res.check('C17-R1', key, ok, fi.rel, site.lineno,
                      '%s turns the unordered %s into a sequence and the result is %s unsorted: element order depends on '
                      'hash values (object addresses or PYTHONHASHSEED), so identical requests give differently ordered '
                      'results' % (unparse(site)[:60], unparse(src)[:40], esc),
                      sample='%s: %s' % (key, why or 'does not escape'))
    res.count('order_observing_sites', nsites, floor=1)
    # ---- R2 alternatives are position ordered ---------------------------------------------------------
    from .. import api_model
    api_model.apply(res, api_model.multiname_order_model(repo), {'order': 'C17-R2'}, 'supp/name.py', 0)
    # the alternatives of a join are ordered by location: two bindings one construct makes in parallel regions must differ in it
    hyg = R.binding_hygiene_records(repo)
    seen_t = set()
    for cls, variant, loc, regions, line in hyg['ties']:
        k = '%s binds in parallel regions at one location' % R.method_name(repo, cls)
        if k in seen_t:
            continue
        seen_t.add(k)
        res.check('C17-R2', k, False, line[0], line[1],
                  'on %s shape `%s` bindings registered in the parallel regions %s all carry the location %s: where these regions '
                  'join, the alternatives of a name bound in several of them tie on the sort key and come out in set (address) order'
                  % (cls, variant, regions, loc))
    res.ob('C17-R2', 'parallel bindings of one construct differ in location', not hyg['ties'],
           sample='%d shape paths: no two parallel regions of a construct bind at the same location' % hyg['n'])
    api_model.apply(res, api_model.declarations_model(repo), {'alts': 'C17-R2'}, 'supp/evaluator.py', 0)
    api_model.apply(res, api_model.location_model(repo), {'pairs': 'C17-R2'}, 'supp/assistant.py', 0)

    check_alternative_writers(repo, res, cg, facts)
    nso = 0
    for cls, r in sorted(R.statement_order_records(repo).items()):
        nso += r['n']
        res.check('C17-R2', '%s visits its statements in source order' % R.method_name(repo, cls), not r['bad'], r['line'][0], r['line'][1],
                  'the statements %s are visited before %s although they follow them in the source: attribute assignments (and '
                  'everything else the extractor records in visiting order) are then listed out of source order'
                  % ((r['bad'][0][1], r['bad'][0][2]) if r['bad'] else ('', '')), sample='%s: statement blocks visited in source order' % cls,
                  nontrivial=False)
    res.count('statement_order_pairs', nso, floor=150)

    # ---- R3 API results -------------------------------------------------------------------------------
    api_model.apply(res, api_model.assist_model(repo), {'sorted': 'C17-R3', 'pkg': 'C17-R3'}, 'supp/assistant.py', 0)

    # ---- R4 identity / address derived values ------------------------------------------------------------
    entries = ['supp/assistant.py:assist', 'supp/assistant.py:location', 'supp/linter.py:lint']
    reach = set()
    for e in entries:
        if e not in cg.edges:
            raise AnalysisError('API entry %s vanished' % e)
        reach |= cg.reach(e) | {e}
    nid = 0
    for fi in facts.funcs.values():
        for nd in ast.walk(fi.node):
            if isinstance(nd, ast.Call) and unparse(nd.func) in ('id', 'hash'):
                nid += 1
                res.check('C17-R4', '%s() in %s' % (unparse(nd.func), fi.qual), fi.key not in reach, fi.rel, nd.lineno,
                          '%s computes %s, an address/seed dependent value, on a path reachable from the API entry points'
                          % (fi.qual, unparse(nd)), nontrivial=False)
    res.count('identity_calls', nid, floor=1)
    res.assumptions.extend([
        'lists built by ast visitors and by position-ordered insertion (insert_loc) are deterministic',
        'reasoned table: the per-name tables of Flow.parent_names are consumed by key, by set(), or sorted',
    ])
