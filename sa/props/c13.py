"""C13 -- the analysis depends on program structure, not on layout.
Visibility is decided by comparing (line, column) pairs; the lexicographic order of
two token start positions is layout invariant.  Decides that every ordering anchor
is a token start (optionally +1 column) and that positions are only compared.
"""
import ast

from ..core import AnalysisError, unparse, qualname, norm_stmt
from .. import rules_e1 as R
from ..e1 import loc_kind

EXPLANATION = (
    'Static position-arithmetic analysis. R1 (E1): the visibility location of every binding the extractor '
    'creates is the start of one ast node (np(x)), the start of the last node of a value expression plus one '
    'column (get_expr_end), or the start of the first body statement (get_first_body_node_loc) - token starts, '
    'whose lexicographic order is invariant under every layout-only change (get_expr_end itself is abstractly '
    'interpreted on symbolic expression trees; the decorator-line/def-column pair of get_first_body_node_loc is the '
    '@ token); R2 positions used for ordering are consumed only by '
    'comparison (Location.__lt__, bisect, insert_loc, equality with the (0, 0) marker), never subtracted or '
    'compared per line; R3 diagnostic messages are built from the code and the identifier only. Equality of '
    'diagnostics between two concrete layouts is NOT decided.')
TECHNIQUE = 'provenance of ordering anchors on visitor summaries + abstract interpretation of get_expr_end and of the ordering consumers'

FILES = ('supp/nast.py', 'supp/scope.py', 'supp/name.py', 'supp/util.py', 'supp/linter.py', 'supp/evaluator.py')



def run(repo, res):
    # ---- R1 get_expr_end: abstractly interpreted on symbolic expression trees --------------------------
    from ..exprend import expr_end_semantics
    sem = expr_end_semantics(repo)
    from ..exprend import expr_end_layouts
    for text, ok, detail in expr_end_layouts(repo):
        if ok is None:
            raise AnalysisError('get_expr_end is outside the interpretable subset on %r: %s' % (text, detail))
        res.check('C13-R1', 'get_expr_end on the layout %r' % text, ok, 'supp/util.py', 0, 'the end of a value must be the start of its textually last node plus one column in every layout: %s' % detail,
                  sample='get_expr_end(%r) = start of the textually last node + 1 column' % text)
    layout_wrong = any(ok is False for _t, ok, _d in expr_end_layouts(repo))
    for cls, verdict, detail in sem:
        if verdict == 'unknown':
            if layout_wrong:
                # the symbolic model gives up on this get_expr_end, but a concrete layout above already shows a wrong result:
                # that is a verdict (reported above with the layout), not an analysis failure
                return
            raise AnalysisError('get_expr_end is outside the interpretable subset: %s' % detail)
        res.check('C13-R1', 'get_expr_end on %s' % cls, verdict == 'ok', 'supp/util.py', 0,
                  'get_expr_end must return (lineno, col_offset + 1) of the last visited node, both taken from that one node '
                  'and without comparing positions of different nodes (a comparison of raw line/column numbers changes with '
                  'the layout: hanging indents, joined statements): %s' % detail,
                  sample='get_expr_end(%s) = start of the last visited node + 1 column' % cls)
    if any(v != 'ok' for _, v, _ in sem):
        return      # the visitor summaries below rely on this helper
    _ns, _np = R.shape_stats(repo)
    res.extra['e1_shapes_interpreted'] = _ns
    res.extra['e1_shape_paths_interpreted'] = _np
    # ---- R1 anchors are token starts ---------------------------------------------------------
    brecs = R.binder_records(repo)
    n = 0
    for (cls, kind, path), r in sorted(brecs.items()):
        if r['n'] == 0 or r['missing']:
            continue
        key = '%s %s %s' % (R.method_name(repo, cls), kind, path)
        kinds = set()
        for s, bp, binder, b in r['binds']:
            kinds.add(loc_kind(b.get('location'))[0])
        n += 1
        ok = kinds <= {'np', 'expr_end', 'first_body', 'node_end'}
        res.check('C13-R1', key + ' anchor', ok, r['line'][0], r['line'][1],
                  'the visibility anchor of %s is %s: not the start of a token (np / get_expr_end / first body '
                  'statement), so its order relative to other positions can change under re-layout'
                  % (key, sorted(kinds)), sample='%s anchored at %s' % (key, sorted(kinds)))
    res.count('binders', n, floor=45)
    # get_first_body_node_loc, interpreted on concrete bodies: the position it gives is the start of the first token of the body
    # (the statement's own start, the `@` of the first decorator for a decorated definition)
    from .. import exprend
    lays = exprend.first_statement_layouts(repo)
    for text, ok0, detail in lays:
        if ok0 is None:
            raise AnalysisError('get_first_body_node_loc is outside the interpretable subset on %r: %s' % (text, detail))
        got, first = exprend.EXACT.get(text, (None, None))
        line = text.splitlines()[0]
        res.check('C13-R1', 'get_first_body_node_loc on a body starting with %r' % line, got is not None and tuple(got) == tuple(first),
                  'supp/scope.py', 0,
                  'get_first_body_node_loc gives %r for a body whose first token starts at %r: not the start of a token, so its order '
                  'relative to other positions can change under re-layout' % (got, first),
                  sample='first body position of %r is the start of its first token' % line)
    fb = repo.optional_helper('supp/scope.py', 'get_first_body_node_loc')
    if fb is not None:
        res.count('first_body_layouts', len(lays), floor=4)

    # ---- R2 ordering uses only comparison ----------------------------------------------------------
    lt = repo.method('supp/util.py', 'Location', '__lt__')
    r = lt.body[-1]
    res.check('C13-R2', 'Location.__lt__', isinstance(r, ast.Return) and unparse(r.value) == 'self.location < other.location',
              'supp/util.py', lt.lineno, 'Location ordering must be the plain lexicographic comparison of the positions')
    ult = repo.method('supp/name.py', 'UndefinedName', '__lt__')
    r = ult.body[-1]
    res.check('C13-R2', 'UndefinedName.__lt__', isinstance(r, ast.Return) and isinstance(r.value, ast.Constant),
              'supp/name.py', ult.lineno, 'the undefined marker must order independently of positions', nontrivial=False)
    nuse = 0
    for rel in FILES + ('supp/assistant.py',):
        for nd in ast.walk(repo.tree(rel)):
            if isinstance(nd, ast.Attribute) and nd.attr == 'location' and isinstance(nd.ctx, ast.Load):
                p = getattr(nd, '_parent', None)
                nuse += 1
                bad = None
                if isinstance(p, ast.Subscript):
                    bad = 'component access %s' % unparse(p)
                elif isinstance(p, (ast.BinOp, ast.UnaryOp)):
                    bad = 'arithmetic %s' % unparse(p)
                elif isinstance(p, ast.Compare):
                    ops = {type(o).__name__ for o in p.ops}
                    others = [unparse(x) for x in [p.left] + p.comparators if x is not nd]
                    if not (ops <= {'Lt', 'Eq', 'NotEq', 'Is', 'IsNot'}):
                        bad = 'comparison %s' % unparse(p)
                    elif ops & {'Eq', 'NotEq'} and not all(o in ('(0, 0)',) or o.endswith('.location') for o in others):
                        bad = 'equality with a position other than the (0, 0) marker: %s' % unparse(p)
                res.check('C13-R2', 'use of .location in %s: %s' % (qualname(nd), unparse(p)[:50]), bad is None, rel,
                          nd.lineno, 'ordering positions may only be compared as a whole (%s)' % bad, nontrivial=False)
    res.count('location_uses', nuse, floor=6)
    from .. import resolve_model as M
    M.check_same_line(repo, res, 'C13-R2')
    na = repo.method('supp/scope.py', 'Flow', 'names_at')
    res.check('C13-R2', 'names_at cuts by bisect', 'bisect(self._names, Location(loc))' in unparse(na), 'supp/scope.py',
              na.lineno, 'names_at must cut the ordered binding list by comparison (bisect) at the query position')

    # ---- R3 messages carry no layout-derived text ------------------------------------------------------
    lint = repo.module_func('supp/linter.py', 'lint')
    from .. import api_model
    api_model.apply(res, api_model.lint_model(repo), {'lookup': 'C13-R2'}, 'supp/linter.py', lint.lineno)
    nm = api_model.apply(res, api_model.lint_model(repo), {'message': 'C13-R3', 'producers': 'C13-R3'}, 'supp/linter.py', lint.lineno)
    res.count('diagnostic_message_scenarios', nm, floor=12)
    res.note('get_expr_end returns the start of the last *visited* node, not of the textually last one (e.g. '
             'f(k=1, *x)); this is layout independent and therefore outside C13 (noted under C03).')
    res.assumptions.extend(['the lexicographic order of two token start positions is invariant under layout-only changes',
                            'frozen summaries of np / get_expr_end / get_first_body_node_loc are re-validated structurally'])
