"""C08 -- the API is total.  Exception-escape analysis of the three entry points,
AST-kind narrowing in the extractor, protocol conformance of the result families,
and a guard cut-set argument for the mutual recursion.
"""
import ast

from ..core import AnalysisError, unparse, qualname
from ..facts import get_facts, enclosing_try_bodies
from ..callgraph import get_callgraph
from ..escape import Escape, caught_by
from .. import rules_e1 as R
from . import c04

EXPLANATION = (
    'Static totality analysis. R1 escape sets: over the call graph of supp/ the set of exception classes that can '
    'leave lint / assist / location is computed bottom-up from explicit raise statements and a frozen table of '
    'raising stdlib calls (ast.parse -> SyntaxError, __import__ -> ImportError, calling an arbitrary runtime class '
    '-> any exception), minus what the try/except clauses around each call catch; lint may let nothing escape and '
    'must turn its own parse error into exactly one E01 built from (msg, lineno, offset); assist and location may '
    'raise SyntaxError only; R2 (E1) the extractor raises on no statement/expression shape of the grammar (every '
    '.id/.arg dereference on a target is narrowed to Name) and every attribute it reads on the current scope exists '
    'on module, class and function scopes; R3 protocol conformance: at the frozen, reasoned list of sites that '
    'consume evaluation results (location: declared_at/filename of every declaration result; lint: name/location '
    'of every table entry; class bases: _attrs/call) every class of the family provides the attribute or the read '
    'is guarded; R4 recursion: after removing the re-entrancy-guarded functions and the reasoned structural '
    'recursions the typed call graph of the analysis must be acyclic. Exceptions of stdlib calls outside the table, '
    'stack depth and termination of data loops are NOT decided.'
    ' Later additions: R1 a parameter of an API entry point that defaults to None is followed through the repository functions it is handed to (copies included) and must not reach an os.path operation; R4 Project.norm_package is interpreted on a file system in which every probe succeeds, for relative, unnamed and absolute file names, and must come to an end; a call made before a re-entrancy marker is set counts only if its callee can come back to the guarded function. R3 field coverage: every explicit visit_<Class> method of the extractor hands on every child field of that class (grammar of the running interpreter) below which a Name can stand - the names of an untouched field carry no .flow, which assist/location read without a guard.')
TECHNIQUE = 'exception-escape analysis over the call graph + visitor summaries + protocol conformance on class families + cycle cut-set'

ENTRIES = {'lint': 'supp/linter.py:lint', 'assist': 'supp/assistant.py:assist', 'location': 'supp/assistant.py:location'}
ALLOWED = {'lint': set(), 'assist': {'SyntaxError'}, 'location': {'SyntaxError'}}


def abstract_raisers(facts):
    out = set()
    for k, fi in facts.funcs.items():
        body = [s for s in fi.node.body if not (isinstance(s, ast.Expr) and isinstance(s.value, ast.Constant))]
        if len(body) == 1 and isinstance(body[0], ast.Raise) and 'NotImplementedError' in unparse(body[0]):
            out.add(k)
    return out


class _EveryDirectoryIsAPackage(object):
    """A file system in which every probe succeeds: every directory, the current one and the root included, holds an __init__.py."""
    def __contains__(self, path):
        return True


def check_path_climbing(repo, res, facts):
    """Project.norm_package climbs from a file towards the outermost package directory.  The climb must end whatever the file system
    says: os.path.dirname has fixed points ('' for a relative name - an unnamed buffer is '<string>' -, '/' for an absolute one)."""
    from ..absint import Interp, InterpRaise, Uninterpretable
    proj = facts.classes.get('Project')
    if proj is None or 'norm_package' not in proj.methods:
        raise AnalysisError('Project.norm_package vanished')
    fn = proj.methods['norm_package']
    n = 0
    for fname in ('<string>', 'buffer.py', 'pkg/mod.py', '/abs/pkg/mod.py'):
        for spec in ('.x', '..x', '.'):
            it = Interp(repo, facts)
            it.fs = _EveryDirectoryIsAPackage()
            it.reset_path([])
            it.MAX_STEPS = 20000
            n += 1
            how = None
            try:
                p = it.instantiate(proj, [['<R>']], {})
                it.call(it.getattr(p, 'norm_package'), [spec, fname], {})
            except InterpRaise:
                pass                          # ImportError (or whatever: which exception is R1's subject)
            except Uninterpretable as e:
                if 'unbounded' in str(e) or 'budget' in str(e):
                    how = str(e)
                else:
                    raise AnalysisError('norm_package is outside the interpretable subset: %s' % e)
            res.check('C08-R4', 'norm_package(%r) from %r terminates when every directory is a package' % (spec, fname), how is None,
                      fn.rel, fn.node.lineno,
                      'with an __init__.py in every directory the file name is climbed from (the current directory for a relative name or an '
                      'unnamed buffer, the root for an absolute one) Project.norm_package(%r, %r) does not come to an end: os.path.dirname '
                      'has a fixed point and the loop does not notice it (%s) -> assist / location never return' % (spec, fname, how),
                      sample='norm_package(%r, %r) ends at the fixed point of dirname' % (spec, fname))
    res.count('path_climbing_scenarios', n, floor=12)


STR_ONLY_CALLS = ('os.path.dirname', 'os.path.join', 'os.path.basename', 'os.path.exists', 'os.path.abspath', 'os.path.split',
                  'dirname', 'join', 'basename', 'exists', 'abspath')


def check_optional_parameters(repo, res, facts, cg):
    """A parameter of an API entry point whose default is None (the file name of an unnamed buffer) must not reach an operation that
    needs a string.  Followed through the repository functions it is handed to (two levels); a use under a truth test of the value,
    `x or ...`, or as an argument of a class constructor (Source normalises it) is fine."""
    entries = [k for k in ('supp/assistant.py:assist', 'supp/assistant.py:location', 'supp/assistant.py:usages', 'supp/linter.py:lint')
               if k in facts.funcs]
    n = 0

    def guarded(node, name):
        p = getattr(node, '_parent', None)
        child = node
        while p is not None:
            if isinstance(p, ast.If) and child in p.body and name in {x.id for x in ast.walk(p.test) if isinstance(x, ast.Name)}:
                return True
            if isinstance(p, ast.BoolOp) and isinstance(p.op, ast.Or) and child is not p.values[-1]:
                return True
            if isinstance(p, ast.IfExp) and name in {x.id for x in ast.walk(p.test) if isinstance(x, ast.Name)}:
                return True
            child, p = p, getattr(p, '_parent', None)
        return False

    def follow(fi, pname, trail, depth):
        # the parameter and the locals that are plain copies of it (root = filename)
        names = {pname}
        for st in ast.walk(fi.node):
            if isinstance(st, ast.Assign) and isinstance(st.value, ast.Name) and st.value.id in names:
                names.update(t.id for t in st.targets if isinstance(t, ast.Name))
        for c in ast.walk(fi.node):
            if not isinstance(c, ast.Call):
                continue
            for i, a in enumerate(c.args):
                if not (isinstance(a, ast.Name) and a.id in names) or guarded(c, a.id):
                    continue
                f = unparse(c.func)
                if f in STR_ONLY_CALLS:
                    yield trail + ['%s(%s)' % (f, pname)], c
                    continue
                if depth >= 2:
                    continue
                for t, typed, node in cg.edges.get(fi.key, []):
                    if node is c and t in facts.funcs:
                        callee = facts.funcs[t]
                        if callee.name == '__init__':
                            continue              # a constructor: the object normalises what it is given
                        params = callee.params()
                        if callee.cls is not None and params and params[0] in ('self', 'cls'):
                            params = params[1:]
                        if i < len(params):
                            for x in follow(callee, params[i], trail + ['%s(..%s..)' % (callee.qual, params[i])], depth + 1):
                                yield x
    for k in entries:
        fi = facts.funcs[k]
        a = fi.node.args
        pos = a.posonlyargs + a.args
        optional = [p.arg for p, d in zip(pos[len(pos) - len(a.defaults):], a.defaults) if isinstance(d, ast.Constant) and d.value is None]
        for pname in optional:
            # the parameter may be re-bound to a normalised value at the top of the function (filename = source.filename)
            rebound = [st for st in fi.node.body if isinstance(st, ast.Assign) and any(isinstance(t, ast.Name) and t.id == pname for t in st.targets)]
            first_rebind = min([st.lineno for st in rebound] or [10 ** 9])
            n += 1
            hits = [(tr, c) for tr, c in follow(fi, pname, [fi.qual], 0)
                    if not (tr[0] == fi.qual and len(tr) >= 1 and _call_line(fi, tr, c) > first_rebind)]
            res.check('C08-R1', '%s(%s=None) reaches no string-only operation' % (fi.qual, pname), not hits, fi.rel, fi.node.lineno,
                      'the parameter %s of %s defaults to None (an unnamed buffer) and is handed on unchanged: %s - os.path functions raise '
                      'TypeError on None, which escapes the API (the Source object built from the same arguments knows the name "<string>")'
                      % (pname, fi.qual, ' -> '.join(hits[0][0]) if hits else ''),
                      sample='%s: %s is only handed to constructors or used after it was replaced by a normalised value' % (fi.qual, pname))
    res.count('optional_api_parameters', n, floor=3)


def _call_line(fi, trail, call):
    """line in the entry function at which the chain starts: the call itself when the chain has one link, else unknown (0)"""
    for c in ast.walk(fi.node):
        if c is call:
            return call.lineno
    # the chain goes through a callee: find the first call in the entry function that can start it
    first = trail[1].split('(')[0].split('.')[-1] if len(trail) > 1 else ''
    lines = [c.lineno for c in ast.walk(fi.node) if isinstance(c, ast.Call) and unparse(c.func).split('.')[-1] == first]
    return min(lines) if lines else 0


def run(repo, res):
    facts = get_facts(repo)
    cg = get_callgraph(repo)
    # ---- R1 escape sets -------------------------------------------------------------------------------
    esc = Escape(repo, {'self.value': ['AnyException']})
    # drop abstract declarations (raise NotImplementedError only)
    abstract = abstract_raisers(facts)
    lint = repo.module_func('supp/linter.py', 'lint')
    # lint: first access of source.tree inside try/except SyntaxError -> return one E01
    tree_reads = sorted([n for n in ast.walk(lint) if isinstance(n, ast.Attribute) and n.attr == 'tree'],
                        key=lambda n: (n.lineno, n.col_offset))
    ok = False
    if tree_reads:
        first = tree_reads[0]
        for t in enclosing_try_bodies(first, lint):
            for h in t.handlers:
                if h.type is not None and unparse(h.type) == 'SyntaxError' and h.name:
                    r = h.body[-1]
                    if isinstance(r, ast.Return) and isinstance(r.value, ast.List) and len(r.value.elts) == 1:
                        tup = r.value.elts[0]
                        want = ["'E01'", '%s.msg' % h.name, '%s.lineno' % h.name, '%s.offset' % h.name]
                        ok = isinstance(tup, ast.Tuple) and [unparse(e) for e in tup.elts[:4]] == want
    res.check('C08-R1', 'lint maps its parse error to one E01', ok, 'supp/linter.py', lint.lineno,
              'the first access of source.tree in lint must be inside try/except SyntaxError returning exactly one '
              "('E01', e.msg, e.lineno, e.offset, ...) diagnostic")
    e01 = [n for n in ast.walk(lint) if isinstance(n, ast.Constant) and n.value == 'E01']
    res.check('C08-R1', 'single E01 producer', len(e01) == 1, 'supp/linter.py', lint.lineno,
              'E01 must be produced only by the SyntaxError handler', nontrivial=False)
    for name, key in ENTRIES.items():
        if key not in facts.funcs:
            raise AnalysisError('API entry %s vanished' % key)
        escaping = esc.escaping(key)
        seen = 0
        for exc, path in sorted(escaping.items()):
            origin = path[-1]
            if any(a.split(':')[1] in origin for a in abstract) or 'raise NotImplementedError' in origin:
                continue
            if name == 'lint' and exc == 'SyntaxError' and ok:
                # Source.tree is a cached_property: the first (guarded) access stores the tree, later reads cannot raise
                if all('Source.tree' in p or 'parse(' in p for p in path):
                    continue
            seen += 1
            allowed = exc in ALLOWED[name]
            okk = allowed
            k = '%s: %s from %s' % (name, exc, origin.split(' ', 1)[1] if ' ' in origin else origin)
            res.check('C08-R1', k, okk, key.split(':')[0], facts.funcs[key].node.lineno,
                      '%s can raise %s: %s' % (name, exc, ' | '.join(path)),
                      sample='%s: %s escapes (allowed: %s)' % (name, exc, allowed))
        res.ob('C08-R1', '%s escape set computed' % name, True,
               sample='%s: escaping classes %s' % (name, sorted(escaping)))
    res.count('functions_analysed', len(facts.funcs), floor=150)

    # ---- R2 the extractor raises on no shape ---------------------------------------------------------------
    nshapes = 0
    seen = set()
    for cls, summs in R.summaries(repo).items():
        for s in summs:
            for ps in s.paths:
                nshapes += 1
                if ps.raised is not None:
                    k = '%s raises %s' % (R.method_name(repo, cls), ps.raised.exc_name)
                    if k in seen:
                        continue
                    seen.add(k)
                    line = R.method_line(repo, cls)
                    res.check('C08-R2', k, False, line[0], line[1],
                              'the extractor raises on %s shape `%s`: %s -> lint/assist/location die with it'
                              % (cls, s.variant, ps.raised))
    res.ob('C08-R2', 'extractor shapes', not seen, sample='%d shape paths interpreted, %d raising' % (nshapes, len(seen)))
    hyg = R.binding_hygiene_records(repo)
    seen_ns = set()
    for cls, variant, ident, line in hyg['nonstr']:
        k = '%s registers a binding whose name is not a string' % R.method_name(repo, cls)
        if k in seen_ns:
            continue
        seen_ns.add(k)
        res.check('C08-R2', k, False, line[0], line[1],
                  'on %s shape `%s` the extractor registers a binding named %s: lint (`name.name.startswith`), assist (sorting the '
                  'visible names) and the joins raise on it later' % (cls, variant, ident))
    res.ob('C08-R2', 'registered names are strings', not hyg['nonstr'], sample='%d shape paths: every registered binding is named by a string' % hyg['n'])
    res.count('shape_paths', nshapes, floor=900)
    # scope attributes read on the current scope must exist on every scope kind
    attrs = {}
    for cls, summs in R.summaries(repo).items():
        for s in summs:
            for ps in s.paths:
                for e in ps.effects:
                    if e[0] == 'curscope_attr':
                        attrs.setdefault(e[1], (cls, e[-1]))
    for a, (cls, line) in sorted(attrs.items()):
        missing = [c for c in ('SourceScope', 'FuncScope', 'ClassScope') if not facts.classes[c].provides(a)]
        res.check('C08-R2', '%s reads scope.%s' % (R.method_name(repo, cls), a), not missing,
                  line[0] if line else 'supp/nast.py', line[1] if line else 0,
                  '%s reads .%s of the current scope unconditionally, but %s have no such attribute (e.g. the statement '
                  'outside a function): AttributeError' % (R.method_name(repo, cls), a, missing))

    # ---- R3 protocol conformance at the frozen sites -------------------------------------------------------------
    check_protocols(repo, res, facts)
    check_stamped_names(repo, res, facts)

    # ---- R4 recursion guard cut-set --------------------------------------------------------------------------------
    check_recursion(repo, res, facts, cg)
    res.assumptions.extend([
        'frozen raising-stdlib table: ast.parse, __import__, calling a runtime class; open()/getmtime() on project files are '
        'outside the domain (project files other than the edited one are valid and present)',
        'name-based call edges are included in the escape analysis (over-approximation), each finding carries its path',
    ])


def provides_deep(ci, attr, facts):
    """provides(), and when the attribute is a property its own self.X reads are provided too."""
    if not ci.provides(attr):
        return False
    m = ci.lookup(attr)
    if m is not None and m.is_property:
        for n in ast.walk(m.node):
            if isinstance(n, ast.Attribute) and unparse(n.value) == 'self' and isinstance(n.ctx, ast.Load):
                if not ci.provides(n.attr) and n.attr not in ci.other_attrs_closure():
                    return False
    return True


def check_protocols(repo, res, facts):
    def subs(name):
        c = facts.classes[name]
        return {c.name} | {s.name for s in c.all_subclasses()}
    for ci in facts.classes.values():
        if not hasattr(ci, 'other_attrs_closure'):
            pass
    names_family = (subs('Name') | {'MultiName', 'FuncScope', 'ClassScope'}) - {'Name'}
    decl_family = {'AssignedName', 'ArgumentName', 'AssignedAttribute', 'ImportedName', 'RuntimeName', 'FuncScope',
                   'ClassScope', 'SourceModule', 'ImportedModule', 'AdditionalNameWrapper'}
    object_family = subs('Object') - {'Object'}
    SITES = [
        # (file, function, attribute, family name, family, reason the family is what it is)
        ('supp/assistant.py', 'location', 'declared_at', 'declaration results', decl_family),
        ('supp/assistant.py', 'location', 'filename', 'declaration results', decl_family),
        ('supp/linter.py', 'lint', 'location', 'name-table entries', names_family),
        ('supp/linter.py', 'lint', 'name', 'name-table entries', names_family),
        ('supp/name.py', 'ClassObject._attrs', '_attrs', 'evaluated base classes', object_family),
        ('supp/name.py', 'InstanceValue._attrs', 'call', 'evaluated base classes', object_family),
    ]
    # ClassObject.bases may filter what it keeps: hasattr(...) conditions restrict the family of base objects
    bases_fn = repo.method('supp/name.py', 'ClassObject', 'bases')
    req = set()
    for c in ast.walk(bases_fn):
        if isinstance(c, ast.Call) and unparse(c.func) == 'hasattr' and len(c.args) == 2 and isinstance(c.args[1], ast.Constant):
            req.add(c.args[1].value)
        if isinstance(c, ast.Call) and unparse(c.func) == 'isinstance' and len(c.args) == 2:
            names = [unparse(x) for x in (c.args[1].elts if isinstance(c.args[1], ast.Tuple) else [c.args[1]])]
            allowed = set()
            for nm in names:
                if nm in facts.classes:
                    allowed |= {nm} | {s.name for s in facts.classes[nm].all_subclasses()}
            if allowed:
                object_family &= allowed
    if req:
        kept = {c for c in object_family if all(facts.classes[c].provides(a) for a in req)}
        object_family.clear()
        object_family.update(kept)
    nsites = 0
    for rel, fq, attr, famname, family in SITES:
        fn = None
        for fi in facts.funcs.values():
            if fi.rel == rel and fi.qual == fq:
                fn = fi
        if fn is None:
            raise AnalysisError('protocol site %s:%s vanished' % (rel, fq))
        # the site and the same-module helpers it calls directly
        scopes = [fn]
        for c in ast.walk(fn.node):
            if isinstance(c, ast.Call) and isinstance(c.func, ast.Name):
                h = facts.module_funcs.get(rel, {}).get(c.func.id)
                if h is not None and h not in scopes:
                    scopes.append(h)
        reads = []
        owner = {}
        for sc in scopes:
            for n in ast.walk(sc.node):
                if isinstance(n, ast.Attribute) and n.attr == attr and isinstance(n.ctx, ast.Load) \
                        and unparse(n.value) not in ('self', 'self.cls'):
                    reads.append(n)
                    owner[id(n)] = sc
        if not reads:
            res.note('%s no longer reads .%s directly (site re-triaged as absent)' % (fq, attr))
            continue
        for n in reads:
            nsites += 1
            guarded = caught_by(n, 'AttributeError', owner[id(n)].node) or is_getattr_guarded(n)
            fam = narrow(n, family, facts, owner[id(n)].node)
            if isinstance(n.value, ast.Name):
                # a local that only ever holds an object the function constructs itself (source = Source(...)) is of that class
                binds = [st for st in ast.walk(owner[id(n)].node) if isinstance(st, ast.Assign)
                         and any(isinstance(t, ast.Name) and t.id == n.value.id for t in st.targets)]
                ctor = {unparse(st.value.func) for st in binds if isinstance(st.value, ast.Call)}
                if binds and all(isinstance(st.value, ast.Call) for st in binds) and len(ctor) == 1 and next(iter(ctor)) in facts.classes:
                    fam = {next(iter(ctor))}
            missing = sorted(c for c in fam if not provides_deep2(facts.classes[c], attr))
            key = '%s reads %s.%s' % (fq, unparse(n.value), attr)
            res.check('C08-R3', key, guarded or not missing, rel, n.lineno,
                      '%s reads .%s on %s without a guard; %s provide no such attribute (%s): AttributeError for such a '
                      'result' % (fq, attr, famname, missing, 'family: ' + ', '.join(sorted(fam))),
                      sample='%s: every member of the family (%d classes) provides .%s or the read is guarded'
                             % (key, len(fam), attr))
    res.count('protocol_sites', nsites, floor=4)
    # the supporting fact of the reasoned entry `scope` below, decided by interpretation
    from .. import resolve_model
    resolve_model.check_name_scope(repo, res, 'C08-R3')



# node sorts below which a Name can stand
NAME_BEARING_SORTS = ('expr', 'stmt', 'type_param', 'arguments', 'arg', 'keyword', 'withitem', 'comprehension', 'excepthandler',
                      'match_case', 'pattern')


def check_stamped_names(repo, res, facts):
    """assist/location read `.flow` on the Name node under the cursor; the extractor stamps it when it visits the node.  A visit
    method written for one node class takes over from generic_visit: every child field of that class (of the grammar of the running
    interpreter) below which a Name can stand must be passed on - visited, handed to a helper, or generic-visited."""
    from .. import grammar as G
    reads = []
    for fq in ('assist', 'location'):
        fi = next((f for f in facts.funcs.values() if f.rel == 'supp/assistant.py' and f.qual == fq), None)
        if fi is None:
            raise AnalysisError('assistant.%s vanished' % fq)
        scopes = [fi]
        for c in ast.walk(fi.node):
            if isinstance(c, ast.Call) and isinstance(c.func, ast.Name):
                h = facts.module_funcs.get(fi.rel, {}).get(c.func.id)
                if h is not None and h not in scopes:
                    scopes.append(h)
        for sc in scopes:
            for n in ast.walk(sc.node):
                if isinstance(n, ast.Attribute) and n.attr == 'flow' and isinstance(n.ctx, ast.Load) and isinstance(n.value, ast.Name) \
                        and not (caught_by(n, 'AttributeError', sc.node) or is_getattr_guarded(n)):
                    reads.append((fq, sc, n))
    if not reads:
        res.note('assist/location no longer read .flow of the node under the cursor without a guard: C08-R3 field coverage not armed')
        return
    vis = facts.classes.get('extract_visitor')
    if vis is None:
        raise AnalysisError('extract_visitor vanished')
    nfields = 0
    for mname in sorted(vis.methods):
        if not mname.startswith('visit_') or mname[6:] not in G.NODE_FIELDS:
            continue
        mi = vis.lookup(mname)
        if mi is None or len(mi.node.args.args) < 2:
            continue
        cls = mname[6:]

        def mentions(fn, param, field, depth=0):
            for n in ast.walk(fn):
                if isinstance(n, ast.Attribute) and n.attr == field and isinstance(n.value, ast.Name) and n.value.id == param:
                    return True
                if isinstance(n, ast.Call):
                    f = unparse(n.func)
                    if f in ('getattr', 'hasattr') and len(n.args) >= 2 and isinstance(n.args[0], ast.Name) and n.args[0].id == param \
                            and isinstance(n.args[1], ast.Constant) and n.args[1].value == field:
                        return True
                    if f.endswith('generic_visit') and any(isinstance(a, ast.Name) and a.id == param for a in n.args):
                        return True
                    if f in ('iter_child_nodes', 'ast.iter_child_nodes', 'walk', 'ast.walk', 'iter_fields', 'ast.iter_fields') \
                            and any(isinstance(a, ast.Name) and a.id == param for a in n.args):
                        return True
                    # the node handed to another method of the visitor / a module-level helper: look there (two levels)
                    if depth < 2:
                        for i, a in enumerate(n.args):
                            if isinstance(a, ast.Name) and a.id == param:
                                callee = None
                                if f.startswith('self.'):
                                    h = vis.lookup(f[5:])
                                    if h is not None and len(h.node.args.args) > i + 1:
                                        callee, p2 = h.node, h.node.args.args[i + 1].arg
                                elif isinstance(n.func, ast.Name):
                                    h = facts.module_funcs.get(mi.rel, {}).get(f)
                                    if h is not None and len(h.node.args.args) > i:
                                        callee, p2 = h.node, h.node.args.args[i].arg
                                if callee is not None and mentions(callee, p2, field, depth + 1):
                                    return True
            return False
        param = mi.node.args.args[1].arg
        for f in G.NODE_FIELDS[cls]:
            if f.sort not in NAME_BEARING_SORTS:
                continue
            nfields += 1
            ok = mentions(mi.node, param, f.name)
            fq, sc, rd = reads[0]
            res.check('C08-R3', '%s passes %s.%s on' % (mname, cls, f.name), ok, mi.rel, mi.node.lineno,
                      '%s() replaces the generic traversal for %s nodes and never touches %s.%s (%s %s): the names below it are '
                      'never visited and carry no .flow, which %s() reads without a guard (%s:%d) - a cursor there makes assist and '
                      'location raise AttributeError' % (mname, cls, cls, f.name, f.sort + ('' if f.mult == '1' else f.mult), f.name,
                                                         fq, sc.rel, rd.lineno),
                      sample='%s: every child field of %s that can hold a name is passed on' % (mname, cls))
    res.count('visit_method_child_fields', nfields, floor=60)

# attributes assigned from outside the class before the object becomes reachable (reasoned)
EXTERNALLY_SET = {
    'scope': ({'AssignedName', 'ArgumentName', 'ImportedName'},
              'Flow.add_name stamps name.scope before the binding enters any table (ImportedName sub-names: set explicitly)'),
}


def provides_deep2(ci, attr):
    if not ci.provides(attr):
        return False
    m = ci.lookup(attr)
    if m is not None and m.is_property:
        for n in ast.walk(m.node):
            if isinstance(n, ast.Attribute) and unparse(n.value) == 'self' and isinstance(n.ctx, ast.Load) \
                    and n.attr != attr and not ci.provides(n.attr):
                if n.attr in EXTERNALLY_SET and ci.name in EXTERNALLY_SET[n.attr][0]:
                    continue
                return False
    return True


def is_getattr_guarded(n):
    p = getattr(n, '_parent', None)
    while p is not None and not isinstance(p, ast.stmt):
        p = getattr(p, '_parent', None)
    q = p
    while q is not None:
        if isinstance(q, ast.If) and 'hasattr(%s, %r)' % (unparse(n.value), n.attr) in unparse(q.test):
            return True
        q = getattr(q, '_parent', None)
    return False


def narrow(n, family, facts, fn):
    """isinstance(recv, C) in an enclosing if-test / preceding `and` operand narrows the family."""
    recv = unparse(n.value)
    fam = set(family)
    child, p = n, getattr(n, '_parent', None)
    while p is not None and p is not fn:
        tests = []
        if isinstance(p, ast.If) and any(child is s for s in p.body):
            tests.append(p.test)
        if isinstance(p, ast.BoolOp) and isinstance(p.op, ast.And):
            idx = [i for i, v in enumerate(p.values) if v is child]
            if idx:
                tests.extend(p.values[:idx[0]])
        for t in tests:
            for c in ast.walk(t):
                if isinstance(c, ast.Call) and unparse(c.func) == 'isinstance' and unparse(c.args[0]) == recv:
                    names = [unparse(x) for x in (c.args[1].elts if isinstance(c.args[1], ast.Tuple) else [c.args[1]])]
                    allowed = set()
                    for nm in names:
                        if nm in facts.classes:
                            allowed |= {nm} | {s.name for s in facts.classes[nm].all_subclasses()}
                    fam &= allowed
                if isinstance(c, ast.Compare) and unparse(c.left) == 'type(%s)' % recv and isinstance(c.ops[0], ast.Is):
                    fam &= {unparse(c.comparators[0])}
        child, p = p, getattr(p, '_parent', None)
    return fam


# recursions over structures that are acyclic by construction (reasoned; each is a typed edge a -> b)
STRUCTURAL = {
    ('Flow.names', 'Flow.parent_names'): 'same region',
    ('Flow.parent_names', 'Flow.names'): 'region DAG: parents were created before the region; the only back edges are LoopFlows (guarded)',
    ('Flow.parent_names', 'LoopFlow.names'): 'guarded by LoopFlow._resolving',
    ('Flow.parent_names', 'SourceScope.names'): 'scope-chain ascent toward the module',
    ('Flow.parent_names', 'FuncScope.names'): 'scope-chain ascent',
    ('Flow.parent_names', 'ClassScope.names'): 'scope-chain ascent',
    ('Flow.parent_names', 'BaseScope.names'): 'scope-chain ascent',
    ('ClassScope.names', 'ClassScope.names'): 'scope-chain ascent',
    ('get_indexes_for_target', 'get_indexes_for_target'): 'strictly smaller ast subtree',
    ('dumptree', 'dumptree'): 'strictly smaller ast subtree',
    ('_deep_list_to_tuple', '_deep_list_to_tuple'): 'strictly smaller list',
}

# self-recursions that carry their own visited-set guard: (function, text that must appear in the guard)
SELF_GUARDED = {
    'EvalCtx.declarations': 'a name already listed is not followed again (decided by sa/api_model.declarations_model: an import resolving '
                            'to itself terminates)',
}


def check_recursion(repo, res, facts, cg):
    plist = c04.provisional_sources(repo)
    for p in plist:
        g = p['fi']
        b = []
        for c in p.get('bypass') or []:
            # a call made before the marker is set matters only if it can come back to the guarded function: a repository function that
            # (through the typed call graph) cannot reach it is a plain helper
            targets = [t for t, _typed, node in cg.edges.get(g.key, []) if node is c]
            if targets and all(g.key not in cg.reach(t, False) and t != g.key for t in targets):
                continue
            b.append(c)
        res.check('C08-R4', '%s guard is complete' % g.qual, not b, g.rel, b[0].lineno if b else g.node.lineno,
                  '%s makes the call `%s` after its re-entrancy test but before it sets the in-progress marker %s: that path '
                  'recurses unguarded (a cycle made only of such values recurses until RecursionError)'
                  % (g.qual, unparse(b[0])[:60] if b else '', p['marker']),
                  sample='%s: every call is made with the marker %s set' % (g.qual, p['marker']))
    from .. import api_model
    self_guard_ok = all(r[2] for r in api_model.declarations_model(repo) if r[0] == 'cycle')
    provs = {p['fi'].key for p in plist}
    keys = [k for k in facts.funcs if not k.startswith('supp/umsgpack.py') and k not in provs]
    adj = {}
    for k in keys:
        fi = facts.funcs[k]
        for c, typed, node in cg.edges.get(k, []):
            if not typed or c in provs or c not in facts.funcs or c.startswith('supp/umsgpack.py'):
                continue
            a, b = fi.qual, facts.funcs[c].qual
            if (a, b) in STRUCTURAL:
                continue
            if a == b and a in SELF_GUARDED and self_guard_ok:
                continue        # its visited-set guard is decided by interpretation on a cyclic input (see below)
            adj.setdefault(k, set()).add(c)
    # Tarjan SCC
    index = {}
    low = {}
    stack = []
    on = set()
    sccs = []
    counter = [0]
    import sys
    sys.setrecursionlimit(10000)

    def strong(v):
        index[v] = low[v] = counter[0]
        counter[0] += 1
        stack.append(v)
        on.add(v)
        for w in adj.get(v, ()):
            if w not in index:
                strong(w)
                low[v] = min(low[v], low[w])
            elif w in on:
                low[v] = min(low[v], index[w])
        if low[v] == index[v]:
            comp = []
            while True:
                w = stack.pop()
                on.discard(w)
                comp.append(w)
                if w == v:
                    break
            if len(comp) > 1 or v in adj.get(v, ()):
                sccs.append(comp)
    for k in keys:
        if k not in index:
            strong(k)
    res.extra['guarded_functions_removed'] = sorted(facts.funcs[k].qual for k in provs)
    for comp in sccs:
        names = sorted(facts.funcs[k].qual for k in comp)
        # shortest cycle through the first member as the report
        cyc = None
        start = sorted(comp)[0]
        prev = {start: None}
        work = [start]
        while work and cyc is None:
            nxt = []
            for k in work:
                for c in adj.get(k, ()):
                    if c == start:
                        path = [k]
                        while prev[path[-1]] is not None:
                            path.append(prev[path[-1]])
                        cyc = [facts.funcs[x].qual for x in path[::-1]] + [facts.funcs[start].qual]
                        break
                    if c in comp and c not in prev:
                        prev[c] = k
                        nxt.append(c)
                if cyc:
                    break
            work = nxt
        # private module-level helpers that only members of the component call are part of those members' bodies
        def helper(k):
            fi = facts.funcs[k]
            if fi.cls is not None or not fi.name.startswith('_'):
                return False
            callers = {c for c in keys if any(t and x == k for x, t, _n in cg.edges.get(c, []))}
            return callers <= set(comp)
        core = sorted(facts.funcs[k].qual for k in comp if not helper(k)) or names
        key = 'unguarded recursion through ' + ', '.join(core[:4]) + (' ...' if len(core) > 4 else '')
        res.check('C08-R4', key, False, facts.funcs[start].rel, facts.funcs[start].node.lineno,
                  'the functions %s call each other (typed edges) on a cycle %s that contains neither a re-entrancy '
                  'guard nor a reasoned structural recursion: a cyclic input (mutual star imports, inheritance '
                  'cycle) recurses until RecursionError' % (names, ' -> '.join(cyc or names)))
    if not sccs:
        res.ob('C08-R4', 'typed call graph acyclic after removing guards', True,
               sample='no cycle remains after removing %d guarded functions and %d structural edges' % (len(provs), len(STRUCTURAL)))
    res.count('recursion_components', len(sccs) + 1, floor=1)
    # the guards themselves, interpreted on cyclic stub inputs (import cycles, self-referential bindings)
    from .. import api_model
    api_model.apply(res, [r for r in api_model.evaluate_model(repo) if 'terminates' in r[1]], {'guard': 'C08-R4'}, 'supp/evaluator.py', 0)
    api_model.apply(res, api_model.declarations_model(repo), {'cycle': 'C08-R4'}, 'supp/evaluator.py', 0)
    api_model.apply(res, api_model.list_packages_model(repo), {'lp-total': 'C08-R1'}, 'supp/project.py', 0)
    # those guards compare by identity: the project must hand out one module object per name within a request
    api_model.apply(res, api_model.cache_history_model(repo, 3), {'identity': 'C08-R4'}, 'supp/project.py', 0)
    check_path_climbing(repo, res, facts)
    check_optional_parameters(repo, res, facts, cg)
